(* C20 -- The auto-reloader never loses a reload request.
   Only statements here; proofs live in MJ.C20.Proofs.  The model (C20/Model.v) is the transition
   system of minijinja-autoreload at the granularity of its lock acquisitions and of the user callbacks
   (which run with the notifier mutex held: states "lock held, inside callback"), for arbitrarily many
   threads and operations; [restore c = true] is the code after the fix (the flag is set again when
   the creator fails).  Events carry what acquire_env returned; [born e] is the number of requests
   that had taken effect when environment e was created (or, with fast reload, when its template
   cache was cleared). *)
From MJ Require Import Common.Base C20.Model C20.Spec C20.Proofs.

(* The executable transition function that is extracted and fed with the implementation's traces is
   the step relation, and accepting a trace means that it is a run. *)
Theorem exec_is_step : forall c s e s',
  exec c s (lab e) = Some (s', obs e) <-> step c s e s'.
Proof. exact exec_step_iff. Qed.

Theorem replay_is_run : forall c tr s s',
  replay c s 0 tr = inl s' <-> run c s tr s'.
Proof. intros; split; [apply replay_run | apply run_replay]. Qed.

(* Inv: whenever the flag is clear and no rebuild is between "flag reset" and "environment stored",
   the cached environment was born after every request; a guard that is out refers to an environment
   born after every request that had taken effect when its acquire_env took the cache mutex.
   Inductive over every step of every thread. *)
Theorem inv_initial : Inv init.
Proof. exact inv_init. Qed.
Theorem inv2_initial : Inv2 init.
Proof. exact inv2_init. Qed.
Theorem inv3_initial : Inv3 init.
Proof. exact inv3_init. Qed.

(* Inv2: while a thread is inside the freshness callback (or the on-should-reload callback called from
   should_reload) the notifier mutex is held, so the flag it saw clear is still clear. *)
(* Inv holds as long as the cache mutex is not poisoned; Inv3: once it is poisoned (a creator or callback
   panicked inside acquire_env) nobody holds it and nobody ever gets past it again. *)
Theorem inv_inductive : forall c s e s',
  restore c = true -> Inv s -> Inv2 s -> Inv3 s -> step c s e s' -> Inv s' /\ Inv2 s' /\ Inv3 s'.
Proof. intros c s e s' Hfix H1 H2 H3 Hs. exact (invs_step c s e s' Hfix (conj H1 (conj H2 H3)) Hs). Qed.

Theorem inv_reachable : forall c tr s,
  restore c = true -> run c init tr s -> Inv s /\ Inv2 s /\ Inv3 s.
Proof. intros c tr s Hfix H. exact (invs_run c Hfix tr init s invs_init H). Qed.

(* no_lost_request.  Take any run, any acquire_env (its first step is LAcqCache t, after the prefix
   tr1) and the step e in which an acquire_env next returns an environment en (no other acquire_env
   starts in between - so this is the same acquire, or it failed and nothing is handed out at all).
   Then it is thread t's acquire that returns, and en was born after EVERY request that had taken
   effect in tr1 - in particular after every request_reload that had returned before the acquire
   started.  tr1 and tr2 are arbitrary: the request may land while another thread's rebuild is
   running (see request_during_creator below), creators may fail any number of times before. *)
Theorem no_lost_request : forall c tr1 t tr2 e en s,
  restore c = true ->
  run c init (tr1 ++ ev (LAcqCache t) RNone :: tr2 ++ [e]) s ->
  forallb (fun x => negb (is_cache (lab x))) (tr2 ++ [e]) = true ->
  is_drop (lab e) = false -> obs e = REnv en ->
  tid_of (lab e) = t /\ count_sets tr1 <= born en.
Proof. exact no_lost_request_proof. Qed.

(* the same at state level: a guard handed out for an acquire that locked when r0 requests had taken effect *)
Theorem handed_out_is_fresh : forall c s e s' t r0,
  restore c = true -> Inv s /\ Inv2 s /\ Inv3 s -> step c s e s' -> ph s' = Holding t r0 ->
  exists en, cached s' = Some en /\ r0 <= born en.
Proof. exact handed_out_fresh. Qed.

(* guard_excludes: while a guard is held, no step of any thread replaces the cached environment,
   calls the creator or clears the templates; the only way out of Holding is the holder's drop. *)
Theorem guard_excludes : forall c s e s' t r0,
  step c s e s' -> ph s = Holding t r0 ->
  cached s' = cached s /\ creator_calls s' = creator_calls s /\ clears s' = clears s /\
  (ph s' = Holding t r0 \/ (lab e = LDrop t /\ ph s' = Idle)).
Proof. exact guard_excludes_proof. Qed.

(* no_spurious_rebuild: the creator count (with fast reload: the clear count) changes only in an
   acquire_env that had decided to reload; such a decision is only taken for a true reason: cache
   empty, flag set, or the freshness callback said so; and nothing but a decision leads there. *)
Theorem no_spurious_rebuild : forall c s e s',
  step c s e s' -> creator_calls s' <> creator_calls s \/ clears s' <> clears s ->
  exists t r0 w, ph s = PreCreate t r0 w \/ ph s = Cleared t r0 w.
Proof. exact no_spurious_rebuild_proof. Qed.

Theorem reload_only_after_decision : forall c s e s' t r0 w,
  step c s e s' -> (ph s' = PreCreate t r0 w \/ ph s' = Cleared t r0 w) ->
  ph s = PreCreate t r0 w \/ ph s = Cleared t r0 w \/ ph s = Decided t r0 w.
Proof. exact precreate_from_decision. Qed.

Theorem decision_is_justified : forall c s e s' t r0 w,
  step c s e s' -> ph s' = Decided t r0 w -> (forall w', ph s <> Decided t r0 w') ->
  match w with
  | WhyEmpty => cached s = None
  | WhyFlag => flag s = true
  | WhyFresh => lab e = LFreshEnd t CbTrue \/ (lab e = LOnCbEnd t false /\ nlk s = NOnCb t true)
  end.
Proof. exact decided_justified_proof. Qed.

(* ... and the on-should-reload callback is entered from should_reload only when the freshness callback said "stale" *)
Theorem oncb_from_check_justified : forall c s e s' t,
  step c s e s' -> nlk s' = NOnCb t true -> nlk s <> NOnCb t true -> lab e = LFreshEnd t CbTrue.
Proof. exact oncb_from_check_justified_proof. Qed.

(* The notifier mutex.  The user callbacks run with it held and may take arbitrarily long: while a
   thread h is inside one, no step of any thread changes the flag, the request count or the mutex
   state, except h leaving its callback; a request_reload that is not blocked takes effect (it never
   returns without having set the flag); a blocked attempt changes nothing and only happens while
   another thread holds the mutex. *)
Theorem notifier_excludes : forall c s e s' h,
  step c s e s' -> nlk_holder (nlk s) = Some h ->
  (flag s' = flag s /\ reqs s' = reqs s /\ nlk s' = nlk s) \/
  (flag s' = flag s /\ reqs s' = reqs s /\ tid_of (lab e) = h /\
   ((exists p, lab e = LOnCbEnd h p) \/ exists a, lab e = LFreshEnd h a)).
Proof. exact notifier_excludes_proof. Qed.

Theorem request_takes_effect : forall c s e s' t,
  step c s e s' -> lab e = LReqSet t ->
  nlk s = NFree /\
  ((npois s = false /\ obs e = RNone /\ flag s' = true /\ reqs s' = reqs s + 1) \/ (npois s = true /\ obs e = RPanic)).
Proof. exact request_takes_effect_proof. Qed.

Theorem blocked_is_stutter : forall c s e s' t,
  step c s e s' -> lab e = LBlocked t -> s' = s /\ exists h, nlk_holder (nlk s) = Some h /\ h <> t.
Proof. exact blocked_is_stutter_proof. Qed.

(* Panics.  The creator and the callbacks are user code and may panic; the unwinding poisons the std
   mutexes the thread holds, and every later lock().unwrap() panics in turn.  A panic does not restore
   the reload flag (panic_keeps_flag) - what keeps the stale environment from being served afterwards is
   the poison: once the cache mutex is poisoned no step of any thread hands out an environment
   (no_env_after_panic: after a creator or freshness-callback panic inside acquire_env - e.g. during the
   rebuild a request triggered - no environment, hence no stale one, is ever handed out again).
   no_lost_request above holds for all runs, with any number of panics anywhere. *)
Theorem panic_poisons : forall c s e s' t,
  step c s e s' -> (lab e = LCrePanic t \/ lab e = LFreshEnd t CbPanic) -> cpois s' = true /\ ph s' = Idle /\ obs e = RPanic.
Proof. exact panic_poisons_proof. Qed.

Theorem panic_keeps_flag : forall c s e s',
  step c s e s' -> obs e = RPanic -> flag s' = flag s /\ cached s' = cached s /\ reqs s' = reqs s.
Proof. exact panic_keeps_flag_proof. Qed.

Theorem poisoned_hands_out_nothing : forall c s e s',
  Inv3 s -> cpois s = true -> step c s e s' -> cpois s' = true /\ forall en, obs e <> REnv en.
Proof. exact poisoned_step. Qed.

Theorem no_env_after_panic : forall c tr1 p tr2 s t,
  run c init (tr1 ++ p :: tr2) s -> (lab p = LCrePanic t \/ lab p = LFreshEnd t CbPanic) ->
  forall e en, In e tr2 -> obs e <> REnv en.
Proof. exact no_env_after_panic_proof. Qed.

(* The three guarantees as the executable trace checkers of Spec.v (these are what the check
   evaluates on the implementation's observed traces): every run of the model passes them. *)
Theorem spec_holds_on_every_run : forall c tr s,
  restore c = true -> run c init tr s -> spec_ok tr = true.
Proof. exact spec_holds_proof. Qed.

(* Before the fix (restore = false) the property fails: request_reload; acquire_env whose creator
   fails; acquire_env again serves generation 1 born before the request.  Concrete run, by computation. *)
Theorem lost_request_refuted_before_fix :
  exists tr s, run cfg_before_fix init tr s /\ no_lost_ok tr = false /\
               flag s = false /\ reqs s = 1 /\ cached s = Some {| gen := 1; born := 0 |}.
Proof. exact lost_request_refuted_before_fix_proof. Qed.

(* non-vacuity *)
Example retry_after_failure :
  exists s, run cfg_fixed init retry_trace s /\ cached s = Some {| gen := 3; born := 1 |}.
Proof. exact retry_after_failure_proof. Qed.

(* a request issued while another thread polls a slow freshness callback sleeps on the notifier mutex,
   takes effect when the callback has returned, and the next acquire rebuilds (hypotheses of
   no_lost_request met with a BLOCKED step in the prefix) *)
Example request_during_freshness_poll :
  exists s, run cfg_fresh init (poll_tr1 ++ ev (LAcqCache 2) RNone :: poll_tr2 ++ [poll_last]) s /\
            count_sets poll_tr1 = 1 /\ obs poll_last = mk_env 2 1.
Proof. exact request_during_freshness_poll_proof. Qed.

(* the same schedule with a request_reload that returns instead of waiting for the mutex (try_lock) is
   not a run of the model - the replay stops at event 7 - and violates no_lost_request *)
Example nonblocking_request_rejected :
  replay cfg_fresh init 0 skip_trace = inr (7, RNone) /\ no_lost_ok skip_trace = false /\
  (forall s, ~ run cfg_fresh init skip_trace s).
Proof. exact nonblocking_request_rejected_proof. Qed.

(* request; the rebuild it triggers panics; every later acquire_env panics on the poisoned mutex *)
Example panicking_rebuild :
  exists s, run cfg_fixed init panic_trace s /\ flag s = false /\ reqs s = 1 /\
            cached s = Some {| gen := 1; born := 0 |} /\ cpois s = true /\ spec_ok panic_trace = true.
Proof. exact panicking_rebuild_proof. Qed.

(* the same schedule on a reloader that recovers from the poisoned cache mutex is not a run of the model
   (event 13: the model panics there) and violates no_lost_request: generation 1 is served after the request *)
Example poison_recovery_rejected :
  replay cfg_fixed init 0 recover_trace = inr (13, RPanic) /\ no_lost_ok recover_trace = false /\
  (forall s, ~ run cfg_fixed init recover_trace s).
Proof. exact poison_recovery_rejected_proof. Qed.

(* the hypotheses of no_lost_request are met by the 3-thread trace "request lands during the creator":
   the acquire of thread 2 starts after the request returned and is handed generation 2, born = 1 *)
Example request_during_creator :
  exists s, run cfg_fixed init (during_tr1 ++ ev (LAcqCache 2) RNone :: during_tr2 ++ [during_last]) s /\
            forallb (fun x => negb (is_cache (lab x))) (during_tr2 ++ [during_last]) = true /\
            is_drop (lab during_last) = false /\
            count_sets during_tr1 = 1 /\ obs during_last = mk_env 2 1.
Proof.
  destruct request_during_creator_proof as (s & H & H1 & H2). exists s. repeat split; assumption.
Qed.

Print Assumptions exec_is_step.
Print Assumptions replay_is_run.
Print Assumptions inv_initial.
Print Assumptions inv2_initial.
Print Assumptions inv3_initial.
Print Assumptions inv_inductive.
Print Assumptions inv_reachable.
Print Assumptions no_lost_request.
Print Assumptions handed_out_is_fresh.
Print Assumptions guard_excludes.
Print Assumptions no_spurious_rebuild.
Print Assumptions reload_only_after_decision.
Print Assumptions decision_is_justified.
Print Assumptions oncb_from_check_justified.
Print Assumptions notifier_excludes.
Print Assumptions request_takes_effect.
Print Assumptions blocked_is_stutter.
Print Assumptions panic_poisons.
Print Assumptions panic_keeps_flag.
Print Assumptions poisoned_hands_out_nothing.
Print Assumptions no_env_after_panic.
Print Assumptions spec_holds_on_every_run.
Print Assumptions lost_request_refuted_before_fix.
