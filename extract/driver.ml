(* Generic driver for the extracted models: `mjmodel <runner>` reads one case per line
   (blank-separated decimal integers), applies the extracted runner and prints the
   resulting integers.  Unverified glue: decimal <-> Coq Z conversion (via zarith). *)
module ZA = Z
open Mjmodel_ex

let rec pos_of_z (n : ZA.t) : positive =
  if ZA.equal n ZA.one then XH
  else
    let h = pos_of_z (ZA.shift_right n 1) in
    if ZA.testbit n 0 then XI h else XO h

let coq_of_z (n : ZA.t) : z =
  let s = ZA.sign n in
  if s = 0 then Z0 else if s > 0 then Zpos (pos_of_z n) else Zneg (pos_of_z (ZA.neg n))

let rec z_of_pos (p : positive) : ZA.t =
  match p with
  | XH -> ZA.one
  | XO q -> ZA.shift_left (z_of_pos q) 1
  | XI q -> ZA.succ (ZA.shift_left (z_of_pos q) 1)

let z_of_coq (c : z) : ZA.t =
  match c with Z0 -> ZA.zero | Zpos p -> z_of_pos p | Zneg p -> ZA.neg (z_of_pos p)

let explode s = List.init (String.length s) (String.get s)

let () =
  let name = if Array.length Sys.argv > 1 then Sys.argv.(1) else "" in
  let f =
    try List.assoc (explode name) runners
    with Not_found ->
      prerr_endline ("unknown runner " ^ name);
      exit 2
  in
  let buf = Buffer.create 65536 in
  (try
     while true do
       let line = input_line stdin in
       let toks = List.filter (fun s -> s <> "") (String.split_on_char ' ' (String.trim line)) in
       if toks <> [] then begin
         let inp = List.map (fun t -> coq_of_z (ZA.of_string t)) toks in
         let out = f inp in
         Buffer.add_string buf (String.concat " " (List.map (fun c -> ZA.to_string (z_of_coq c)) out));
         Buffer.add_char buf '\n';
         if Buffer.length buf > 60000 then begin
           print_string (Buffer.contents buf);
           Buffer.clear buf
         end
       end
     done
   with End_of_file -> ());
  print_string (Buffer.contents buf)
