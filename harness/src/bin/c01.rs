//! C01 stack meter: how many bytes of native stack each phase of loading / rendering a template uses.
//!
//! Request (JSON line): {"template": src, "ctx": json, "stack_kib": n (default 262144 = 256 MiB), "height_only": bool,
//!                        "format_only": fmt (+ "style", "args": minijinja::formatting::format called directly),
//!                        "load_only": bool (+ "syntax", "settings": load and render with a custom syntax, answer like `prog`)}
//! Response: {"ast_height": nodes on the longest path of the AST, "parse": bytes, "parse_ok": bool, "compile": bytes (code generation alone), "drop_ast": bytes, "load": bytes, "load_ok": bool,
//!            "undeclared": bytes, "render": bytes, "render_ok": bool, "drop_env": bytes}
//! Method: the request runs on a fresh thread with a big stack; before each phase the unused part of
//! the stack below the current frame is painted with a pattern, afterwards the lowest overwritten
//! word is looked up.  (Frames reserve more than they write: the figure is a lower bound that is
//! tight up to one frame; the crash monitor `prog` on a real 2 MiB thread is the authority.)
use std::io::{BufRead, Write};

use minijinja::value::Value;
use minijinja::Environment;
use serde_json::{json, Value as J};

const PATTERN: u64 = 0xA5C3_5A3C_F00D_BEEF;
const GAP: usize = 32 * 1024;

#[inline(never)]
fn metered<R>(stack: usize, f: impl FnOnce() -> R) -> (R, usize) {
    let marker = 0u64;
    let top = (&marker as *const u64 as usize) & !7usize;
    let lo = top.saturating_sub(stack) + 256 * 1024;
    let hi = top - GAP;
    let mut p = lo;
    while p < hi {
        unsafe { std::ptr::write_volatile(p as *mut u64, PATTERN) };
        p += 8;
    }
    let r = f();
    let mut p = lo;
    while p < hi && unsafe { std::ptr::read_volatile(p as *const u64) } == PATTERN {
        p += 8;
    }
    (r, if p >= hi { GAP } else { top - p })
}

/// Nodes on the longest root-to-leaf path of the AST (statement and expression nodes; the
/// serialized form of a node is an object with a string under "stmt" or "expr").  The
/// serialization recurses (big stack), the walk over the result does not.
fn ast_height(ast: &minijinja::machinery::ast::Stmt<'_>) -> usize {
    let v = match serde_json::to_value(ast) {
        Ok(v) => v,
        Err(_) => return 0,
    };
    let mut best = 0;
    let mut todo: Vec<(&J, usize)> = vec![(&v, 0)];
    while let Some((v, h)) = todo.pop() {
        match v {
            J::Object(m) => {
                let is_node = m.get("expr").map_or(false, |x| x.is_string()) || m.get("stmt").map_or(false, |x| x.is_string());
                let h = h + is_node as usize;
                best = best.max(h);
                for (_, c) in m.iter() {
                    todo.push((c, h));
                }
            }
            J::Array(a) => {
                for c in a {
                    todo.push((c, h));
                }
            }
            _ => {}
        }
    }
    // dropping the deep JSON value recurses as well: we are on the big stack
    best
}

fn run(req: &J, stack: usize) -> J {
    let src = req.get("template").and_then(|x| x.as_str()).unwrap_or("").to_string();
    let ctx = Value::from(minijinja::value::Serde(req.get("ctx").cloned().unwrap_or(J::Null)));
    let mut out = serde_json::Map::new();
    if let Some(fmt) = req.get("format_only").and_then(|x| x.as_str()) {
        // the formatting module called directly (the str.format style is otherwise only reachable through
        // minijinja-contrib's pycompat callback): {"format_only": fmt, "style": "printf"|"str", "args": [json, ..]}
        let style = match req.get("style").and_then(|x| x.as_str()) {
            Some("str") => minijinja::formatting::FormatStyle::StrFormat,
            _ => minijinja::formatting::FormatStyle::Printf,
        };
        let args: Vec<Value> = req
            .get("args")
            .and_then(|x| x.as_array())
            .map(|a| a.iter().map(|j| Value::from(minijinja::value::Serde(j.clone()))).collect())
            .unwrap_or_default();
        let r = match minijinja::formatting::format(style, fmt, &args) {
            Ok(s) => json!({"ok": s.len()}),
            Err(e) => {
                let _ = format!("{} {:#} {:?}", e, e, e);
                json!({"err": mjverif::err_code(e.kind())})
            }
        };
        out.insert("render".into(), r);
        return J::Object(out);
    }
    if req.get("load_only").and_then(|x| x.as_bool()).unwrap_or(false) {
        // lexer / parser boundary families with a configurable syntax (the generic `prog` bin has none):
        // {"syntax": {"line_statement_prefix": s, "line_comment_prefix": s, "block": [s, e], "variable": [s, e],
        //  "comment": [s, e]}, "settings": {..}}; answers like `prog`: {"render": {"ok": len} | {"err": code}}
        let mut env = Environment::new();
        if let Some(sy) = req.get("syntax") {
            let mut b = minijinja::syntax::SyntaxConfig::builder();
            let pair = |k: &str| -> Option<(String, String)> {
                let a = sy.get(k)?.as_array()?;
                Some((a.first()?.as_str()?.to_string(), a.get(1)?.as_str()?.to_string()))
            };
            if let Some((a, z)) = pair("block") {
                b.block_delimiters(a, z);
            }
            if let Some((a, z)) = pair("variable") {
                b.variable_delimiters(a, z);
            }
            if let Some((a, z)) = pair("comment") {
                b.comment_delimiters(a, z);
            }
            if let Some(p) = sy.get("line_statement_prefix").and_then(|x| x.as_str()) {
                b.line_statement_prefix(p.to_string());
            }
            if let Some(p) = sy.get("line_comment_prefix").and_then(|x| x.as_str()) {
                b.line_comment_prefix(p.to_string());
            }
            match b.build() {
                Ok(c) => env.set_syntax(c),
                Err(e) => {
                    out.insert("render".into(), json!({"err": mjverif::err_code(e.kind())}));
                    return J::Object(out);
                }
            }
        }
        if let Some(st) = req.get("settings") {
            env.set_trim_blocks(st["trim_blocks"].as_bool().unwrap_or(false));
            env.set_lstrip_blocks(st["lstrip_blocks"].as_bool().unwrap_or(false));
            env.set_keep_trailing_newline(st["keep_trailing_newline"].as_bool().unwrap_or(false));
        }
        env.set_debug(true);
        let r = env.add_template_owned("main".to_string(), src.clone()).and_then(|_| env.get_template("main")?.render(ctx.clone()));
        let r = match r {
            Ok(s) => json!({"ok": s.len()}),
            Err(e) => {
                let _ = format!("{} {:#} {:?} {}", e, e, e, e.display_debug_info());
                json!({"err": mjverif::err_code(e.kind())})
            }
        };
        out.insert("render".into(), r);
        return J::Object(out);
    }
    if req.get("height_only").and_then(|x| x.as_bool()).unwrap_or(false) {
        let ast = minijinja::machinery::parse(&src, "main", Default::default(), Default::default());
        out.insert("parse_ok".into(), json!(ast.is_ok()));
        if let Ok(ref ast) = ast {
            out.insert("ast_height".into(), json!(ast_height(ast)));
        }
        return J::Object(out);
    }
    {
        let (ast, used) = metered(stack, || minijinja::machinery::parse(&src, "main", Default::default(), Default::default()));
        out.insert("parse".into(), json!(used));
        out.insert("parse_ok".into(), json!(ast.is_ok()));
        if let Ok(ref ast) = ast {
            out.insert("ast_height".into(), json!(ast_height(ast)));
            let ((), used) = metered(stack, || {
                let mut g = minijinja::machinery::CodeGenerator::new("main", &src);
                g.compile_stmt(ast);
                let _ = g.finish();
            });
            out.insert("compile".into(), json!(used));
        }
        let ((), used) = metered(stack, move || drop(ast));
        out.insert("drop_ast".into(), json!(used));
    }
    let mut env = Environment::new();
    minijinja_contrib::add_to_environment(&mut env);
    let (r, used) = metered(stack, || env.add_template_owned("main".to_string(), src.clone()));
    out.insert("load".into(), json!(used));
    out.insert("load_ok".into(), json!(r.is_ok()));
    if r.is_ok() {
        if let Ok(tmpl) = env.get_template("main") {
            let (_, used) = metered(stack, || tmpl.undeclared_variables(true));
            out.insert("undeclared".into(), json!(used));
            let (r, used) = metered(stack, || tmpl.render(ctx.clone()).map(|s| s.len()));
            out.insert("render".into(), json!(used));
            out.insert("render_ok".into(), json!(r.is_ok()));
        }
    }
    let ((), used) = metered(stack, move || drop(env));
    out.insert("drop_env".into(), json!(used));
    J::Object(out)
}

fn main() {
    mjverif::install_quiet_panic_hook();
    let stdin = std::io::stdin();
    let stdout = std::io::stdout();
    for line in stdin.lock().lines() {
        let line = match line {
            Ok(l) => l,
            Err(_) => break,
        };
        if line.trim().is_empty() {
            continue;
        }
        let req: J = match serde_json::from_str(&line) {
            Ok(v) => v,
            Err(_) => {
                println!("{}", json!({"bad_request": true}));
                continue;
            }
        };
        let stack = req.get("stack_kib").and_then(|x| x.as_u64()).unwrap_or(262144) as usize * 1024;
        let h = std::thread::Builder::new().stack_size(stack).spawn(move || {
            std::panic::catch_unwind(std::panic::AssertUnwindSafe(|| run(&req, stack))).unwrap_or_else(|p| {
                json!({"panic": p.downcast_ref::<String>().cloned().or_else(|| p.downcast_ref::<&str>().map(|s| s.to_string())).unwrap_or_default()})
            })
        });
        let res = match h {
            Ok(h) => h.join().unwrap_or_else(|_| json!({"panic": true})),
            Err(_) => json!({"spawn_failed": true}),
        };
        let mut o = stdout.lock();
        let _ = writeln!(o, "{}", res);
        let _ = o.flush();
    }
}
