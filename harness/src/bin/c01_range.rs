//! C01: the built-in `range` function called directly.
//! Input: lower has_upper upper has_step step   (isize values)
//! Output: 0 len first last (first = last = 0 when len = 0) | 1 errcode | 2 (panic)
use minijinja::value::Value;
use mjverif::*;

fn main() {
    serve(2, |c| {
        let lower = c.i128() as isize;
        let has_upper = c.i64() != 0;
        let upper = c.i128() as isize;
        let has_step = c.i64() != 0;
        let step = c.i128() as isize;
        let r = minijinja::functions::range(lower, if has_upper { Some(upper) } else { None }, if has_step { Some(step) } else { None });
        match r {
            Err(e) => vec!["1".into(), err_code(e.kind()).to_string()],
            Ok(v) => {
                // the size hint is what `length` reports; count what the iteration really yields
                let mut n: u64 = 0;
                let mut first: Option<Value> = None;
                let mut last: Option<Value> = None;
                if let Ok(it) = v.try_iter() {
                    for x in it {
                        if first.is_none() {
                            first = Some(x.clone());
                        }
                        last = Some(x);
                        n += 1;
                    }
                }
                let hinted = v.len().map(|x| x as u64);
                if hinted.is_some() && hinted != Some(n) {
                    return vec!["7".into(), n.to_string(), hinted.unwrap_or(0).to_string()];
                }
                let f = |o: Option<Value>| o.map(|x| x.to_string()).unwrap_or_else(|| "0".into());
                vec!["0".into(), n.to_string(), f(first), f(last)]
            }
        }
    });
}
