//! C02 harness (JSON lines): renders with a host function that swallows errors, and replays calls on the State a
//! render leaves behind.
//!
//! Request: {"templates": {name: source}, "main": name, "ctx": json,
//!           "steps": [{"op": "macro", "name": m} | {"op": "block", "name": b}]}
//! The environment has the global function `attempt(f)`: calls the callable `f` (a macro, `caller`) without arguments
//! and returns its result, or the plain string "n/a" when the call fails.
//! Response: {"render": {"ok": text} | {"err": code}, "steps": [{"ok": text} | {"err": code} | {"panic": msg}]}
//! (the steps run on the State of the finished render, through Template::render_captured + Captured::with_state_mut).
use std::io::{BufRead, Write};
use std::panic::{catch_unwind, AssertUnwindSafe};
use std::sync::mpsc;
use std::time::Duration;

use minijinja::value::Value;
use minijinja::{Environment, State};
use serde_json::{json, Value as J};

fn panic_msg(p: Box<dyn std::any::Any + Send>) -> String {
    p.downcast_ref::<String>().cloned().or_else(|| p.downcast_ref::<&str>().map(|s| s.to_string())).unwrap_or_default()
}

fn run(req: &J) -> J {
    let mut env = Environment::new();
    env.add_function("attempt", |state: &mut State, f: Value| -> Value {
        f.call(state, &[]).unwrap_or_else(|_| Value::from("n/a"))
    });
    let empty = serde_json::Map::new();
    let templates = req.get("templates").and_then(|x| x.as_object()).unwrap_or(&empty);
    for (name, src) in templates {
        if let Err(e) = env.add_template_owned(name.clone(), src.as_str().unwrap_or("").to_string()) {
            return json!({"load_error": {"name": name, "err": mjverif::err_code(e.kind())}});
        }
    }
    let main = req.get("main").and_then(|x| x.as_str()).unwrap_or("main");
    let ctxv = Value::from(minijinja::value::Serde(req.get("ctx").cloned().unwrap_or(J::Null)));
    let tmpl = match env.get_template(main) {
        Ok(t) => t,
        Err(e) => return json!({"load_error": {"name": main, "err": mjverif::err_code(e.kind())}}),
    };
    let mut captured = match tmpl.render_captured(ctxv) {
        Ok(c) => c,
        Err(e) => return json!({"render": {"err": mjverif::err_code(e.kind())}, "steps": []}),
    };
    let render = json!({"ok": captured.output()});
    let mut steps = vec![];
    for st in req.get("steps").and_then(|x| x.as_array()).cloned().unwrap_or_default() {
        let op = st.get("op").and_then(|x| x.as_str()).unwrap_or("").to_string();
        let name = st.get("name").and_then(|x| x.as_str()).unwrap_or("").to_string();
        let r = catch_unwind(AssertUnwindSafe(|| {
            captured.with_state_mut(|state| if op == "block" { state.render_block(&name) } else { state.call_macro(&name, &[]) })
        }));
        steps.push(match r {
            Ok(Ok(s)) => json!({"ok": s}),
            Ok(Err(e)) => json!({"err": mjverif::err_code(e.kind())}),
            Err(p) => json!({"panic": panic_msg(p)}),
        });
    }
    json!({"render": render, "steps": steps})
}

fn main() {
    mjverif::install_quiet_panic_hook();
    let stdin = std::io::stdin();
    let stdout = std::io::stdout();
    let watchdog_ms: u64 = std::env::var("MJVERIF_WATCHDOG_MS").ok().and_then(|x| x.parse().ok()).unwrap_or(20000);
    for line in stdin.lock().lines() {
        let line = match line {
            Ok(l) => l,
            Err(_) => break,
        };
        if line.trim().is_empty() {
            continue;
        }
        let req: J = match serde_json::from_str(&line) {
            Ok(v) => v,
            Err(_) => {
                println!("{}", json!({"bad_request": true}));
                continue;
            }
        };
        let (tx, rx) = mpsc::channel();
        let h = std::thread::Builder::new().stack_size(4 << 20).spawn(move || {
            let r = catch_unwind(AssertUnwindSafe(|| run(&req)));
            let _ = tx.send(match r {
                Ok(v) => v,
                Err(p) => json!({"panic": panic_msg(p)}),
            });
        });
        let res = match rx.recv_timeout(Duration::from_millis(watchdog_ms)) {
            Ok(v) => v,
            Err(_) => {
                let mut o = stdout.lock();
                let _ = writeln!(o, "{}", json!({"hang": true}));
                let _ = o.flush();
                std::process::exit(3);
            }
        };
        if let Ok(h) = h {
            let _ = h.join();
        }
        let mut o = stdout.lock();
        let _ = writeln!(o, "{}", res);
        let _ = o.flush();
    }
}
