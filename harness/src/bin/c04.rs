//! C04 harness: literal-versus-variable transparency of compile-time evaluation.
//!
//! JSON lines.  Request: {"undefined": "lenient|strict|semistrict|chainable", "items": [item..]}
//!   item = {"templates": {name: source}, "main": name, "ctxs": [{name: TV}..]}  (one environment, main rendered once per context, in order
//!           -> {"load": {name: "ok"|{"err":k}}, "renders": [{"ok": text}|{"err": k}..]})   or
//!   item = {"expr": "<expression source>", "ctx": {name: TV}, "prelude": "<template text put before the rendered form>"}   or   {"src": "<template source>", "ctx": {name: TV}}
//!   TV (typed value, built exactly the way the parser builds the constant of the same literal):
//!     (optional "rep" on int: "i64"|"u64"|"i128"|"u128" - the width it is held at; on str: "arc"|"safe"|"string" - heap / safe / owned)
//!     {"t":"int","v":"<decimal>"} | {"t":"float","bits":"<u64>"} | {"t":"str","v":s} | {"t":"bool","v":b} | {"t":"none"}
//!     | {"t":"list","v":[TV..]} | {"t":"tuple","v":[TV..]} | {"t":"map","v":[[TV,TV]..]}  (maps are built by the VM's BuildMap)
//! Response: {"items": [res..]}
//!   expr item: {"load": "ok"|{"err":k}, "ops": [op names of `{{ E }}`], "const": SV (when the stream is LoadConst, Emit),
//!               "code": [[op, arg]..] of `{{ E }}` (when the item says "code": true; constants as SV),
//!               "ast_json": the parser's AST as JSON text (when the item says "ast": true),
//!               "render": {"ok": text of `{{ E }}\x01{{ [E] }}`} | {"err": k}, "eval": {"ok": SV} | {"err": k}}
//!   template item: {"load": .., "ops": [..], "render": ..}
//!   SV = structural description of a value (kind, exact number, items) - never a decimal float.
use std::collections::BTreeMap;
use std::io::{BufRead, Write};
use std::panic::{catch_unwind, AssertUnwindSafe};
use std::sync::mpsc;
use std::time::Duration;

use minijinja::machinery::Instruction;
use minijinja::value::{Tuple, Value, ValueKind};
use minijinja::{Environment, Error, UndefinedBehavior};
use serde_json::{json, Value as J};

fn errj(e: &Error) -> J {
    json!({"err": mjverif::err_code(e.kind())})
}

fn build(tv: &J) -> Value {
    match tv["t"].as_str().unwrap_or("") {
        "int" => {
            let s = tv["v"].as_str().unwrap_or("0");
            // "rep": the integer held at a given width (a variable need not carry the parser's choice)
            match tv.get("rep").and_then(|x| x.as_str()) {
                Some("i64") => {
                    if let Ok(i) = s.parse::<i64>() {
                        return Value::from(i);
                    }
                }
                Some("u64") => {
                    if let Ok(i) = s.parse::<u64>() {
                        return Value::from(i);
                    }
                }
                Some("i128") => {
                    if let Ok(i) = s.parse::<i128>() {
                        return Value::from(i);
                    }
                }
                Some("u128") => {
                    if let Ok(i) = s.parse::<u128>() {
                        return Value::from(i);
                    }
                }
                _ => {}
            }
            if let Ok(u) = s.parse::<u64>() {
                Value::from(u) // Token::Int
            } else if let Ok(u) = s.parse::<u128>() {
                Value::from(u) // Token::Int128
            } else if let Ok(i) = s.parse::<i64>() {
                Value::from(i) // what ops::neg makes of a small literal
            } else {
                Value::from(s.parse::<i128>().unwrap_or(0))
            }
        }
        "float" => Value::from(f64::from_bits(tv["bits"].as_str().unwrap_or("0").parse::<u64>().unwrap_or(0))),
        "str" => {
            // "rep": the same text in another representation (inline small string is what a short literal is)
            let t = tv["v"].as_str().unwrap_or("");
            match tv.get("rep").and_then(|x| x.as_str()) {
                Some("arc") => Value::from(std::sync::Arc::<str>::from(t)),
                Some("safe") => Value::from_safe_string(t.to_string()),
                Some("string") => Value::from(t.to_string()),
                _ => Value::from(t),
            }
        }
        "bool" => Value::from(tv["v"].as_bool().unwrap_or(false)),
        "none" => Value::from(()),
        "list" => Value::from(tv["v"].as_array().map(|a| a.iter().map(build).collect::<Vec<Value>>()).unwrap_or_default()),
        "tuple" => Value::from(Tuple::from(
            tv["v"].as_array().map(|a| a.iter().map(build).collect::<Vec<Value>>()).unwrap_or_default(),
        )),
        "map" => {
            // Built by the engine's own run-time constructor (BuildMap inserts pair by pair).
            // Value::from_pairs / collect() would go through BTreeMap::from_iter, which drops
            // adjacent keys that are `==` (true and 1, false and 0.0) although they are distinct
            // keys for insert(): the Eq/Ord inconsistency recorded under C07.
            let pairs: Vec<(Value, Value)> = tv["v"]
                .as_array()
                .map(|a| a.iter().map(|kv| (build(&kv[0]), build(&kv[1]))).collect())
                .unwrap_or_default();
            let mut ctx: BTreeMap<String, Value> = BTreeMap::new();
            let mut src = String::from("{");
            for (i, (k, v)) in pairs.into_iter().enumerate() {
                ctx.insert(format!("k{}", i), k);
                ctx.insert(format!("v{}", i), v);
                src.push_str(&format!("k{}: v{}, ", i, i));
            }
            src.push('}');
            let env = Environment::new();
            let expr = env.compile_expression(&src).expect("map constructor");
            expr.eval(Value::from(ctx)).expect("map constructor")
        }
        _ => Value::UNDEFINED,
    }
}

fn sv(v: &Value, depth: usize) -> J {
    if depth > 24 {
        return json!({"k": "deep"});
    }
    match v.kind() {
        ValueKind::Undefined => json!({"k": "undef"}),
        ValueKind::None => json!({"k": "none"}),
        ValueKind::Bool => json!({"k": "bool", "v": v.is_true()}),
        ValueKind::Number => {
            if v.is_integer() {
                if let Ok(i) = i128::try_from(v.clone()) {
                    json!({"k": "int", "v": i.to_string()})
                } else if let Ok(u) = u128::try_from(v.clone()) {
                    json!({"k": "int", "v": u.to_string()})
                } else {
                    json!({"k": "int?", "d": format!("{:?}", v)})
                }
            } else if let Ok(f) = f64::try_from(v.clone()) {
                json!({"k": "float", "bits": f.to_bits().to_string()})
            } else {
                json!({"k": "num?", "d": format!("{:?}", v)})
            }
        }
        ValueKind::String => json!({"k": "str", "v": v.as_str().unwrap_or(""), "safe": v.is_safe()}),
        ValueKind::Seq | ValueKind::Iterable => {
            let items: Vec<J> = match v.try_iter() {
                Ok(it) => it.take(64).map(|x| sv(&x, depth + 1)).collect(),
                Err(_) => vec![json!({"k": "uniterable"})],
            };
            let k = if v.is_tuple() {
                "tuple"
            } else if v.kind() == ValueKind::Seq {
                "seq"
            } else {
                "iter"
            };
            json!({"k": k, "v": items})
        }
        ValueKind::Map => {
            let is_kwargs = minijinja::value::Kwargs::try_from(v.clone()).is_ok();
            let items: Vec<J> = match v.try_iter() {
                Ok(it) => it
                    .take(64)
                    .map(|k| {
                        let val = v.get_item(&k).unwrap_or(Value::UNDEFINED);
                        json!([sv(&k, depth + 1), sv(&val, depth + 1)])
                    })
                    .collect(),
                Err(_) => vec![],
            };
            json!({"k": if is_kwargs { "kwargs" } else { "map" }, "v": items})
        }
        _ => json!({"k": "other", "d": format!("{:?}", v)}),
    }
}

fn probe(pos: Vec<Value>, kwargs: &minijinja::value::Kwargs) -> Value {
    let mut m: BTreeMap<String, Value> = BTreeMap::new();
    let keys: Vec<String> = kwargs.args().map(|s| s.to_string()).collect();
    for k in keys {
        if let Ok(v) = kwargs.get::<Value>(&k) {
            m.insert(k, v);
        }
    }
    Value::from(vec![Value::from(pos), Value::from(m)])
}

fn op_name(i: &Instruction) -> String {
    match serde_json::to_value(i) {
        Ok(J::Object(m)) => m.get("op").and_then(|x| x.as_str()).unwrap_or("?").to_string(),
        Ok(J::String(s)) => s,
        _ => format!("{:?}", i).split(|c: char| !c.is_alphanumeric()).next().unwrap_or("?").to_string(),
    }
}

fn ctx_of(item: &J) -> Value {
    let mut m: BTreeMap<String, Value> = BTreeMap::new();
    if let Some(o) = item.get("ctx").and_then(|x| x.as_object()) {
        for (k, tv) in o {
            m.insert(k.clone(), build(tv));
        }
    }
    Value::from(m)
}

fn load_and_run(env: &mut Environment, src: &str, render_src: Option<&str>, ctx: &Value, want_code: bool, out: &mut serde_json::Map<String, J>) {
    match env.add_template_owned("main".to_string(), src.to_string()) {
        Err(e) => {
            out.insert("load".into(), errj(&e));
        }
        Ok(()) => {
            out.insert("load".into(), json!("ok"));
            let tmpl = env.get_template("main").unwrap();
            let c = minijinja::machinery::get_compiled_template(&tmpl);
            let mut ops = vec![];
            let mut code = vec![];
            let mut i = 0;
            let mut first_const = None;
            while let Some(x) = c.instructions.get(i) {
                // [name, argument]: a constant as structural value, anything else as serde prints it
                let arg = match x {
                    Instruction::LoadConst(v) => sv(v, 0),
                    _ => serde_json::to_value(x).ok().and_then(|j| j.get("arg").cloned()).unwrap_or(J::Null),
                };
                code.push(json!([op_name(x), arg]));
                if i == 0 {
                    if let Instruction::LoadConst(v) = x {
                        first_const = Some(v.clone());
                    }
                }
                ops.push(op_name(x));
                i += 1;
            }
            if ops.len() == 2 && ops[1] == "Emit" {
                if let Some(v) = first_const {
                    out.insert("const".into(), sv(&v, 0));
                }
            }
            out.insert("ops".into(), json!(ops));
            if want_code {
                out.insert("code".into(), json!(code));
            }
            if render_src.is_none() {
                let r = match tmpl.render(ctx.clone()) {
                    Ok(s) => json!({"ok": s}),
                    Err(e) => errj(&e),
                };
                out.insert("render".into(), r);
            }
        }
    }
    if let Some(rs) = render_src {
        let r = match env.add_template_owned("r".to_string(), rs.to_string()) {
            Err(e) => json!({"load_err": mjverif::err_code(e.kind())}),
            Ok(()) => match env.get_template("r").unwrap().render(ctx.clone()) {
                Ok(s) => json!({"ok": s}),
                Err(e) => errj(&e),
            },
        };
        out.insert("render".into(), r);
    }
}

fn run_item(ub: UndefinedBehavior, item: &J) -> J {
    let mut env = Environment::new();
    minijinja_contrib::add_to_environment(&mut env);
    env.set_undefined_behavior(ub);
    // probes that hand back what they were given: [positional arguments, keyword map]
    env.add_function("cargs", |rest: minijinja::value::Rest<Value>, kwargs: minijinja::value::Kwargs| -> Value {
        probe(rest.0.clone(), &kwargs)
    });
    env.add_filter("cfilt", |value: Value, rest: minijinja::value::Rest<Value>, kwargs: minijinja::value::Kwargs| -> Value {
        let mut pos = vec![value];
        pos.extend(rest.0.iter().cloned());
        probe(pos, &kwargs)
    });
    // probes that consume keyword arguments conditionally and then insist that all were used
    env.add_function(
        "cshow",
        |amount: Option<i64>, kwargs: minijinja::value::Kwargs| -> Result<String, Error> {
            let rv = match amount {
                Some(amount) => {
                    let unit: Option<String> = kwargs.get("unit")?;
                    format!("{}{}", amount, unit.unwrap_or_default())
                }
                None => "-".to_string(),
            };
            kwargs.assert_all_used()?;
            Ok(rv)
        },
    );
    env.add_filter(
        "ckw",
        |value: Value, sel: Value, kwargs: minijinja::value::Kwargs| -> Result<String, Error> {
            let a: Option<Value> = kwargs.get("a")?;
            let b: Option<Value> = if sel.is_true() { kwargs.get("b")? } else { None };
            kwargs.assert_all_used()?;
            Ok(format!("{}:{:?}:{:?}", value, a, b))
        },
    );
    let ctx = ctx_of(item);
    let mut out = serde_json::Map::new();
    if let Some(tmpls) = item.get("templates").and_then(|x| x.as_object()) {
        // several templates on ONE environment; the main one is rendered once per context of "ctxs", in order
        let mut load = serde_json::Map::new();
        for (name, src) in tmpls {
            let r = match env.add_template_owned(name.clone(), src.as_str().unwrap_or("").to_string()) {
                Ok(()) => json!("ok"),
                Err(e) => errj(&e),
            };
            load.insert(name.clone(), r);
        }
        out.insert("load".into(), J::Object(load));
        let main = item.get("main").and_then(|x| x.as_str()).unwrap_or("main");
        let mut renders = vec![];
        let ctxs: Vec<J> = item.get("ctxs").and_then(|x| x.as_array()).cloned().unwrap_or_else(|| vec![json!({})]);
        match env.get_template(main) {
            Err(e) => renders.push(errj(&e)),
            Ok(t) => {
                for c in &ctxs {
                    let cv = ctx_of(&json!({"ctx": c}));
                    renders.push(match t.render(cv) {
                        Ok(s) => json!({"ok": s}),
                        Err(e) => errj(&e),
                    });
                }
            }
        }
        out.insert("renders".into(), json!(renders));
        return J::Object(out);
    }
    if let Some(e) = item.get("expr").and_then(|x| x.as_str()) {
        let src = format!("{{{{ {} }}}}", e);
        let prelude = item.get("prelude").and_then(|x| x.as_str()).unwrap_or("");
        let rsrc = format!("{}{{{{ {} }}}}\u{1}{{{{ [{}] }}}}", prelude, e, e);
        let want_code = item.get("code").and_then(|x| x.as_bool()).unwrap_or(false);
        load_and_run(&mut env, &src, Some(&rsrc), &ctx, want_code, &mut out);
        let ev = match env.compile_expression(e) {
            Err(err) => json!({"load_err": mjverif::err_code(err.kind())}),
            Ok(x) => match x.eval(ctx.clone()) {
                Ok(v) => json!({"ok": sv(&v, 0)}),
                Err(err) => errj(&err),
            },
        };
        out.insert("eval".into(), ev);
        if item.get("ast").and_then(|x| x.as_bool()).unwrap_or(false) {
            // the parser's own AST of the expression, as JSON text (u128 constants survive as digits)
            let a = match minijinja::machinery::parse_expr(e) {
                Ok(ast) => serde_json::to_string(&ast).unwrap_or_else(|_| "null".to_string()),
                Err(_) => "null".to_string(),
            };
            out.insert("ast_json".into(), J::String(a));
        }
    } else if let Some(src) = item.get("src").and_then(|x| x.as_str()) {
        load_and_run(&mut env, src, None, &ctx, false, &mut out);
    }
    J::Object(out)
}

fn run(req: &J) -> J {
    let ub = match req.get("undefined").and_then(|x| x.as_str()).unwrap_or("lenient") {
        "strict" => UndefinedBehavior::Strict,
        "semistrict" => UndefinedBehavior::SemiStrict,
        "chainable" => UndefinedBehavior::Chainable,
        _ => UndefinedBehavior::Lenient,
    };
    let empty = vec![];
    let items = req.get("items").and_then(|x| x.as_array()).unwrap_or(&empty);
    let res: Vec<J> = items
        .iter()
        .map(|it| match catch_unwind(AssertUnwindSafe(|| run_item(ub, it))) {
            Ok(v) => v,
            Err(p) => {
                let msg = p
                    .downcast_ref::<String>()
                    .cloned()
                    .or_else(|| p.downcast_ref::<&str>().map(|s| s.to_string()))
                    .unwrap_or_default();
                json!({"panic": msg})
            }
        })
        .collect();
    json!({"items": res})
}

fn main() {
    mjverif::install_quiet_panic_hook();
    let stdin = std::io::stdin();
    let stdout = std::io::stdout();
    let watchdog_ms: u64 = std::env::var("MJVERIF_WATCHDOG_MS").ok().and_then(|x| x.parse().ok()).unwrap_or(20000);
    for line in stdin.lock().lines() {
        let line = match line {
            Ok(l) => l,
            Err(_) => break,
        };
        if line.trim().is_empty() {
            continue;
        }
        let req: J = match serde_json::from_str(&line) {
            Ok(v) => v,
            Err(_) => {
                println!("{}", json!({"bad_request": true}));
                continue;
            }
        };
        let (tx, rx) = mpsc::channel();
        let h = std::thread::Builder::new().stack_size(4 << 20).spawn(move || {
            let r = catch_unwind(AssertUnwindSafe(|| run(&req)));
            let _ = tx.send(r.unwrap_or_else(|_| json!({"panic": "outer"})));
        });
        let res = match rx.recv_timeout(Duration::from_millis(watchdog_ms)) {
            Ok(v) => v,
            Err(_) => {
                let mut o = stdout.lock();
                let _ = writeln!(o, "{}", json!({"hang": true}));
                let _ = o.flush();
                std::process::exit(3);
            }
        };
        if let Ok(h) = h {
            let _ = h.join();
        }
        let mut o = stdout.lock();
        let _ = writeln!(o, "{}", res);
        let _ = o.flush();
    }
}
