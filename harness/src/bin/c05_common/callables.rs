//! C05, error-recovery families: host callables that call back into the engine with the caller's
//! `State` and RECOVER from a failure - the calling template goes on.  A recovered error path is
//! a path: scope, capture and escape state must be what they were before the call.
//!   attempt(callable, *args)   calls a macro / caller value; its output, or "failed"
//!   attempt_block(name)        renders a block through State::render_block, armed; its output, or "failed"
//!   fail()                     always fails (InvalidOperation)
//!   fail_if_armed()            fails only while attempt_block / attempt_armed runs (so that a block can render in place)
//!   attempt_armed(callable, *args)  like attempt, armed
use std::cell::Cell;

use minijinja::value::{Rest, Value};
use minijinja::{Environment, Error, ErrorKind, State};

thread_local! {
    static ARMED: Cell<u32> = const { Cell::new(0) };
}

struct Arm;
impl Arm {
    fn new() -> Arm {
        ARMED.with(|a| a.set(a.get() + 1));
        Arm
    }
}
impl Drop for Arm {
    fn drop(&mut self) {
        ARMED.with(|a| a.set(a.get().saturating_sub(1)));
    }
}

fn fail() -> Result<Value, Error> {
    Err(Error::new(ErrorKind::InvalidOperation, "boom"))
}

fn fail_if_armed() -> Result<Value, Error> {
    if ARMED.with(|a| a.get()) > 0 {
        Err(Error::new(ErrorKind::InvalidOperation, "armed boom"))
    } else {
        Ok(Value::from(""))
    }
}

fn attempt(state: &mut State, callable: Value, args: Rest<Value>) -> String {
    match callable.call(state, &args.0) {
        Ok(rv) => rv.to_string(),
        Err(_) => "failed".to_string(),
    }
}

fn attempt_armed(state: &mut State, callable: Value, args: Rest<Value>) -> String {
    let _arm = Arm::new();
    match callable.call(state, &args.0) {
        Ok(rv) => rv.to_string(),
        Err(_) => "failed".to_string(),
    }
}

fn attempt_block(state: &mut State, name: String) -> String {
    let _arm = Arm::new();
    match state.render_block(&name) {
        Ok(rv) => rv,
        Err(_) => "failed".to_string(),
    }
}

/// Runs `f` armed (fail_if_armed() fails inside).
#[allow(dead_code)]
pub fn armed<R>(f: impl FnOnce() -> R) -> R {
    let _arm = Arm::new();
    f()
}

#[allow(dead_code)]
pub fn install(env: &mut Environment<'_>) {
    env.add_function("fail", fail);
    env.add_function("fail_if_armed", fail_if_armed);
    env.add_function("attempt", attempt);
    env.add_function("attempt_armed", attempt_armed);
    env.add_function("attempt_block", attempt_block);
}
