//! C05, State-level histories: a render is captured (Template::render_captured) and then the host
//! works with its State - failing and healthy calls in sequence.  JSON lines in / out.
//!
//! Request : {"templates": {name: source}, "main": name, "ctx": json,
//!            "steps": [["lookup", name] | ["exports"] | ["call_macro", name, [args]] | ["call_macro_armed", name, [args]]
//!                      | ["render_block", name] | ["render_block_armed", name]]}
//! Response: {"render": {"ok": output} | {"err": kind}, "steps": [result ..]}
//!            result: lookup -> string | null; exports -> sorted names; calls -> {"ok": s} | {"err": kind}
//! "armed" = the host function fail_if_armed() fails during that call only (c05_common/callables.rs).
use std::io::{BufRead, Write};
use std::panic::{catch_unwind, AssertUnwindSafe};
use std::sync::mpsc;
use std::time::Duration;

use minijinja::value::Value;
use minijinja::Environment;
use serde_json::{json, Value as J};

#[path = "c05_common/callables.rs"]
mod c05_callables;

fn res(r: Result<String, minijinja::Error>) -> J {
    match r {
        Ok(s) => json!({"ok": s}),
        Err(e) => json!({"err": mjverif::err_code(e.kind())}),
    }
}

fn run(req: &J) -> J {
    let mut env = Environment::new();
    minijinja_contrib::add_to_environment(&mut env);
    c05_callables::install(&mut env);
    let empty = serde_json::Map::new();
    let templates = req.get("templates").and_then(|x| x.as_object()).unwrap_or(&empty);
    for (name, src) in templates {
        let _ = env.add_template_owned(name.clone(), src.as_str().unwrap_or("").to_string());
    }
    let main = req.get("main").and_then(|x| x.as_str()).unwrap_or("main");
    let ctxv = Value::from(minijinja::value::Serde(req.get("ctx").cloned().unwrap_or(J::Null)));
    let tmpl = match env.get_template(main) {
        Ok(t) => t,
        Err(e) => return json!({"render": {"err": mjverif::err_code(e.kind())}, "steps": []}),
    };
    let mut captured = match tmpl.render_captured(ctxv) {
        Ok(c) => c,
        Err(e) => return json!({"render": {"err": mjverif::err_code(e.kind())}, "steps": []}),
    };
    let output = captured.output().to_string();
    let mut results = vec![];
    let no_steps = vec![];
    for step in req.get("steps").and_then(|x| x.as_array()).unwrap_or(&no_steps) {
        let op = step.get(0).and_then(|x| x.as_str()).unwrap_or("");
        let name = step.get(1).and_then(|x| x.as_str()).unwrap_or("").to_string();
        let args: Vec<Value> = step
            .get(2)
            .and_then(|x| x.as_array())
            .map(|a| a.iter().map(|v| Value::from(minijinja::value::Serde(v.clone()))).collect())
            .unwrap_or_default();
        results.push(match op {
            "lookup" => match captured.state().lookup(&name) {
                Some(v) => json!(v.to_string()),
                None => J::Null,
            },
            "exports" => {
                let mut e: Vec<String> = captured.state().exports().into_iter().map(|x| x.to_string()).collect();
                e.sort();
                json!(e)
            }
            "call_macro" => res(captured.with_state_mut(|s| s.call_macro(&name, &args))),
            "call_macro_armed" => res(c05_callables::armed(|| captured.with_state_mut(|s| s.call_macro(&name, &args)))),
            "render_block" => res(captured.with_state_mut(|s| s.render_block(&name))),
            "render_block_armed" => res(c05_callables::armed(|| captured.with_state_mut(|s| s.render_block(&name)))),
            _ => json!({"bad_step": op}),
        });
    }
    json!({"render": {"ok": output}, "steps": results})
}

fn main() {
    mjverif::install_quiet_panic_hook();
    let stdin = std::io::stdin();
    let stdout = std::io::stdout();
    let watchdog_ms: u64 = std::env::var("MJVERIF_WATCHDOG_MS").ok().and_then(|x| x.parse().ok()).unwrap_or(10000);
    for line in stdin.lock().lines() {
        let line = match line {
            Ok(l) => l,
            Err(_) => break,
        };
        if line.trim().is_empty() {
            continue;
        }
        let req: J = match serde_json::from_str(&line) {
            Ok(v) => v,
            Err(_) => {
                println!("{}", json!({"bad_request": true}));
                continue;
            }
        };
        let (tx, rx) = mpsc::channel();
        let h = std::thread::Builder::new().stack_size(8 << 20).spawn(move || {
            let r = catch_unwind(AssertUnwindSafe(|| run(&req)));
            let _ = tx.send(match r {
                Ok(v) => v,
                Err(p) => {
                    let msg = p
                        .downcast_ref::<String>()
                        .cloned()
                        .or_else(|| p.downcast_ref::<&str>().map(|s| s.to_string()))
                        .unwrap_or_default();
                    json!({"panic": msg})
                }
            });
        });
        let res = match rx.recv_timeout(Duration::from_millis(watchdog_ms)) {
            Ok(v) => v,
            Err(_) => {
                let mut o = stdout.lock();
                let _ = writeln!(o, "{}", json!({"hang": true}));
                let _ = o.flush();
                std::process::exit(3);
            }
        };
        if let Ok(h) = h {
            let _ = h.join();
        }
        let mut o = stdout.lock();
        let _ = writeln!(o, "{}", res);
        let _ = o.flush();
    }
}
