//! C05, trace part: what the VM holds before every instruction of a render, per activation of
//! `eval_impl` (hook `__verif::set_shape_observer`, cargo feature `hooks`).  JSON lines in / out.
//!
//! Request : {"templates": {name: source}, "main": name, "ctx": json, "c05_callables": bool (see c05_common/callables.rs)}
//! Response: {"hook": false}                                   the tree under test has no shape observer
//!           {"hook": true, "render": {"ok": s} | {"err": kind}, "truncated": bool,
//!            "streams": [[instruction json ..] ..],            every instruction stream that was executed, dumped from
//!                                                              the very `Instructions` the VM ran (not a recompilation)
//!            "acts": [[[stream index, [[pc, stack, frames, captures, auto_escapes] ..]] ..] ..]}
//!                                                              per activation (in order of first instruction): its
//!                                                              segments (an activation changes stream when an
//!                                                              `extends` hands over to the parent template)
//!            "born": [null | [activation, stream index, pc, stack, frames, captures, auto_escapes] ..]}
//!                                                              per activation: the observation that preceded its first
//!                                                              one, i.e. the instruction of the parent activation that
//!                                                              started it (null: the render's own activation)
//!            "after": [null | [pc, stack, frames, captures, auto_escapes] ..]}
//!                                                              per activation: the first observation of its parent
//!                                                              after it ended, i.e. the state the call returned to
//!                                                              (null: the parent never ran again)
//! Each request runs on a fresh thread under catch_unwind with a watchdog, like `prog`.
use std::cell::RefCell;
use std::collections::HashMap;
use std::io::{BufRead, Write};
use std::panic::{catch_unwind, AssertUnwindSafe};
use std::rc::Rc;
use std::sync::mpsc;
use std::time::Duration;

use minijinja::machinery::Instructions;
use minijinja::value::Value;
use minijinja::Environment;
use serde_json::{json, Value as J};

#[path = "c05_common/callables.rs"]
mod c05_callables;

type Observer = Box<dyn for<'a, 'b> FnMut(&'a Instructions<'b>, usize, u32, usize, usize, usize, usize)>;

/// Fallback found by name resolution when `minijinja::__verif` (glob-imported in the blocks below) does not
/// provide `set_shape_observer`: the bin then still builds and answers {"hook": false}.
struct Missing;
#[allow(dead_code)]
fn set_shape_observer(_h: Option<Observer>) -> Missing {
    Missing
}
trait Avail {
    fn avail(&self) -> bool;
}
impl Avail for () {
    fn avail(&self) -> bool {
        true
    }
}
impl Avail for Missing {
    fn avail(&self) -> bool {
        false
    }
}

const MAX_OBS: usize = 40_000;

#[derive(Default)]
struct Rec {
    by_addr: HashMap<usize, usize>,
    streams: Vec<Vec<J>>,
    act_index: HashMap<usize, usize>,
    acts: Vec<Vec<(usize, Vec<[usize; 5]>)>>,
    born: Vec<Option<[usize; 7]>>,
    after: Vec<Option<[usize; 5]>>,
    last: Option<[usize; 7]>,
    total: usize,
    truncated: bool,
}

fn dump(ins: &Instructions<'_>) -> Vec<J> {
    let mut v = vec![];
    let mut i = 0;
    while let Some(x) = ins.get(i) {
        v.push(serde_json::to_value(x).unwrap_or_else(|e| {
            json!({"op": format!("{:?}", x).split(|c: char| !c.is_alphanumeric()).next().unwrap_or("").to_string(),
                   "arg": J::Null, "unserializable": e.to_string()})
        }));
        i += 1;
    }
    v
}

fn run(req: &J) -> J {
    let mut env = Environment::new();
    minijinja_contrib::add_to_environment(&mut env);
    if req.get("c05_callables").and_then(|x| x.as_bool()).unwrap_or(false) {
        c05_callables::install(&mut env);
    }
    let empty = serde_json::Map::new();
    let templates = req.get("templates").and_then(|x| x.as_object()).unwrap_or(&empty);
    for (name, src) in templates {
        let _ = env.add_template_owned(name.clone(), src.as_str().unwrap_or("").to_string());
    }
    let main = req.get("main").and_then(|x| x.as_str()).unwrap_or("main");
    let ctxv = Value::from(minijinja::value::Serde(req.get("ctx").cloned().unwrap_or(J::Null)));
    let tmpl = match env.get_template(main) {
        Ok(t) => t,
        Err(e) => return json!({"hook": true, "render": {"err": mjverif::err_code(e.kind())}, "streams": [], "acts": [], "born": [], "after": [], "truncated": false}),
    };
    let rec: Rc<RefCell<Rec>> = Rc::new(RefCell::new(Rec::default()));
    let r2 = rec.clone();
    let obs: Observer = Box::new(move |ins, act, pc, stk, frames, caps, aes| {
        let mut r = r2.borrow_mut();
        if r.total >= MAX_OBS {
            r.truncated = true;
            return;
        }
        r.total += 1;
        // every stream of a render belongs to a template the environment keeps alive until the
        // render is over: an address identifies a stream for the duration of one request
        let key = ins as *const Instructions<'_> as usize;
        let si = match r.by_addr.get(&key) {
            Some(&i) => i,
            None => {
                let i = r.streams.len();
                r.streams.push(dump(ins));
                r.by_addr.insert(key, i);
                i
            }
        };
        let ai = match r.act_index.get(&act) {
            Some(&i) => i,
            None => {
                let i = r.acts.len();
                r.acts.push(vec![]);
                r.act_index.insert(act, i);
                let b = r.last;
                r.born.push(b);
                r.after.push(None);
                i
            }
        };
        // the activation observed last (and what it was nested in) has ended when an older activation runs
        // again: this observation is what the child of `ai` on that chain returned to
        if let Some(l) = r.last {
            if l[0] != ai && ai + 1 < r.acts.len() && l[0] > ai {
                let mut c = l[0];
                loop {
                    match r.born[c] {
                        Some(b) if b[0] == ai => {
                            if r.after[c].is_none() {
                                r.after[c] = Some([pc as usize, stk, frames, caps, aes]);
                            }
                            break;
                        }
                        Some(b) if b[0] < c => c = b[0],
                        _ => break,
                    }
                }
            }
        }
        let segs = &mut r.acts[ai];
        if segs.last().map(|s| s.0) != Some(si) {
            segs.push((si, vec![]));
        }
        segs.last_mut().unwrap().1.push([pc as usize, stk, frames, caps, aes]);
        r.last = Some([ai, si, pc as usize, stk, frames, caps, aes]);
    });
    let avail = {
        #[cfg(feature = "hooks")]
        #[allow(unused_imports)]
        use minijinja::__verif::*;
        set_shape_observer(Some(obs)).avail()
    };
    if !avail {
        return json!({"hook": false});
    }
    let r = tmpl.render(ctxv);
    {
        #[cfg(feature = "hooks")]
        #[allow(unused_imports)]
        use minijinja::__verif::*;
        let _ = set_shape_observer(None).avail();
    }
    let render = match r {
        Ok(s) => json!({"ok": s}),
        Err(e) => json!({"err": mjverif::err_code(e.kind())}),
    };
    let rec = rec.borrow();
    let acts: Vec<J> = rec
        .acts
        .iter()
        .map(|segs| J::Array(segs.iter().map(|(si, obs)| json!([si, obs])).collect()))
        .collect();
    json!({"hook": true, "render": render, "streams": rec.streams, "acts": acts, "born": rec.born, "after": rec.after, "truncated": rec.truncated})
}

fn main() {
    mjverif::install_quiet_panic_hook();
    let stdin = std::io::stdin();
    let stdout = std::io::stdout();
    let watchdog_ms: u64 = std::env::var("MJVERIF_WATCHDOG_MS").ok().and_then(|x| x.parse().ok()).unwrap_or(10000);
    for line in stdin.lock().lines() {
        let line = match line {
            Ok(l) => l,
            Err(_) => break,
        };
        if line.trim().is_empty() {
            continue;
        }
        let req: J = match serde_json::from_str(&line) {
            Ok(v) => v,
            Err(_) => {
                println!("{}", json!({"bad_request": true}));
                continue;
            }
        };
        let (tx, rx) = mpsc::channel();
        let h = std::thread::Builder::new().stack_size(8 << 20).spawn(move || {
            let r = catch_unwind(AssertUnwindSafe(|| run(&req)));
            let _ = tx.send(match r {
                Ok(v) => v,
                Err(p) => {
                    let msg = p
                        .downcast_ref::<String>()
                        .cloned()
                        .or_else(|| p.downcast_ref::<&str>().map(|s| s.to_string()))
                        .unwrap_or_default();
                    json!({"panic": msg})
                }
            });
        });
        let res = match rx.recv_timeout(Duration::from_millis(watchdog_ms)) {
            Ok(v) => v,
            Err(_) => {
                let mut o = stdout.lock();
                let _ = writeln!(o, "{}", json!({"hang": true}));
                let _ = o.flush();
                std::process::exit(3);
            }
        };
        if let Ok(h) = h {
            let _ = h.join();
        }
        let mut o = stdout.lock();
        let _ = writeln!(o, "{}", res);
        let _ = o.flush();
    }
}
