//! C07: value order / equality / hash laws and the collection filters.
//!
//! Value description (prefix form, all integers):
//!   0                      undefined
//!   1                      none
//!   2 b                    bool
//!   3 w z                  integer z stored as w: 0 i64, 1 u64, 2 i128, 3 u128
//!   4 bits                 f64 by bit pattern
//!   5 f n c1..cn           string (code points); f: 0 plain via &str (inline SmallStr up to 22 bytes, else heap), 1 safe (heap),
//!                          2 heap Arc<str> whatever the length, 3 produced at run time (`x ~ ''`)
//!   6 n b1..bn             bytes
//!   7 n v1..vn             list
//!   8 n v1..vn             tuple
//!   9 s n v1..vn           lazy iterable; s: 1 sized (exact size hint), 0 unsized, 2 a LinkedList (Enumerator::RevIter)
//!   10 n k1 v1 .. kn vn    map built by the engine (`{k1: v1, ..}`), pairs inserted in this order
//!   11 n c1..cn            plain object that renders as the given string
//!   12 n c1..cn            invalid value: Value::from(Error::new(InvalidOperation, detail)); encoded as a bare 12 in results
//!
//! Mode 0 (pair):   0 <a> <b>
//!   -> eq cmp hash_eq t_lt t_eq t_in t_key      cmp: 0 Less 1 Equal 2 Greater; template answers: 0/1 or 100+err
//! Mode 1 (filter): 1 fid rev cs count attr_tag [n cps] fill_tag [<v>] <container>
//!   fid: 0 sort 1 unique 2 groupby 3 batch 4 slice 5 reverse 6 min 7 max 8 reverse|reverse 9 last
//!        10 dictsort (count != 0: by="value") 11 items 12 map(attribute=attr[, default=fill]) 13 select 14 reject 15 sum
//!        16 join(attr as the joiner); rev/cs: 0 false 1 true 2 unset
//!   -> 0 <canonical value> | 1 errcode | 2 (panic)
//! Mode 2 (containment): 2 <container> <needle>
//!   -> [v in c, v not in c, v is in(c), v in (c|list), c[v] is defined (maps only, else 9)]   0/1 or 100+err
//! Mode 3 (chains): 3 <a> <b> <c> haslit [str la] [str lb] [str lc] -> answers of the CHAINS templates over variables, then over literals
//! Mode 4 (aliasing): 4 <x> <a> <b> -> as mode 0; description tag 14 inside a and b is a clone of the one value x
//! Mode 5 (repeatable enumeration): 5 opid <x> -> 1 err | 0 then for each of OBSERVATIONS over the one result r: 0 <value> | 1 err
//! Canonical value = description with integer width 0 and iterable sizedness 0; strings report the safe flag.
use std::collections::hash_map::DefaultHasher;
use std::fmt;
use std::hash::{Hash, Hasher};
use std::sync::Arc;

use minijinja::value::{Object, ObjectRepr, Tuple, Value, ValueKind};
use minijinja::Environment;
use mjverif::*;

#[derive(Debug)]
struct PlainObj(String);

impl Object for PlainObj {
    fn repr(self: &Arc<Self>) -> ObjectRepr {
        ObjectRepr::Plain
    }
    fn render(self: &Arc<Self>, f: &mut fmt::Formatter<'_>) -> fmt::Result {
        f.write_str(&self.0)
    }
}

fn int_value(w: i64, s: &str) -> Value {
    match w {
        0 => Value::from(s.parse::<i64>().unwrap_or(0)),
        1 => Value::from(s.parse::<u64>().unwrap_or(0)),
        2 => Value::from(s.parse::<i128>().unwrap_or(0)),
        _ => Value::from(s.parse::<u128>().unwrap_or(0)),
    }
}

thread_local! {
    // the value that description tag 14 refers to (mode 4: one object aliased inside both operands)
    static SHARED: std::cell::RefCell<Option<Value>> = const { std::cell::RefCell::new(None) };
}

fn items(env: &Environment, c: &mut Cur) -> Vec<Value> {
    let n = c.usize();
    (0..n).map(|_| value(env, c)).collect()
}

fn value(env: &Environment, c: &mut Cur) -> Value {
    match c.i64() {
        0 => Value::UNDEFINED,
        1 => Value::from(()),
        2 => Value::from(c.i64() != 0),
        3 => {
            let w = c.i64();
            let z = c.big();
            int_value(w, &z)
        }
        4 => Value::from(f64::from_bits(c.tok().parse::<u64>().unwrap_or(0))),
        5 => {
            let f = c.i64();
            let s = c.str();
            match f {
                1 => Value::from_safe_string(s),
                2 => Value::from(Arc::<str>::from(s)),
                3 => {
                    // produced at run time by the engine itself (string concatenation)
                    let ctx: Value = [("x", Value::from(s))].into_iter().collect::<std::collections::BTreeMap<&str, Value>>().into();
                    env.compile_expression("x ~ ''").and_then(|e| e.eval(ctx)).unwrap_or(Value::UNDEFINED)
                }
                _ => Value::from(s),
            }
        }
        6 => {
            let n = c.usize();
            Value::from_bytes((0..n).map(|_| c.i64() as u8).collect())
        }
        7 => Value::from(items(env, c)),
        8 => Value::from(Tuple::new(items(env, c))),
        9 => {
            let sized = c.i64();
            let v = items(env, c);
            if sized == 2 {
                Value::from(v.into_iter().collect::<std::collections::LinkedList<Value>>())
            } else if sized == 1 {
                Value::make_iterable(move || v.clone().into_iter())
            } else {
                Value::make_iterable(move || v.clone().into_iter().filter(|_| true))
            }
        }
        10 => {
            let n = c.usize();
            let mut src = String::from("{");
            let mut ctx: Vec<(String, Value)> = vec![];
            for i in 0..n {
                let k = value(env, c);
                let v = value(env, c);
                if i > 0 {
                    src.push_str(", ");
                }
                src.push_str(&format!("k{i}: v{i}"));
                ctx.push((format!("k{i}"), k));
                ctx.push((format!("v{i}"), v));
            }
            src.push('}');
            let ctx: Value = ctx.into_iter().collect::<std::collections::BTreeMap<String, Value>>().into();
            env.compile_expression(&src).and_then(|e| e.eval(ctx)).unwrap_or(Value::UNDEFINED)
        }
        11 => Value::from_object(PlainObj(c.str())),
        14 => SHARED.with(|s| s.borrow().clone()).unwrap_or(Value::UNDEFINED),
        _ => Value::from(minijinja::Error::new(minijinja::ErrorKind::InvalidOperation, c.str())),
    }
}

fn enc(v: &Value, out: &mut Vec<String>) {
    match v.kind() {
        ValueKind::Undefined => out.push("0".into()),
        ValueKind::None => out.push("1".into()),
        ValueKind::Bool => {
            out.push("2".into());
            out.push(if v.is_true() { "1" } else { "0" }.into());
        }
        ValueKind::Number => {
            if v.is_integer() {
                out.push("3".into());
                out.push("0".into());
                out.push(v.to_string());
            } else {
                out.push("4".into());
                out.push(f64::try_from(v.clone()).map(|f| f.to_bits()).unwrap_or(0).to_string());
            }
        }
        ValueKind::String => {
            out.push("5".into());
            out.push(if v.is_safe() { "1" } else { "0" }.into());
            push_str(out, v.as_str().unwrap_or(""));
        }
        ValueKind::Bytes => {
            let b = v.as_bytes().unwrap_or(&[]);
            out.push("6".into());
            out.push(b.len().to_string());
            out.extend(b.iter().map(|x| x.to_string()));
        }
        ValueKind::Seq | ValueKind::Iterable => {
            if v.kind() == ValueKind::Iterable {
                out.push("9".into());
                out.push("0".into());
            } else if v.is_tuple() {
                out.push("8".into());
            } else {
                out.push("7".into());
            }
            let its: Vec<Value> = v.try_iter().map(|i| i.collect()).unwrap_or_default();
            out.push(its.len().to_string());
            for it in &its {
                enc(it, out);
            }
        }
        ValueKind::Map => {
            let keys: Vec<Value> = v.try_iter().map(|i| i.collect()).unwrap_or_default();
            out.push("10".into());
            out.push(keys.len().to_string());
            for k in &keys {
                enc(k, out);
                enc(&v.get_item(k).unwrap_or(Value::UNDEFINED), out);
            }
        }
        ValueKind::Plain => {
            out.push("11".into());
            push_str(out, &v.to_string());
        }
        _ => out.push("12".into()),
    }
}

fn hash_of(v: &Value) -> u64 {
    let mut h = DefaultHasher::new();
    v.hash(&mut h);
    h.finish()
}

fn tmpl_bool(env: &Environment, src: &str, a: &Value, b: &Value) -> String {
    let ctx: Value = [("a", a.clone()), ("b", b.clone())]
        .into_iter()
        .collect::<std::collections::BTreeMap<&str, Value>>()
        .into();
    match env.compile_expression(src).and_then(|e| e.eval(ctx)) {
        Ok(v) => if v.is_true() { "1" } else { "0" }.into(),
        Err(e) => (100 + err_code(e.kind())).to_string(),
    }
}

fn tri(b: Option<bool>, name: &str, args: &mut Vec<String>) {
    if let Some(b) = b {
        args.push(format!("{name}={}", if b { "true" } else { "false" }));
    }
}

fn opt_flag(x: i64) -> Option<bool> {
    match x {
        0 => Some(false),
        1 => Some(true),
        _ => None,
    }
}

/// the chains of mode 3 (A, B, C are replaced by variable names or literals); keep in step with Runner.v::chains
const CHAINS: &[&str] = &[
    "A in B", "A not in B", "A not in B != C", "A in B != C", "A in B == C", "A not in B == C",
    "C != A not in B", "C == A in B", "A < C in B", "A <= C not in B",
    "A == C", "A != C", "A < C", "A <= C", "A > C", "A >= C",
    "A < C < A", "A <= C <= A", "A == C == A", "A != C != A", "A < C != A", "A >= C > A",
];

/// what mode 5 asks of the one result value r, in this order
const OBSERVATIONS: &[&str] = &["r|list", "r|list", "r|length", "r|list", "r|reverse|list", "r|list"];

fn main() {
    let env = Environment::new();
    serve(2, |c| {
        let mode = c.i64();
        let mut out: Vec<String> = vec![];
        if mode == 0 {
            let a = value(&env, c);
            let b = value(&env, c);
            out.push(if a == b { "1" } else { "0" }.into());
            out.push(match a.cmp(&b) {
                std::cmp::Ordering::Less => "0",
                std::cmp::Ordering::Equal => "1",
                std::cmp::Ordering::Greater => "2",
            }
            .into());
            out.push(if hash_of(&a) == hash_of(&b) { "1" } else { "0" }.into());
            out.push(tmpl_bool(&env, "a < b", &a, &b));
            out.push(tmpl_bool(&env, "a == b", &a, &b));
            out.push(tmpl_bool(&env, "a in [b]", &a, &b));
            out.push(tmpl_bool(&env, "{b: 1}[a] is defined", &a, &b));
        } else if mode == 4 {
            // aliasing: 4 <x> <a> <b> -- like mode 0, but tag 14 inside a and b is a clone of the ONE value x (same object)
            let x = value(&env, c);
            SHARED.with(|s| *s.borrow_mut() = Some(x));
            let a = value(&env, c);
            let b = value(&env, c);
            SHARED.with(|s| *s.borrow_mut() = None);
            out.push(if a == b { "1" } else { "0" }.into());
            out.push(match a.cmp(&b) {
                std::cmp::Ordering::Less => "0",
                std::cmp::Ordering::Equal => "1",
                std::cmp::Ordering::Greater => "2",
            }
            .into());
            out.push(if hash_of(&a) == hash_of(&b) { "1" } else { "0" }.into());
            out.push(tmpl_bool(&env, "a < b", &a, &b));
            out.push(tmpl_bool(&env, "a == b", &a, &b));
            out.push(tmpl_bool(&env, "a in [b]", &a, &b));
            out.push(tmpl_bool(&env, "{b: 1}[a] is defined", &a, &b));
        } else if mode == 5 {
            // repeatable enumeration: 5 opid <x> -- r = OP(x) is computed once, then observed several times
            let opid = c.i64();
            let x = value(&env, c);
            let src = match opid {
                0 => "x|reverse",
                1 => "x|items",
                2 => "x|dictsort",
                3 => "x|slice(2)",
                4 => "x|batch(2)",
                5 => "x|map(attribute='a', default=none)",
                6 => "x|select",
                7 => "x|reject",
                8 => "x|sort",
                9 => "x|unique",
                10 => "x|list",
                11 => "x|reverse|reverse",
                12 => "x",
                100 => "x|chain(x)",
                101 => "x|zip(x)",
                _ => "range(3)",
            };
            let ctx: Value = [("x", x)].into_iter().collect::<std::collections::BTreeMap<&str, Value>>().into();
            match env.compile_expression(src).and_then(|e| e.eval(ctx)) {
                Err(e) => {
                    out.push("1".into());
                    out.push(err_code(e.kind()).to_string());
                }
                Ok(r) => {
                    out.push("0".into());
                    let rctx: Value = [("r", r)].into_iter().collect::<std::collections::BTreeMap<&str, Value>>().into();
                    for obs in OBSERVATIONS {
                        match env.compile_expression(obs).and_then(|e| e.eval(rctx.clone())) {
                            Ok(v) => {
                                out.push("0".into());
                                enc(&v, &mut out);
                            }
                            Err(e) => {
                                out.push("1".into());
                                out.push(err_code(e.kind()).to_string());
                            }
                        }
                    }
                }
            }
        } else if mode == 3 {
            // comparison / containment chains: 3 <a> <b> <c> haslit [str la] [str lb] [str lc]
            // -> the answers of CHAINS with the operands as context variables, then (haslit = 1) with the operands
            //    spelled as literals (these are constant-folded at compile time)
            let a = value(&env, c);
            let b = value(&env, c);
            let cc = value(&env, c);
            let haslit = c.i64() != 0;
            let lits = if haslit { Some([c.str(), c.str(), c.str()]) } else { None };
            let ctx: Value = [("a", a), ("b", b), ("c", cc)]
                .into_iter()
                .collect::<std::collections::BTreeMap<&str, Value>>()
                .into();
            let mut run = |names: [&str; 3]| {
                for t in CHAINS {
                    let src = t.replace('A', names[0]).replace('B', names[1]).replace('C', names[2]);
                    out.push(match env.compile_expression(&src).and_then(|e| e.eval(ctx.clone())) {
                        Ok(v) => if v.is_true() { "1" } else { "0" }.into(),
                        Err(e) => (100 + err_code(e.kind())).to_string(),
                    });
                }
            };
            run(["a", "b", "c"]);
            if let Some(l) = &lits {
                run([l[0].as_str(), l[1].as_str(), l[2].as_str()]);
            }
        } else if mode == 2 {
            // containment: 2 <container> <needle> -> [v in c, v not in c, v is in(c), v in (c|list), c[v] is defined (maps only, else 9)]
            let cont = value(&env, c);
            let needle = value(&env, c);
            let is_map = cont.kind() == ValueKind::Map;
            let ctx: Value = [("a", needle), ("b", cont)]
                .into_iter()
                .collect::<std::collections::BTreeMap<&str, Value>>()
                .into();
            for src in ["a in b", "a not in b", "a is in(b)", "a in (b|list)", "b[a] is defined"] {
                if src.starts_with("b[") && !is_map {
                    out.push("9".into());
                    continue;
                }
                out.push(match env.compile_expression(src).and_then(|e| e.eval(ctx.clone())) {
                    Ok(v) => if v.is_true() { "1" } else { "0" }.into(),
                    Err(e) => (100 + err_code(e.kind())).to_string(),
                });
            }
        } else {
            let fid = c.i64();
            let rev = opt_flag(c.i64());
            let cs = opt_flag(c.i64());
            let count = c.big();
            let attr = if c.i64() != 0 { Some(c.str()) } else { None };
            let fill = if c.i64() != 0 { Some(value(&env, c)) } else { None };
            let x = value(&env, c);
            let mut args: Vec<String> = vec![];
            let name = match fid {
                0 => {
                    tri(rev, "reverse", &mut args);
                    tri(cs, "case_sensitive", &mut args);
                    if attr.is_some() {
                        args.push("attribute=at".into());
                    }
                    "sort"
                }
                1 => {
                    tri(cs, "case_sensitive", &mut args);
                    if attr.is_some() {
                        args.push("attribute=at".into());
                    }
                    "unique"
                }
                2 => {
                    args.push("at".into());
                    tri(cs, "case_sensitive", &mut args);
                    if fill.is_some() {
                        args.push("default=fill".into());
                    }
                    "groupby"
                }
                3 | 4 => {
                    args.push(count.clone());
                    if fill.is_some() {
                        args.push("fill".into());
                    }
                    if fid == 3 {
                        "batch"
                    } else {
                        "slice"
                    }
                }
                5 => "reverse",
                6 => "min",
                7 => "max",
                9 => "last",
                10 => {
                    if count != "0" {
                        args.push("by=\"value\"".into());
                    }
                    tri(cs, "case_sensitive", &mut args);
                    tri(rev, "reverse", &mut args);
                    "dictsort"
                }
                11 => "items",
                12 => {
                    args.push("attribute=at".into());
                    if fill.is_some() {
                        args.push("default=fill".into());
                    }
                    "map"
                }
                13 => "select",
                14 => "reject",
                15 => "sum",
                16 => {
                    if attr.is_some() {
                        args.push("at".into());
                    }
                    "join"
                }
                _ => "reverse|reverse",
            };
            let src = if args.is_empty() {
                format!("x|{name}")
            } else {
                format!("x|{name}({})", args.join(", "))
            };
            let ctx: Value = [
                ("x", x),
                ("at", attr.map(Value::from).unwrap_or(Value::UNDEFINED)),
                ("fill", fill.unwrap_or(Value::UNDEFINED)),
            ]
            .into_iter()
            .collect::<std::collections::BTreeMap<&str, Value>>()
            .into();
            match env.compile_expression(&src).and_then(|e| e.eval(ctx)) {
                Ok(v) => {
                    out.push("0".into());
                    enc(&v, &mut out);
                }
                Err(e) => {
                    out.push("1".into());
                    out.push(err_code(e.kind()).to_string());
                }
            }
        }
        out
    });
}
