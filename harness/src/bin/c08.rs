//! C08: numeric operators.  Input: `op fa a fb b`
//!   op: 0 `+`  1 `-`  2 `*`  3 `//`  4 `%`  5 `**`  6 unary `-` (b ignored)  7 comparison (`<`, `==`, `>`)
//!   form f: 0 integer literal in the expression text, 1 i64 value, 2 u64 value, 3 i128 value,
//!           4 u128 value, 5 f64 value given by its bit pattern, 6 float literal in the text
//!           (bit pattern; finite only)
//! Output: `0 z` integer result, `4 bits` float result (NaN canonicalised), `1 code` error,
//!         `2` panic, `5 lt eq gt` comparison, `9` case not expressible / unexpected result kind.
use minijinja::value::{Value, ValueKind};
use minijinja::{context, Environment};
use mjverif::*;

const CANON_NAN: u64 = 0x7ff8_0000_0000_0000;

/// operand as (text in the expression, value bound to the variable)
fn operand(form: i64, s: &str, name: &str) -> Option<(String, Value)> {
    let none = Value::from(());
    Some(match form {
        0 => {
            // a negative literal is the unary minus applied to the literal of its magnitude
            let txt = if let Some(m) = s.strip_prefix('-') {
                format!("-{}", m)
            } else {
                s.to_string()
            };
            (txt, none)
        }
        1 => (name.to_string(), Value::from(s.parse::<i64>().ok()?)),
        2 => (name.to_string(), Value::from(s.parse::<u64>().ok()?)),
        3 => (name.to_string(), Value::from(s.parse::<i128>().ok()?)),
        4 => (name.to_string(), Value::from(s.parse::<u128>().ok()?)),
        5 => (name.to_string(), Value::from(f64::from_bits(s.parse::<u64>().ok()?))),
        6 => {
            let f = f64::from_bits(s.parse::<u64>().ok()?);
            if !f.is_finite() {
                return None;
            }
            // `{:?}` prints the shortest decimal that parses back to the same f64
            let mut txt = format!("{:?}", f.abs());
            if f.is_sign_negative() {
                txt = format!("-{}", txt);
            }
            (txt, none)
        }
        _ => return None,
    })
}

fn enc(v: &Value, out: &mut Vec<String>) {
    if v.kind() != ValueKind::Number {
        out.push("9".into());
    } else if v.is_integer() {
        out.push("0".into());
        out.push(v.to_string());
    } else if let Ok(f) = f64::try_from(v.clone()) {
        out.push("4".into());
        out.push(if f.is_nan() { CANON_NAN } else { f.to_bits() }.to_string());
    } else {
        out.push("9".into());
    }
}

fn main() {
    let env = Environment::new();
    serve(2, |c| {
        let op = c.i64();
        let fa = c.i64();
        let a = c.big();
        let fb = c.i64();
        let b = c.big();
        let (ta, va) = match operand(fa, &a, "a") {
            Some(x) => x,
            None => return vec!["9".into()],
        };
        let (tb, vb) = if op == 6 {
            (String::new(), Value::from(()))
        } else {
            match operand(fb, &b, "b") {
                Some(x) => x,
                None => return vec!["9".into()],
            }
        };
        let ctx = context! { a => va, b => vb };
        let eval = |src: &str| env.compile_expression(src).and_then(|e| e.eval(ctx.clone()));
        let mut out = vec![];
        if op == 7 {
            out.push("5".into());
            for o in ["<", "==", ">"] {
                match eval(&format!("{} {} {}", ta, o, tb)) {
                    Ok(v) if v.kind() == ValueKind::Bool => out.push(if v.is_true() { "1" } else { "0" }.into()),
                    Ok(_) => out.push("9".into()),
                    Err(e) => out.push((100 + err_code(e.kind())).to_string()),
                }
            }
            return out;
        }
        let src = match op {
            0 => format!("{} + {}", ta, tb),
            1 => format!("{} - {}", ta, tb),
            2 => format!("{} * {}", ta, tb),
            3 => format!("{} // {}", ta, tb),
            4 => format!("{} % {}", ta, tb),
            5 => format!("{} ** {}", ta, tb),
            6 => format!("-{}", if ta.starts_with('-') { format!("({})", ta) } else { ta }),
            _ => return vec!["9".into()],
        };
        match eval(&src) {
            Ok(v) => enc(&v, &mut out),
            Err(e) => {
                out.push("1".into());
                out.push(err_code(e.kind()).to_string());
            }
        }
        out
    });
}
