//! C08: numeric operators.  Input: `op fa a fb b`
//!   op: 0 `+`  1 `-`  2 `*`  3 `//`  4 `%`  5 `**`  6 unary `-` (b ignored)  7 comparison (`<`, `==`, `>`)
//!   form f: 0 integer literal in the expression text, 1 i64 value, 2 u64 value, 3 i128 value,
//!           4 u128 value, 5 f64 value given by its bit pattern, 6 float literal in the text
//!           (bit pattern; finite only)
//!           100*route + type: the integer supplied by another route, at every Rust width.
//!             type  0 i8 1 i16 2 i32 3 i64 4 i128 5 isize 6 u8 7 u16 8 u32 9 u64 10 u128 11 usize
//!             route 1 Value::from(x)            2 Value::from(Serde(x)) (the serde serializer)
//!                   3 field of a serialized struct (`a.v`)   4 element of a serialized Vec (`a[0]`)
//!                   5 value of a serialized map (`a.k`)      6 round trip Value::from(x) -> T::deserialize -> Serde(t)
//!                   7 Serde(Some(x))
//!   literal family: `20 op pos fb b n c1..cn` (see main): an operand given by the source text of an integer literal
//! Output: `0 z` integer result, `4 bits` float result (NaN canonicalised), `1 code` error,
//!         `2` panic, `5 lt eq gt` comparison, `9` case not expressible / unexpected result kind.
use minijinja::value::{Serde, Value, ValueKind};
use std::collections::BTreeMap;
use minijinja::{context, Environment};
use mjverif::*;

const CANON_NAN: u64 = 0x7ff8_0000_0000_0000;

#[derive(serde::Serialize)]
struct Holder<T> {
    pad: &'static str,
    v: T,
}

/// the integer `s` of Rust type `$t` delivered through `route`
macro_rules! by_route {
    ($t:ty, $route:expr, $s:expr, $name:expr) => {{
        let x: $t = $s.parse().ok()?;
        match $route {
            1 => ($name.to_string(), Value::from(x)),
            2 => ($name.to_string(), Value::from(Serde(x))),
            3 => (format!("{}.v", $name), Value::from(Serde(Holder { pad: "p", v: x }))),
            4 => (format!("{}[0]", $name), Value::from(Serde(vec![x]))),
            5 => (format!("{}.k", $name), Value::from(Serde(BTreeMap::from([("k", x)])))),
            6 => {
                let t: $t = <$t as serde::Deserialize>::deserialize(Value::from(x)).ok()?;
                ($name.to_string(), Value::from(Serde(t)))
            }
            7 => ($name.to_string(), Value::from(Serde(Some(x)))),
            _ => return None,
        }
    }};
}

fn routed(form: i64, s: &str, name: &str) -> Option<(String, Value)> {
    let route = form / 100;
    Some(match form % 100 {
        0 => by_route!(i8, route, s, name),
        1 => by_route!(i16, route, s, name),
        2 => by_route!(i32, route, s, name),
        3 => by_route!(i64, route, s, name),
        4 => by_route!(i128, route, s, name),
        5 => by_route!(isize, route, s, name),
        6 => by_route!(u8, route, s, name),
        7 => by_route!(u16, route, s, name),
        8 => by_route!(u32, route, s, name),
        9 => by_route!(u64, route, s, name),
        10 => by_route!(u128, route, s, name),
        11 => by_route!(usize, route, s, name),
        _ => return None,
    })
}

/// operand as (text in the expression, value bound to the variable)
fn operand(form: i64, s: &str, name: &str) -> Option<(String, Value)> {
    if form >= 100 {
        return routed(form, s, name);
    }
    let none = Value::from(());
    Some(match form {
        0 => {
            // a negative literal is the unary minus applied to the literal of its magnitude
            let txt = if let Some(m) = s.strip_prefix('-') {
                format!("-{}", m)
            } else {
                s.to_string()
            };
            (txt, none)
        }
        1 => (name.to_string(), Value::from(s.parse::<i64>().ok()?)),
        2 => (name.to_string(), Value::from(s.parse::<u64>().ok()?)),
        3 => (name.to_string(), Value::from(s.parse::<i128>().ok()?)),
        4 => (name.to_string(), Value::from(s.parse::<u128>().ok()?)),
        5 => (name.to_string(), Value::from(f64::from_bits(s.parse::<u64>().ok()?))),
        6 => {
            let f = f64::from_bits(s.parse::<u64>().ok()?);
            if !f.is_finite() {
                return None;
            }
            // `{:?}` prints the shortest decimal that parses back to the same f64
            let mut txt = format!("{:?}", f.abs());
            if f.is_sign_negative() {
                txt = format!("-{}", txt);
            }
            (txt, none)
        }
        _ => return None,
    })
}

fn enc(v: &Value, out: &mut Vec<String>) {
    if v.kind() != ValueKind::Number {
        out.push("9".into());
    } else if v.is_integer() {
        out.push("0".into());
        out.push(v.to_string());
    } else if let Ok(f) = f64::try_from(v.clone()) {
        out.push("4".into());
        out.push(if f.is_nan() { CANON_NAN } else { f.to_bits() }.to_string());
    } else {
        out.push("9".into());
    }
}

fn main() {
    let env = Environment::new();
    serve(2, |c| {
        let mut op = c.i64();
        let (ta, va, tb, vb);
        if op == 20 {
            // literal family: `20 op pos fb b n c1..cn` - one operand is an integer literal given by its source
            // text (radix prefix, `_` separators, any width), on the left (pos 0) or on the right (pos 1);
            // op 8 evaluates the literal alone
            op = c.i64();
            let pos = c.i64();
            let fb = c.i64();
            let b = c.big();
            let text = c.str();
            let other = if op == 6 || op == 8 {
                (String::new(), Value::from(()))
            } else {
                match operand(fb, &b, "b") {
                    Some(x) => x,
                    None => return vec!["9".into()],
                }
            };
            if pos == 0 {
                (ta, va, tb, vb) = (text, Value::from(()), other.0, other.1);
            } else {
                // the variable is still called `b` in the text
                (ta, vb, tb, va) = (other.0, other.1, text, Value::from(()));
            }
        } else {
            let fa = c.i64();
            let a = c.big();
            let fb = c.i64();
            let b = c.big();
            (ta, va) = match operand(fa, &a, "a") {
                Some(x) => x,
                None => return vec!["9".into()],
            };
            (tb, vb) = if op == 6 {
                (String::new(), Value::from(()))
            } else {
                match operand(fb, &b, "b") {
                    Some(x) => x,
                    None => return vec!["9".into()],
                }
            };
        }
        let ctx = context! { a => va, b => vb };
        let eval = |src: &str| env.compile_expression(src).and_then(|e| e.eval(ctx.clone()));
        let mut out = vec![];
        if op == 7 {
            out.push("5".into());
            for o in ["<", "==", ">"] {
                match eval(&format!("{} {} {}", ta, o, tb)) {
                    Ok(v) if v.kind() == ValueKind::Bool => out.push(if v.is_true() { "1" } else { "0" }.into()),
                    Ok(_) => out.push("9".into()),
                    Err(e) => out.push((100 + err_code(e.kind())).to_string()),
                }
            }
            return out;
        }
        let src = match op {
            0 => format!("{} + {}", ta, tb),
            1 => format!("{} - {}", ta, tb),
            2 => format!("{} * {}", ta, tb),
            3 => format!("{} // {}", ta, tb),
            4 => format!("{} % {}", ta, tb),
            5 => format!("{} ** {}", ta, tb),
            // unary minus binds tighter than `.v` / `[0]`
            6 => format!("-{}", if ta.starts_with('-') || ta.contains('.') || ta.contains('[') { format!("({})", ta) } else { ta }),
            8 => ta.clone(),
            _ => return vec!["9".into()],
        };
        match eval(&src) {
            Ok(v) => enc(&v, &mut out),
            Err(e) => {
                out.push("1".into());
                out.push(err_code(e.kind()).to_string());
            }
        }
        out
    });
}
