//! C09: subscripts and slices.  Input: kind mode st_tag st sp_tag sp se_tag se form n e1..en
use minijinja::value::{Tuple, Value, ValueKind};
use minijinja::{context, Environment};
use mjverif::*;

fn container(kind: i64, elems: &[i128]) -> Value {
    match kind {
        0 => Value::from(
            elems
                .iter()
                .map(|c| char::from_u32(*c as u32).unwrap_or('?'))
                .collect::<String>(),
        ),
        1 => Value::from_bytes(elems.iter().map(|b| *b as u8).collect()),
        2 => Value::from(Tuple::new(elems.iter().map(|e| Value::from(*e as i64)).collect())),
        3 => Value::from(elems.iter().map(|e| Value::from(*e as i64)).collect::<Vec<_>>()),
        4 => {
            let v: Vec<i64> = elems.iter().map(|e| *e as i64).collect();
            Value::make_iterable(move || v.clone().into_iter())
        }
        _ => {
            let v: Vec<i64> = elems.iter().map(|e| *e as i64).collect();
            Value::make_iterable(move || v.clone().into_iter().filter(|_| true))
        }
    }
}

fn int_value(s: &str) -> Value {
    if let Ok(v) = s.parse::<i64>() {
        Value::from(v)
    } else if let Ok(v) = s.parse::<u64>() {
        Value::from(v)
    } else if let Ok(v) = s.parse::<i128>() {
        Value::from(v)
    } else if let Ok(v) = s.parse::<u128>() {
        Value::from(v)
    } else {
        Value::from(0)
    }
}

/// the same integer in a chosen representation: 2 = i128, 3 = u128 (i128 when negative),
/// 6 = u64 when it fits (else narrowest)
fn int_value_as(s: &str, form: i64) -> Value {
    match form {
        2 => s.parse::<i128>().map(Value::from).unwrap_or_else(|_| int_value(s)),
        3 => s
            .parse::<u128>()
            .map(Value::from)
            .or_else(|_| s.parse::<i128>().map(Value::from))
            .unwrap_or_else(|_| int_value(s)),
        6 => s.parse::<u64>().map(Value::from).unwrap_or_else(|_| int_value(s)),
        _ => int_value(s),
    }
}

/// `pairs`: the container is a zip, its items are tuples (x, y): they are encoded by their first component
fn enc_value(v: &Value, out: &mut Vec<String>, pairs: bool) {
    if pairs && v.is_tuple() {
        let first = v.get_item_by_index(0).unwrap_or(Value::UNDEFINED);
        return enc_value(&first, out, false);
    }
    if v.is_undefined() {
        out.push("3".into());
    } else if v.kind() == ValueKind::String {
        out.push("0".into());
        out.push("0".into());
        push_str(out, v.as_str().unwrap_or(""));
    } else if let (ValueKind::Bytes, Some(b)) = (v.kind(), v.as_bytes()) {
        out.push("0".into());
        out.push("1".into());
        out.push(b.len().to_string());
        out.extend(b.iter().map(|x| x.to_string()));
    } else if matches!(v.kind(), ValueKind::Seq | ValueKind::Iterable) {
        out.push("0".into());
        out.push(if v.is_tuple() { "2" } else { "3" }.into());
        let items: Vec<Value> = v.try_iter().map(|i| i.collect()).unwrap_or_default();
        out.push(items.len().to_string());
        for it in items {
            if pairs && it.is_tuple() {
                out.push(it.get_item_by_index(0).unwrap_or(Value::UNDEFINED).to_string());
            } else {
                out.push(it.to_string());
            }
        }
    } else if v.kind() == ValueKind::Number {
        out.push("4".into());
        out.push(v.to_string());
    } else {
        out.push("9".into());
    }
}

fn main() {
    let env = Environment::new();
    serve(2, |c| {
        let kind = c.i64();
        let mode = c.i64();
        let mut b: Vec<Option<String>> = vec![];
        for _ in 0..3 {
            let tag = c.i64();
            let v = c.big();
            b.push(if tag == 0 { None } else { Some(v) });
        }
        let form = c.i64();
        // form >= 10: an omitted step is written with its colon (`x[a:b:]`)
        let trailing_colon = form >= 10;
        let form = form % 10;
        let n = c.usize();
        let elems: Vec<i128> = (0..n).map(|_| c.i128()).collect();
        // kinds 6..8: the container is a concatenation built in the template: lazy + list, list + lazy,
        // list|chain(lazy); p holds the first half of the elements, q the second half
        let lit_src: String;
        let (base, x, p, q) = if kind == 9 || kind == 10 {
            // the container is written as a LITERAL in the template source (constant folding sees it)
            lit_src = if kind == 9 {
                let mut t = String::from("'");
                for c in &elems {
                    let ch = char::from_u32(*c as u32).unwrap_or('?');
                    if ch == '\'' || ch == '\\' {
                        t.push('\\');
                    }
                    t.push(ch);
                }
                t.push('\'');
                t
            } else {
                format!(
                    "[{}]",
                    elems.iter().map(|e| e.to_string()).collect::<Vec<_>>().join(", ")
                )
            };
            (lit_src.as_str(), Value::UNDEFINED, Value::UNDEFINED, Value::UNDEFINED)
        } else if kind == 11 || kind == 12 {
            let t: String = elems
                .iter()
                .map(|c| char::from_u32(*c as u32).unwrap_or('?'))
                .collect();
            let v = if kind == 11 {
                Value::from_safe_string(t)
            } else {
                Value::from(std::sync::Arc::<str>::from(t))
            };
            ("x", v, Value::UNDEFINED, Value::UNDEFINED)
        } else if kind == 13 || kind == 14 {
            // zip of an unsized lazy iterable with a longer list (13: lazy first, 14: list first): the items are
            // pairs whose first component is the element; the zip ends with the shorter (lazy) argument
            let mut longer: Vec<i128> = elems.clone();
            longer.push(0);
            longer.push(0);
            if kind == 13 {
                ("(p|zip(q))", Value::UNDEFINED, container(5, &elems), container(3, &longer))
            } else {
                ("(p|zip(q))", Value::UNDEFINED, container(3, &longer), container(5, &elems))
            }
        } else if (6..=8).contains(&kind) {
            let h = n / 2;
            let (pk, qk) = match kind {
                6 => (5, 3),
                7 => (3, 5),
                _ => (3, 5),
            };
            (
                if kind == 8 { "(p|chain(q))" } else { "(p + q)" },
                Value::UNDEFINED,
                container(pk, &elems[..h]),
                container(qk, &elems[h..]),
            )
        } else {
            ("x", container(kind, &elems), Value::UNDEFINED, Value::UNDEFINED)
        };
        let lit = |o: &Option<String>, name: &str| -> String {
            match o {
                None => String::new(),
                Some(v) => {
                    match form {
                        0 => v.clone(),
                        // the integer arrives through the int filter (from a string / from a float)
                        4 => format!("('{}'|int)", v),
                        5 if v.trim_start_matches('-').len() <= 15 => format!("({}.0|int)", v),
                        _ => name.to_string(),
                    }
                }
            }
        };
        const SECOND: [&str; 8] = ["[::-1]", "[1:]", "[:-1]", "[::2]", "[-2:]", "[1:-1]", "[-1::-1]", "[0:2]"];
        let first = if b[2].is_none() && !trailing_colon {
            format!("{}[{}:{}]", base, lit(&b[0], "a"), lit(&b[1], "b"))
        } else {
            format!("{}[{}:{}:{}]", base, lit(&b[0], "a"), lit(&b[1], "b"), lit(&b[2], "c"))
        };
        let src = if (2..34).contains(&mode) {
            format!("{}[{}]", first, mode - 18)
        } else if mode >= 100 {
            format!("{}{}", first, SECOND.get((mode - 100) as usize).copied().unwrap_or("[:]"))
        } else if mode == 1 {
            format!("{}[{}]", base, lit(&b[0], "a"))
        } else {
            first.clone()
        };
        let val = |o: &Option<String>| {
            o.as_ref()
                .map(|s| int_value_as(s, form))
                .unwrap_or(Value::from(()))
        };
        let ctx = context! { x => x, p => p, q => q, a => val(&b[0]), b => val(&b[1]), c => val(&b[2]) };
        let mut out = vec![];
        match env.compile_expression(&src).and_then(|e| e.eval(ctx)) {
            Ok(v) => enc_value(&v, &mut out, kind == 13 || kind == 14),
            Err(e) => {
                out.push("1".into());
                out.push(err_code(e.kind()).to_string());
            }
        }
        out
    });
}
