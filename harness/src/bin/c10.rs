//! C10: text verbatim / whitespace control / custom delimiters.
//!
//! Input:  mode bits D1..D8 payload
//!   bits: 1 = trim_blocks, 2 = lstrip_blocks, 4 = keep_trailing_newline
//!   D1..D8 (strings `len c1..cn`): block start/end, variable start/end, comment start/end,
//!          line statement prefix, line comment prefix ("" = not configured)
//!   mode 0: payload = nseg seg*   with
//!          seg = 0 <str>                          text
//!              | 1 kind l r                        tag, kind 0 variable / 1 block / 2 comment; marker 0 none 1 '-' 2 '+'
//!              | 2 l1 r1 <str> l2 r2               raw block with content
//!              | 4 kind l r <str>                  tag with the given interior (programs of the delimiter-rewriting corpus)
//!              | 3 kind <trail> nl                 line statement (kind 0) / line comment (kind 1) with trailing blanks;
//!                                                  nl 0 none 1 LF 2 CRLF 3 CR (indentation belongs to the preceding text)
//!   mode 1: payload = <str> (template source as is)
//!   mode 2 (history): 2 bits nconf (D1..D8){nconf} nops (op idx){nops} pk payload
//!          several configurations live in ONE process: op 0 = build configuration idx (SyntaxConfig::builder()..build(),
//!          never cached by the harness) and create its own Environment, op 1 = use configuration idx (built on first use)
//!          on the probe: pk 0 = segments (payload as in mode 0, unparsed with the delimiters of that configuration),
//!          pk 1 = <str> source as is.  Output: 4 nuse (len out...){nuse}, `out` being the mode 0 / mode 1 output of that use.
//!   mode 3 (setter order): 3 0 D1..D8 nops (id val){nops} nseg seg*
//!          a fresh Environment; the setters are applied in the given order, then the segments (unparsed with D1..D8 if the
//!          LAST set_syntax had val 1, with the default delimiters otherwise) are rendered through render_str and through
//!          add_template_owned + get_template.  Setter ids: 0 set_syntax (val 1 = D1..D8, 0 = default), 1 set_trim_blocks,
//!          2 set_lstrip_blocks, 3 set_keep_trailing_newline, 4 set_auto_escape_callback, 5 set_undefined_behavior, 6 set_formatter,
//!          7 set_debug, 8 set_fuel, 9 set_recursion_limit, 10 set_loader, 11 set_path_join_callback, 12 add_filter,
//!          13 add_function, 14 add_test, 15 add_global, 16 set_unknown_method_callback, 17 add_template_owned (another template),
//!          18 clear_templates, 19 remove_filter/remove_global.  Output: 5 R R   (both renderings, R as in mode 0)
//!   mode 4 (source routes / re-add histories): 4 0 D1..D8 <src> <alt> nops (op a b){nops}   on ONE fresh Environment:
//!          op 0 = setter a (0 set_syntax, 1 trim_blocks, 2 lstrip_blocks, 3 keep_trailing_newline) with value b;
//!          op 1 = render the source (b = 0: src, 1: alt) through route a: 0 render_str, 1 render_named_str, 2 template_from_str,
//!                 3 template_from_named_str, 4 add_template_owned + get_template (fresh name), 5 add_template (borrowed) + get_template,
//!                 6 set_loader(closure) + get_template, 7 path_loader on a file written to a temporary directory + get_template;
//!          op 2 = add template "t" (a = 0 add_template_owned, 1 add_template) with source b; op 3 = render "t";
//!          op 4 = remove_template("t"); op 5 = clear_templates.   Output: 6 n R{n}  (one R per op 1 / op 3)
//! Output: [2] on panic, [1 22] when the delimiter configuration is rejected, otherwise
//!   mode 0:  R T      mode 1:  3 T
//!   R = 0 <str rendered> | 1 errcode
//!   T = ntok tok* end ; tok = 0 <str> (TemplateData) | 1 off (VariableStart) | 2 off (BlockStart); offsets in code points
//!       end = 0 | 1 errcode
use minijinja::machinery::{tokenize, Token, WhitespaceConfig};
use minijinja::syntax::SyntaxConfig;
use minijinja::{AutoEscape, Environment, UndefinedBehavior, Value};
use mjverif::*;
use std::collections::HashMap;

fn mark(m: i64) -> &'static str {
    match m {
        1 => "-",
        2 => "+",
        _ => "",
    }
}

fn nl(n: i64) -> &'static str {
    match n {
        1 => "\n",
        2 => "\r\n",
        3 => "\r",
        _ => "",
    }
}

fn build_source(c: &mut Cur, d: &[String]) -> String {
    let n = c.usize();
    let mut s = String::new();
    for _ in 0..n {
        match c.i64() {
            0 => s.push_str(&c.str()),
            1 => {
                let kind = c.i64();
                let l = mark(c.i64());
                let r = mark(c.i64());
                let (a, body, b) = match kind {
                    0 => (&d[2], " 'V' ", &d[3]),
                    1 => (&d[0], " set q = 1 ", &d[1]),
                    _ => (&d[4], " c ", &d[5]),
                };
                s.push_str(a);
                s.push_str(l);
                s.push_str(body);
                s.push_str(r);
                s.push_str(b);
            }
            4 => {
                let kind = c.i64();
                let l = mark(c.i64());
                let r = mark(c.i64());
                let body = c.str();
                let (a, b) = match kind {
                    0 => (&d[2], &d[3]),
                    1 => (&d[0], &d[1]),
                    _ => (&d[4], &d[5]),
                };
                s.push_str(a);
                s.push_str(l);
                s.push_str(&body);
                s.push_str(r);
                s.push_str(b);
            }
            2 => {
                let l1 = mark(c.i64());
                let r1 = mark(c.i64());
                let content = c.str();
                let l2 = mark(c.i64());
                let r2 = mark(c.i64());
                s.push_str(&d[0]);
                s.push_str(l1);
                s.push_str(" raw ");
                s.push_str(r1);
                s.push_str(&d[1]);
                s.push_str(&content);
                s.push_str(&d[0]);
                s.push_str(l2);
                s.push_str(" endraw ");
                s.push_str(r2);
                s.push_str(&d[1]);
            }
            _ => {
                let kind = c.i64();
                let trail = c.str();
                let e = nl(c.i64());
                if kind == 0 {
                    s.push_str(&d[6]);
                    s.push_str(" set q = 1");
                } else {
                    s.push_str(&d[7]);
                    s.push_str(" c");
                }
                s.push_str(&trail);
                s.push_str(e);
            }
        }
    }
    s
}

fn build_syntax(d: &[String]) -> Result<SyntaxConfig, i64> {
    let mut b = SyntaxConfig::builder();
    b.block_delimiters(d[0].clone(), d[1].clone())
        .variable_delimiters(d[2].clone(), d[3].clone())
        .comment_delimiters(d[4].clone(), d[5].clone())
        .line_statement_prefix(d[6].clone())
        .line_comment_prefix(d[7].clone());
    b.build().map_err(|e| err_code(e.kind()))
}

fn ws_of(bits: i64) -> WhitespaceConfig {
    WhitespaceConfig {
        trim_blocks: bits & 1 != 0,
        lstrip_blocks: bits & 2 != 0,
        keep_trailing_newline: bits & 4 != 0,
    }
}

/// renders and tokenizes `src`; `with_render` = the rendered output is part of the answer (mode 0)
fn observe(env: &mut Environment, syntax: &SyntaxConfig, bits: i64, src: &str, with_render: bool) -> Vec<String> {
    let ws = ws_of(bits);
    env.set_trim_blocks(ws.trim_blocks);
    env.set_lstrip_blocks(ws.lstrip_blocks);
    env.set_keep_trailing_newline(ws.keep_trailing_newline);
    env.set_syntax(syntax.clone());
    let mut out: Vec<String> = vec![];
    let rendered = env.render_str(src, ());
    if !with_render {
        out.push("3".into());
    } else {
        match rendered {
            Ok(s) => {
                out.push("0".into());
                push_str(&mut out, &s);
            }
            Err(e) => {
                out.push("1".into());
                out.push(err_code(e.kind()).to_string());
            }
        }
    }
    let mut toks: Vec<String> = vec![];
    let mut ntok = 0usize;
    let mut end = vec!["0".to_string()];
    let cp = |off: u32| src[..(off as usize).min(src.len())].chars().count();
    for t in tokenize(src, false, syntax.clone(), ws) {
        match t {
            Ok((Token::TemplateData(s), _)) => {
                toks.push("0".into());
                push_str(&mut toks, s);
                ntok += 1;
            }
            Ok((Token::VariableStart, sp)) => {
                toks.push("1".into());
                toks.push(cp(sp.start_offset).to_string());
                ntok += 1;
            }
            Ok((Token::BlockStart, sp)) => {
                toks.push("2".into());
                toks.push(cp(sp.start_offset).to_string());
                ntok += 1;
            }
            Ok(_) => {}
            Err(e) => {
                end = vec!["1".into(), err_code(e.kind()).to_string()];
                break;
            }
        }
    }
    out.push(ntok.to_string());
    out.extend(toks);
    out.extend(end);
    out
}

/// mode 2: several configurations built and used in one process
fn history(c: &mut Cur, bits: i64) -> Vec<String> {
    let nconf = c.usize();
    let ds: Vec<Vec<String>> = (0..nconf).map(|_| (0..8).map(|_| c.str()).collect()).collect();
    let nops = c.usize();
    let ops: Vec<(i64, usize)> = (0..nops).map(|_| (c.i64(), c.usize())).collect();
    let pk = c.i64();
    let payload_at = c.i;
    let mut built: Vec<Option<Result<SyntaxConfig, i64>>> = (0..nconf).map(|_| None).collect();
    let mut envs: Vec<Environment> = (0..nconf).map(|_| Environment::new()).collect();
    let mut uses: Vec<Vec<String>> = vec![];
    for (op, i) in ops {
        if i >= nconf {
            continue;
        }
        if op == 0 || built[i].is_none() {
            let r = build_syntax(&ds[i]);
            if let Ok(ref s) = r {
                envs[i] = Environment::new();
                envs[i].set_syntax(s.clone());
            }
            built[i] = Some(r);
        }
        if op == 1 {
            c.i = payload_at;
            let src = if pk == 1 { c.str() } else { build_source(c, &ds[i]) };
            let out = match built[i].as_ref().unwrap() {
                Ok(s) => {
                    let s = s.clone();
                    observe(&mut envs[i], &s, bits, &src, pk != 1)
                }
                Err(code) => vec!["1".into(), code.to_string()],
            };
            uses.push(out);
        }
    }
    let mut out = vec!["4".to_string(), uses.len().to_string()];
    for u in uses {
        out.push(u.len().to_string());
        out.extend(u);
    }
    out
}

fn render_part(out: &mut Vec<String>, r: Result<String, minijinja::Error>) {
    match r {
        Ok(s) => {
            out.push("0".into());
            push_str(out, &s);
        }
        Err(e) => {
            out.push("1".into());
            out.push(err_code(e.kind()).to_string());
        }
    }
}

/// mode 3: the Environment setters in a given order
fn setter_order(c: &mut Cur, d: &[String]) -> Vec<String> {
    let nops = c.usize();
    let ops: Vec<(i64, i64)> = (0..nops).map(|_| (c.i64(), c.i64())).collect();
    let custom = match build_syntax(d) {
        Ok(s) => s,
        Err(code) => return vec!["1".into(), code.to_string()],
    };
    let mut env = Environment::new();
    let mut last_syntax = 0;
    for (id, val) in ops {
        match id {
            0 => {
                env.set_syntax(if val == 1 { custom.clone() } else { SyntaxConfig::default() });
                last_syntax = val;
            }
            1 => env.set_trim_blocks(val == 1),
            2 => env.set_lstrip_blocks(val == 1),
            3 => env.set_keep_trailing_newline(val == 1),
            4 => {
                if val == 1 {
                    env.set_auto_escape_callback(|_| AutoEscape::None)
                } else {
                    env.set_auto_escape_callback(minijinja::default_auto_escape_callback)
                }
            }
            5 => env.set_undefined_behavior(if val == 1 { UndefinedBehavior::Chainable } else { UndefinedBehavior::Lenient }),
            6 => env.set_formatter(minijinja::escape_formatter),
            7 => env.set_debug(val == 1),
            8 => env.set_fuel(Some(100_000 + val as u64)),
            9 => env.set_recursion_limit(400 + val as usize),
            10 => env.set_loader(|_| Ok(None)),
            11 => env.set_path_join_callback(|name, _| name.to_string().into()),
            12 => env.add_filter("c10f", |v: Value| v),
            13 => env.add_function("c10g", || 1),
            14 => env.add_test("c10t", |_v: Value| true),
            15 => env.add_global("c10k", 1),
            16 => env.set_unknown_method_callback(|_, _, _, _| Ok(Value::from(0))),
            17 => {
                let _ = env.add_template_owned("c10-other", "other");
            }
            18 => env.clear_templates(),
            _ => {
                env.remove_filter("c10f");
                env.remove_global("c10k");
            }
        }
    }
    let default_d: Vec<String> = ["{%", "%}", "{{", "}}", "{#", "#}", "", ""].iter().map(|x| x.to_string()).collect();
    let src = build_source(c, if last_syntax == 1 { d } else { &default_d });
    let mut out = vec!["5".to_string()];
    render_part(&mut out, env.render_str(&src, ()));
    let r2 = match env.add_template_owned("c10-probe", src.clone()) {
        Ok(()) => env.get_template("c10-probe").and_then(|t| t.render(())),
        Err(e) => Err(e),
    };
    render_part(&mut out, r2);
    out
}

/// mode 4: one environment, the source through every route, templates re-added after reconfiguration
fn routes(c: &mut Cur, d: &[String]) -> Vec<String> {
    let src: &'static str = Box::leak(c.str().into_boxed_str());
    let alt: &'static str = Box::leak(c.str().into_boxed_str());
    let nops = c.usize();
    let ops: Vec<(i64, i64, i64)> = (0..nops).map(|_| (c.i64(), c.i64(), c.i64())).collect();
    let custom = match build_syntax(d) {
        Ok(s) => s,
        Err(code) => return vec!["1".into(), code.to_string()],
    };
    let dir = std::path::PathBuf::from(std::env::var("MJVERIF_TMP").unwrap_or_else(|_| "/tmp".into()))
        .join(format!("c10-routes-{}", std::process::id()));
    let mut env: Environment<'static> = Environment::new();
    let mut outs: Vec<Vec<String>> = vec![];
    let mut fresh = 0usize;
    for (op, a, b) in ops {
        let which = if b == 1 { alt } else { src };
        match op {
            0 => match a {
                0 => env.set_syntax(if b == 1 { custom.clone() } else { SyntaxConfig::default() }),
                1 => env.set_trim_blocks(b == 1),
                2 => env.set_lstrip_blocks(b == 1),
                _ => env.set_keep_trailing_newline(b == 1),
            },
            1 => {
                fresh += 1;
                let name = format!("route-{}.txt", fresh);
                let r = match a {
                    0 => env.render_str(which, ()),
                    1 => env.render_named_str(&name, which, ()),
                    2 => env.template_from_str(which).and_then(|t| t.render(())),
                    3 => env.template_from_named_str(&name, which).and_then(|t| t.render(())),
                    4 => env
                        .add_template_owned(name.clone(), which.to_string())
                        .and_then(|_| env.get_template(&name))
                        .and_then(|t| t.render(())),
                    5 => {
                        let n: &'static str = Box::leak(name.clone().into_boxed_str());
                        env.add_template(n, which).and_then(|_| env.get_template(n)).and_then(|t| t.render(()))
                    }
                    6 => {
                        let owned = which.to_string();
                        let wanted = name.clone();
                        env.set_loader(move |n| Ok(if n == wanted { Some(owned.clone()) } else { None }));
                        env.get_template(&name).and_then(|t| t.render(()))
                    }
                    _ => {
                        let _ = std::fs::create_dir_all(&dir);
                        let _ = std::fs::write(dir.join(&name), which.as_bytes());
                        env.set_loader(minijinja::path_loader(&dir));
                        let r = env.get_template(&name).and_then(|t| t.render(()));
                        let _ = std::fs::remove_file(dir.join(&name));
                        r
                    }
                };
                let mut o = vec![];
                render_part(&mut o, r);
                outs.push(o);
            }
            2 => {
                let r = if a == 1 { env.add_template("t", which) } else { env.add_template_owned("t", which.to_string()) };
                if let Err(e) = r {
                    // a failing add shows up in the next rendering of "t"
                    let _ = e;
                }
            }
            3 => {
                let mut o = vec![];
                render_part(&mut o, env.get_template("t").and_then(|t| t.render(())));
                outs.push(o);
            }
            4 => env.remove_template("t"),
            _ => env.clear_templates(),
        }
    }
    let _ = std::fs::remove_dir(&dir);
    let mut out = vec!["6".to_string(), outs.len().to_string()];
    for o in outs {
        out.extend(o);
    }
    out
}

fn main() {
    // one environment for the whole run (every setting is overwritten per case); built syntax
    // configurations are cached per delimiter set (modes 0 and 1)
    let mut env = Environment::new();
    let mut cache: HashMap<Vec<String>, Result<SyntaxConfig, i64>> = HashMap::new();
    serve(2, |c| {
        let mode = c.i64();
        let bits = c.i64();
        if mode == 2 {
            return history(c, bits);
        }
        let d: Vec<String> = (0..8).map(|_| c.str()).collect();
        if mode == 3 {
            return setter_order(c, &d);
        }
        if mode == 4 {
            return routes(c, &d);
        }
        let src = if mode == 1 { c.str() } else { build_source(c, &d) };
        let built = cache.entry(d.clone()).or_insert_with(|| build_syntax(&d));
        let syntax = match built {
            Ok(s) => s.clone(),
            Err(code) => return vec!["1".into(), code.to_string()],
        };
        observe(&mut env, &syntax, bits, &src, mode != 1)
    });
}
