//! C11 harness: renders one recursive program per request and reports how far the recursion got.
//!
//! JSON lines in / out.  Request:
//!   {"templates": {name: source}, "main": name, "limit": n | null, "stack_kib": n,
//!    "main_thread": bool, "nest": n,
//!    "env": how the rendering environment is derived from the configured one (original | clone | clone_of_clone |
//!           clone_modified | clone_then_set | stale_clone | original_after_clone | moved_thread | scoped_thread |
//!           arc_thread | loader | autoreload | autoreload_reloaded | autoreload_fast),
//!    "api": get_template | template_from_str | template_from_named_str | render_str | render_named_str |
//!           render_captured | render_captured_to | new_state_block | captured_block | captured_macro, "entry_template", "entry_name": for the State-level APIs}
//! The environment offers these globals to the templates (besides try_block(name) / try_macro(name): host callables
//! that render a block / call a macro through `&mut State` and swallow the error - the response counts them in
//! "swallowed" (root cause 'recursion limit exceeded') and "swallowed_other"):
//!   probe()   - counts its calls (one call per recursion level, placed right before the level
//!               recurses) and records the address of one of its locals (= native stack position);
//!   tree      - a list nested `nest` levels deep ([[[...]]]), for recursive loops.
//! Response:
//!   {"r": "ok" | "err" | "panic", "outer": kind, "inner": kind, "reclimit": bool,
//!    "probes": n, "used": bytes between the thread's entry frame and the deepest probe,
//!    "span": bytes between the first and the deepest probe, "effective_limit": n}
//! A native stack overflow kills the process (the driver sees the missing answer).
use std::io::{BufRead, Write};
use std::panic::{catch_unwind, AssertUnwindSafe};
use std::sync::atomic::{AtomicUsize, Ordering};

use minijinja::value::Value;
use minijinja::{Environment, Error};
use serde_json::{json, Value as J};

static COUNT: AtomicUsize = AtomicUsize::new(0);
static FIRST: AtomicUsize = AtomicUsize::new(0);
static DEEPEST: AtomicUsize = AtomicUsize::new(usize::MAX);

#[inline(never)]
fn probe() -> usize {
    let marker = 0u8;
    let addr = std::hint::black_box(&marker) as *const u8 as usize;
    let n = COUNT.fetch_add(1, Ordering::Relaxed) + 1;
    if n == 1 {
        FIRST.store(addr, Ordering::Relaxed);
    }
    if addr < DEEPEST.load(Ordering::Relaxed) {
        DEEPEST.store(addr, Ordering::Relaxed);
    }
    n
}

static SWALLOWED_RECLIMIT: AtomicUsize = AtomicUsize::new(0);
static SWALLOWED_OTHER: AtomicUsize = AtomicUsize::new(0);

fn swallow(r: Result<String, Error>) -> String {
    match r {
        Ok(s) => s,
        Err(e) => {
            let (_, _, reclimit) = kinds(&e);
            if reclimit {
                SWALLOWED_RECLIMIT.fetch_add(1, Ordering::Relaxed);
            } else {
                SWALLOWED_OTHER.fetch_add(1, Ordering::Relaxed);
            }
            String::new()
        }
    }
}

/// Host callables of the usual "optional block" kind: they render a block / call a macro through the state they are
/// handed and SWALLOW a failure, so the render goes on after a refused admission.
fn try_block(state: &mut minijinja::State, name: &str) -> String {
    swallow(state.render_block(name))
}

fn try_macro(state: &mut minijinja::State, name: &str) -> String {
    swallow(state.call_macro(name, &[]))
}

fn nested(n: usize) -> Value {
    let mut v = Value::from(Vec::<Value>::new());
    for _ in 0..n {
        v = Value::from(vec![v]);
    }
    v
}

/// Drops a deeply nested list without recursing once per level.
fn unnest(mut v: Value) {
    loop {
        let next = match v.try_iter() {
            Ok(mut it) => it.next(),
            Err(_) => None,
        };
        match next {
            Some(n) => {
                drop(v);
                v = n;
            }
            None => break,
        }
    }
}

fn kinds(e: &Error) -> (i64, i64, bool) {
    let outer = mjverif::err_code(e.kind());
    let mut inner = outer;
    let mut reclimit = e.detail() == Some("recursion limit exceeded");
    let mut cur: Option<&dyn std::error::Error> = std::error::Error::source(e);
    let mut guard = 0;
    while let Some(c) = cur {
        if let Some(me) = c.downcast_ref::<Error>() {
            inner = mjverif::err_code(me.kind());
            reclimit = me.detail() == Some("recursion limit exceeded");
        }
        cur = c.source();
        guard += 1;
        if guard > 100000 {
            break;
        }
    }
    (outer, inner, reclimit)
}

/// What a request configures on an environment.
struct Cfg {
    limit: Option<usize>,
    tree: Value,
    templates: Vec<(String, String)>,
    use_loader: bool,
}

fn build(cfg: &Cfg, set_limit: bool) -> Result<Environment<'static>, J> {
    let mut env = Environment::new();
    if set_limit {
        if let Some(n) = cfg.limit {
            env.set_recursion_limit(n);
        }
    }
    env.add_function("probe", probe);
    env.add_function("try_block", try_block);
    env.add_function("try_macro", try_macro);
    env.add_global("tree", cfg.tree.clone());
    if cfg.use_loader {
        let map: std::collections::HashMap<String, String> = cfg.templates.iter().cloned().collect();
        env.set_loader(move |name| Ok(map.get(name).cloned()));
    } else {
        for (name, src) in &cfg.templates {
            if let Err(e) = env.add_template_owned(name.clone(), src.clone()) {
                return Err(json!({"r": "load_error", "template": name, "kind": mjverif::err_code(e.kind()), "msg": e.to_string()}));
            }
        }
    }
    Ok(env)
}

fn leak(s: &str) -> &'static str {
    Box::leak(s.to_string().into_boxed_str())
}

/// Renders through `env` by the API the request names and reports how far the recursion got.
fn render_in(env: &Environment<'static>, req: &J) -> J {
    let base_marker = 0u8;
    let base = std::hint::black_box(&base_marker) as *const u8 as usize;
    COUNT.store(0, Ordering::Relaxed);
    FIRST.store(0, Ordering::Relaxed);
    DEEPEST.store(usize::MAX, Ordering::Relaxed);
    SWALLOWED_RECLIMIT.store(0, Ordering::Relaxed);
    SWALLOWED_OTHER.store(0, Ordering::Relaxed);
    let effective = env.recursion_limit();
    let main = req.get("main").and_then(|x| x.as_str()).unwrap_or("main");
    let api = req.get("api").and_then(|x| x.as_str()).unwrap_or("get_template");
    let entry_t = req.get("entry_template").and_then(|x| x.as_str()).unwrap_or("main");
    let entry_n = req.get("entry_name").and_then(|x| x.as_str()).unwrap_or("entry");
    let src = req
        .get("templates")
        .and_then(|t| t.get(main))
        .and_then(|x| x.as_str())
        .unwrap_or("");
    let res = catch_unwind(AssertUnwindSafe(|| -> Result<String, Error> {
        match api {
            "template_from_str" => env.template_from_str(leak(src))?.render(()),
            "template_from_named_str" => env.template_from_named_str(leak(main), leak(src))?.render(()),
            "render_str" => env.render_str(src, ()),
            "render_named_str" => env.render_named_str(main, src, ()),
            "render_captured" => Ok(env.get_template(main)?.render_captured(())?.into_output()),
            "render_captured_to" => {
                let mut v = Vec::new();
                env.get_template(main)?.render_captured_to((), &mut v)?;
                Ok(String::from_utf8_lossy(&v).into_owned())
            }
            "new_state_block" => {
                let t = env.get_template(entry_t)?;
                let mut st = t.new_state();
                st.render_block(entry_n)
            }
            "captured_block" => {
                let t = env.get_template(entry_t)?;
                let mut c = t.render_captured(())?;
                c.with_state_mut(|st| st.render_block(entry_n))
            }
            "captured_macro" => {
                let t = env.get_template(entry_t)?;
                let mut c = t.render_captured(())?;
                c.with_state_mut(|st| st.call_macro(entry_n, &[]))
            }
            _ => env.get_template(main)?.render(()),
        }
    }));
    let n = COUNT.load(Ordering::Relaxed);
    let deepest = DEEPEST.load(Ordering::Relaxed);
    let first = FIRST.load(Ordering::Relaxed);
    let used = if n > 0 { base.saturating_sub(deepest) } else { 0 };
    let span = if n > 0 { first.saturating_sub(deepest) } else { 0 };
    let mut out = match res {
        Ok(Ok(s)) => json!({"r": "ok", "out_len": s.len()}),
        Ok(Err(e)) => {
            let (outer, inner, reclimit) = kinds(&e);
            // formatting the (possibly very long) error chain must not crash either
            let _ = format!("{} {:#}", e, e);
            let j = json!({"r": "err", "outer": outer, "inner": inner, "reclimit": reclimit});
            // Error's own Drop is recursive over `source`; it is part of what the property covers, so it stays on this stack.
            drop(e);
            j
        }
        Err(p) => {
            let msg = p
                .downcast_ref::<String>()
                .cloned()
                .or_else(|| p.downcast_ref::<&str>().map(|s| s.to_string()))
                .unwrap_or_default();
            json!({"r": "panic", "msg": msg})
        }
    };
    out["probes"] = json!(n);
    out["used"] = json!(used);
    out["span"] = json!(span);
    out["effective_limit"] = json!(effective);
    out["swallowed"] = json!(SWALLOWED_RECLIMIT.load(Ordering::Relaxed));
    out["swallowed_other"] = json!(SWALLOWED_OTHER.load(Ordering::Relaxed));
    out
}

/// "env": how the environment that renders is obtained from the configured one.
fn run(req: &J, stack: usize) -> J {
    let nest = req.get("nest").and_then(|x| x.as_u64()).unwrap_or(0) as usize;
    let tree = nested(nest);
    let empty = serde_json::Map::new();
    let kind = req.get("env").and_then(|x| x.as_str()).unwrap_or("original").to_string();
    let cfg = Cfg {
        limit: req.get("limit").and_then(|x| x.as_u64()).map(|n| n as usize),
        tree: tree.clone(),
        templates: req
            .get("templates")
            .and_then(|x| x.as_object())
            .unwrap_or(&empty)
            .iter()
            .map(|(k, v)| (k.clone(), v.as_str().unwrap_or("").to_string()))
            .collect(),
        use_loader: kind == "loader" || kind == "autoreload_fast",
    };
    macro_rules! tryb {
        ($e:expr) => {
            match $e {
                Ok(v) => v,
                Err(j) => return j,
            }
        };
    }
    let out = match kind.as_str() {
        "clone" => {
            let base = tryb!(build(&cfg, true));
            let c = base.clone();
            render_in(&c, req)
        }
        "clone_of_clone" => {
            let base = tryb!(build(&cfg, true));
            let c = base.clone().clone();
            drop(base);
            render_in(&c, req)
        }
        "clone_modified" => {
            let base = tryb!(build(&cfg, true));
            let mut c = base.clone();
            c.add_global("extra_global", 1);
            let _ = c.add_template_owned("extra_template".to_string(), "x".to_string());
            render_in(&c, req)
        }
        "clone_then_set" => {
            let base = tryb!(build(&cfg, false));
            let mut c = base.clone();
            if let Some(n) = cfg.limit {
                c.set_recursion_limit(n);
            }
            render_in(&c, req)
        }
        "stale_clone" => {
            // cloned BEFORE the original is configured: the clone keeps the limit it was cloned with (the default)
            let mut base = tryb!(build(&cfg, false));
            let c = base.clone();
            if let Some(n) = cfg.limit {
                base.set_recursion_limit(n);
            }
            let mut o = render_in(&c, req);
            o["other_limit"] = json!(base.recursion_limit());
            o
        }
        "original_after_clone" => {
            // the original, after a clone of it was configured differently
            let base = tryb!(build(&cfg, true));
            let mut c = base.clone();
            c.set_recursion_limit(333);
            let mut o = render_in(&base, req);
            o["other_limit"] = json!(c.recursion_limit());
            o
        }
        "moved_thread" => {
            let env = tryb!(build(&cfg, true));
            let req2 = req.clone();
            let h = std::thread::Builder::new().stack_size(stack).spawn(move || render_in(&env, &req2));
            match h.map(|h| h.join()) {
                Ok(Ok(v)) => v,
                _ => json!({"r": "thread_failed"}),
            }
        }
        "scoped_thread" => {
            let env = tryb!(build(&cfg, true));
            std::thread::scope(|sc| {
                let h = std::thread::Builder::new().stack_size(stack).spawn_scoped(sc, || render_in(&env, req));
                match h.map(|h| h.join()) {
                    Ok(Ok(v)) => v,
                    _ => json!({"r": "thread_failed"}),
                }
            })
        }
        "arc_thread" => {
            let env = std::sync::Arc::new(tryb!(build(&cfg, true)));
            let e2 = env.clone();
            let req2 = req.clone();
            let h = std::thread::Builder::new().stack_size(stack).spawn(move || render_in(&e2, &req2));
            match h.map(|h| h.join()) {
                Ok(Ok(v)) => v,
                _ => json!({"r": "thread_failed"}),
            }
        }
        "autoreload" | "autoreload_reloaded" | "autoreload_fast" => {
            let cfg2 = Cfg { limit: cfg.limit, tree: cfg.tree.clone(), templates: cfg.templates.clone(), use_loader: cfg.use_loader };
            let reloader = minijinja_autoreload::AutoReloader::new(move |_notifier| {
                build(&cfg2, true).map_err(|_| Error::new(minijinja::ErrorKind::InvalidOperation, "load error"))
            });
            if kind == "autoreload_fast" {
                reloader.notifier().set_fast_reload(true);
            }
            if kind != "autoreload" {
                let first = reloader.acquire_env();
                drop(first);
                reloader.notifier().request_reload();
            }
            let o = match reloader.acquire_env() {
                Ok(guard) => render_in(&guard, req),
                Err(e) => json!({"r": "load_error", "msg": e.to_string()}),
            };
            o
        }
        _ => {
            let env = tryb!(build(&cfg, true));
            render_in(&env, req)
        }
    };
    drop(cfg);
    unnest(tree);
    out
}

fn main() {
    mjverif::install_quiet_panic_hook();
    let stdin = std::io::stdin();
    let stdout = std::io::stdout();
    for line in stdin.lock().lines() {
        let line = match line {
            Ok(l) => l,
            Err(_) => break,
        };
        if line.trim().is_empty() {
            continue;
        }
        let req: J = match serde_json::from_str(&line) {
            Ok(v) => v,
            Err(_) => {
                println!("{}", json!({"bad_request": true}));
                continue;
            }
        };
        let stack = req.get("stack_kib").and_then(|x| x.as_u64()).unwrap_or(2048).max(64) as usize * 1024;
        let res = if req.get("main_thread").and_then(|x| x.as_bool()).unwrap_or(false) {
            run(&req, stack.max(2048 * 1024))
        } else {
            let h = std::thread::Builder::new().stack_size(stack).spawn(move || run(&req, stack));
            match h.map(|h| h.join()) {
                Ok(Ok(v)) => v,
                _ => json!({"r": "thread_failed"}),
            }
        };
        let mut o = stdout.lock();
        let _ = writeln!(o, "{}", res);
        let _ = o.flush();
    }
}
