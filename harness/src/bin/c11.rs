//! C11 harness: renders one recursive program per request and reports how far the recursion got.
//!
//! JSON lines in / out.  Request:
//!   {"templates": {name: source}, "main": name, "limit": n | null, "stack_kib": n,
//!    "main_thread": bool, "nest": n}
//! The environment offers two globals to the templates:
//!   probe()   - counts its calls (one call per recursion level, placed right before the level
//!               recurses) and records the address of one of its locals (= native stack position);
//!   tree      - a list nested `nest` levels deep ([[[...]]]), for recursive loops.
//! Response:
//!   {"r": "ok" | "err" | "panic", "outer": kind, "inner": kind, "reclimit": bool,
//!    "probes": n, "used": bytes between the thread's entry frame and the deepest probe,
//!    "span": bytes between the first and the deepest probe, "effective_limit": n}
//! A native stack overflow kills the process (the driver sees the missing answer).
use std::io::{BufRead, Write};
use std::panic::{catch_unwind, AssertUnwindSafe};
use std::sync::atomic::{AtomicUsize, Ordering};

use minijinja::value::Value;
use minijinja::{Environment, Error};
use serde_json::{json, Value as J};

static COUNT: AtomicUsize = AtomicUsize::new(0);
static FIRST: AtomicUsize = AtomicUsize::new(0);
static DEEPEST: AtomicUsize = AtomicUsize::new(usize::MAX);

#[inline(never)]
fn probe() -> usize {
    let marker = 0u8;
    let addr = std::hint::black_box(&marker) as *const u8 as usize;
    let n = COUNT.fetch_add(1, Ordering::Relaxed) + 1;
    if n == 1 {
        FIRST.store(addr, Ordering::Relaxed);
    }
    if addr < DEEPEST.load(Ordering::Relaxed) {
        DEEPEST.store(addr, Ordering::Relaxed);
    }
    n
}

fn nested(n: usize) -> Value {
    let mut v = Value::from(Vec::<Value>::new());
    for _ in 0..n {
        v = Value::from(vec![v]);
    }
    v
}

/// Drops a deeply nested list without recursing once per level.
fn unnest(mut v: Value) {
    loop {
        let next = match v.try_iter() {
            Ok(mut it) => it.next(),
            Err(_) => None,
        };
        match next {
            Some(n) => {
                drop(v);
                v = n;
            }
            None => break,
        }
    }
}

fn kinds(e: &Error) -> (i64, i64, bool) {
    let outer = mjverif::err_code(e.kind());
    let mut inner = outer;
    let mut reclimit = e.detail() == Some("recursion limit exceeded");
    let mut cur: Option<&dyn std::error::Error> = std::error::Error::source(e);
    let mut guard = 0;
    while let Some(c) = cur {
        if let Some(me) = c.downcast_ref::<Error>() {
            inner = mjverif::err_code(me.kind());
            reclimit = me.detail() == Some("recursion limit exceeded");
        }
        cur = c.source();
        guard += 1;
        if guard > 100000 {
            break;
        }
    }
    (outer, inner, reclimit)
}

fn run(req: &J) -> J {
    let base_marker = 0u8;
    let base = std::hint::black_box(&base_marker) as *const u8 as usize;
    COUNT.store(0, Ordering::Relaxed);
    FIRST.store(0, Ordering::Relaxed);
    DEEPEST.store(usize::MAX, Ordering::Relaxed);
    let mut env = Environment::new();
    if let Some(n) = req.get("limit").and_then(|x| x.as_u64()) {
        env.set_recursion_limit(n as usize);
    }
    let effective = env.recursion_limit();
    env.add_function("probe", probe);
    let nest = req.get("nest").and_then(|x| x.as_u64()).unwrap_or(0) as usize;
    let tree = nested(nest);
    env.add_global("tree", tree.clone());
    let empty = serde_json::Map::new();
    let templates = req.get("templates").and_then(|x| x.as_object()).unwrap_or(&empty);
    for (name, src) in templates {
        if let Err(e) = env.add_template_owned(name.clone(), src.as_str().unwrap_or("").to_string()) {
            return json!({"r": "load_error", "template": name, "kind": mjverif::err_code(e.kind()), "msg": e.to_string()});
        }
    }
    let main = req.get("main").and_then(|x| x.as_str()).unwrap_or("main");
    let res = catch_unwind(AssertUnwindSafe(|| {
        let tmpl = env.get_template(main)?;
        tmpl.render(())
    }));
    let n = COUNT.load(Ordering::Relaxed);
    let deepest = DEEPEST.load(Ordering::Relaxed);
    let first = FIRST.load(Ordering::Relaxed);
    let used = if n > 0 { base.saturating_sub(deepest) } else { 0 };
    let span = if n > 0 { first.saturating_sub(deepest) } else { 0 };
    let mut out = match res {
        Ok(Ok(s)) => json!({"r": "ok", "out_len": s.len()}),
        Ok(Err(e)) => {
            let (outer, inner, reclimit) = kinds(&e);
            // formatting the (possibly very long) error chain must not crash either
            let _ = format!("{} {:#}", e, e);
            let j = json!({"r": "err", "outer": outer, "inner": inner, "reclimit": reclimit});
            // error chains nest once per include/super level: drop them iteratively? Error's own Drop is
            // recursive over `source`; it is part of what the property covers, so it stays on this stack.
            drop(e);
            j
        }
        Err(p) => {
            let msg = p
                .downcast_ref::<String>()
                .cloned()
                .or_else(|| p.downcast_ref::<&str>().map(|s| s.to_string()))
                .unwrap_or_default();
            json!({"r": "panic", "msg": msg})
        }
    };
    out["probes"] = json!(n);
    out["used"] = json!(used);
    out["span"] = json!(span);
    out["effective_limit"] = json!(effective);
    drop(env);
    unnest(tree);
    out
}

fn main() {
    mjverif::install_quiet_panic_hook();
    let stdin = std::io::stdin();
    let stdout = std::io::stdout();
    for line in stdin.lock().lines() {
        let line = match line {
            Ok(l) => l,
            Err(_) => break,
        };
        if line.trim().is_empty() {
            continue;
        }
        let req: J = match serde_json::from_str(&line) {
            Ok(v) => v,
            Err(_) => {
                println!("{}", json!({"bad_request": true}));
                continue;
            }
        };
        let res = if req.get("main_thread").and_then(|x| x.as_bool()).unwrap_or(false) {
            run(&req)
        } else {
            let stack = req.get("stack_kib").and_then(|x| x.as_u64()).unwrap_or(2048) as usize * 1024;
            let h = std::thread::Builder::new().stack_size(stack).spawn(move || run(&req));
            match h.map(|h| h.join()) {
                Ok(Ok(v)) => v,
                _ => json!({"r": "thread_failed"}),
            }
        };
        let mut o = stdout.lock();
        let _ = writeln!(o, "{}", res);
        let _ = o.flush();
    }
}
