//! C12: lists the names registered in `Environment::new()` (filters, tests, global functions) so
//! that the sweep of tools/props/C12.py covers every built-in the current tree has.
//! Output: one JSON line {"filters":[..],"tests":[..],"globals":[..]}.
use minijinja::Environment;
use serde_json::json;

/// extracts the list printed after `<field>: [` in the Debug output of the environment
fn names_after(dbg: &str, field: &str) -> Vec<String> {
    let key = format!("{}: [", field);
    let mut out = vec![];
    if let Some(p) = dbg.find(&key) {
        let rest = &dbg[p + key.len()..];
        let mut cur = String::new();
        let mut in_str = false;
        let mut esc = false;
        for ch in rest.chars() {
            if in_str {
                if esc {
                    cur.push(ch);
                    esc = false;
                } else if ch == '\\' {
                    esc = true;
                } else if ch == '"' {
                    in_str = false;
                    out.push(std::mem::take(&mut cur));
                } else {
                    cur.push(ch);
                }
            } else if ch == '"' {
                in_str = true;
            } else if ch == ']' {
                break;
            }
        }
    }
    out
}

fn main() {
    let env = Environment::new();
    let dbg = format!("{:?}", env);
    let filters = names_after(&dbg, "filters");
    let tests = names_after(&dbg, "tests");
    let mut globals: Vec<String> = env.globals().map(|x| x.0.to_string()).collect();
    globals.sort();
    println!("{}", json!({"filters": filters, "tests": tests, "globals": globals}));
}
