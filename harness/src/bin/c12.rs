//! C12: lists the names registered in `Environment::new()` (filters, tests, global functions) so
//! that the sweep of tools/props/C12.py covers every built-in the current tree has.
//! Output: one JSON line {"filters":[..],"tests":[..],"globals":[..]}.
//!
//! `c12 fmt`: JSON lines {"src":.. | "templates":{name: source, "main": ..},"ctx":..,"undefined":..} rendered by an environment with a
//! CUSTOM formatter (wrapping escape_formatter), so that every print goes through
//! `Environment::format` instead of the fast path of `Instruction::Emit`; answers
//! {"ok":text} | {"err":kind code} | {"panic":true}.
use std::io::BufRead;
use std::panic::{catch_unwind, AssertUnwindSafe};

use minijinja::{escape_formatter, Environment, UndefinedBehavior};
use serde_json::{json, Value as J};

/// extracts the list printed after `<field>: [` in the Debug output of the environment
fn names_after(dbg: &str, field: &str) -> Vec<String> {
    let key = format!("{}: [", field);
    let mut out = vec![];
    if let Some(p) = dbg.find(&key) {
        let rest = &dbg[p + key.len()..];
        let mut cur = String::new();
        let mut in_str = false;
        let mut esc = false;
        for ch in rest.chars() {
            if in_str {
                if esc {
                    cur.push(ch);
                    esc = false;
                } else if ch == '\\' {
                    esc = true;
                } else if ch == '"' {
                    in_str = false;
                    out.push(std::mem::take(&mut cur));
                } else {
                    cur.push(ch);
                }
            } else if ch == '"' {
                in_str = true;
            } else if ch == ']' {
                break;
            }
        }
    }
    out
}

fn render_with_formatter(req: &J) -> J {
    let mut env = Environment::new();
    env.set_formatter(|out, state, value| escape_formatter(out, state, value));
    env.set_undefined_behavior(match req.get("undefined").and_then(|x| x.as_str()).unwrap_or("lenient") {
        "strict" => UndefinedBehavior::Strict,
        "semistrict" => UndefinedBehavior::SemiStrict,
        "chainable" => UndefinedBehavior::Chainable,
        _ => UndefinedBehavior::Lenient,
    });
    let ctx = minijinja::Value::from(minijinja::value::Serde(req.get("ctx").cloned().unwrap_or(J::Null)));
    let r = if let Some(ts) = req.get("templates").and_then(|x| x.as_object()) {
        // several templates (extends / include / import): render "main"
        for (name, src) in ts {
            if env.add_template_owned(name.clone(), src.as_str().unwrap_or("").to_string()).is_err() {
                return json!({"load_errors": true});
            }
        }
        match env.get_template("main") {
            Ok(t) => t.render(ctx),
            Err(e) => Err(e),
        }
    } else {
        let src = req.get("src").and_then(|x| x.as_str()).unwrap_or("").to_string();
        env.render_str(&src, ctx)
    };
    match r {
        Ok(s) => json!({"ok": s}),
        Err(e) => json!({"err": mjverif::err_code(e.kind())}),
    }
}

fn main() {
    if std::env::args().nth(1).as_deref() == Some("fmt") {
        mjverif::install_quiet_panic_hook();
        for line in std::io::stdin().lock().lines() {
            let line = match line {
                Ok(l) => l,
                Err(_) => break,
            };
            if line.trim().is_empty() {
                continue;
            }
            let req: J = serde_json::from_str(&line).unwrap_or(J::Null);
            let r = catch_unwind(AssertUnwindSafe(|| render_with_formatter(&req))).unwrap_or_else(|_| json!({"panic": true}));
            println!("{}", r);
        }
        return;
    }
    let env = Environment::new();
    let dbg = format!("{:?}", env);
    let filters = names_after(&dbg, "filters");
    let tests = names_after(&dbg, "tests");
    let mut globals: Vec<String> = env.globals().map(|x| x.0.to_string()).collect();
    globals.sort();
    println!("{}", json!({"filters": filters, "tests": tests, "globals": globals}));
}
