//! C13: fuel.  Input line: prog n m k B fr ev...   (fr and the events are for the model; ignored here)
//!   B = -1: no fuel configured.
//! Output:  Ok   -> 0 same det consumed remaining np (c_i r_i)*     (consumed = remaining = -1 when fuel is off)
//!          Err  -> 1 kind det np (c_i r_i)* [-7 top]
//!                  kind = ErrorKind of the root cause (innermost minijinja::Error of the source chain);
//!                  when the error returned to the host has another kind (an include / super() wrapper),
//!                  that kind follows the marker -7
//!          panic-> 2
//! `same`: output string identical to the render without fuel; `det`: three repetitions (the third on
//! another thread) gave the identical result, levels and probe readings.  Probe readings are
//! State::fuel_levels() taken by the template function probe() while the render is running.
//! Mode `prog = -1`: describe - prints for program n the number of programs (used by the check to size its loops).
use minijinja::value::Value;
use minijinja::{context, Environment, State};
use mjverif::*;
use std::sync::{Arc, Mutex};

pub const NPROGS: i64 = 34;

fn rep(s: &str, n: i64) -> String {
    s.repeat(n.max(0) as usize)
}

/// The fixed family of template programs.  First entry is the template rendered.
fn program(id: i64, n: i64, m: i64, _k: i64) -> Vec<(String, String)> {
    let t = |name: &str, src: String| (name.to_string(), src);
    match id {
        0 => vec![t("main", String::new())],
        1 => vec![t("main", rep("{% with %}{% endwith %}", n))],
        2 => vec![t("main", rep("{% with %}{% autoescape false %}{% endautoescape %}{% endwith %}", n + 1))],
        3 => vec![t("main", format!("{}{{{{ probe() }}}}", rep("hello ", n)))],
        4 => vec![t("main", format!("{{{{ 1{} }}}}{{{{ probe() }}}}", rep(" + n * 2", m)))],
        5 => vec![t("main", "{% for i in items %}{{ i }}{{ probe() }},{% endfor %}{{ probe() }}".into())],
        6 => vec![t(
            "main",
            "{% for i in items %}{% for j in range(m) %}{{ i * j }}{% if j == k %}{{ probe() }}{% endif %}{% endfor %}|{% endfor %}".into(),
        )],
        7 => vec![t(
            "main",
            "{% if k == 0 %}zero{% elif k == 1 %}one{{ probe() }}{% elif k == 2 %}two{% else %}{{ k }}{{ probe() }}{% endif %}{{ probe() }}".into(),
        )],
        8 => vec![t(
            "main",
            format!("{{% macro f(a, b=2) %}}[{{{{ a }}}}:{{{{ b }}}}{{{{ probe() }}}}]{{% endmacro %}}{}", rep("{{ f(n) }}{{ f(1, b=k) }}", m)),
        )],
        9 => vec![t(
            "main",
            "{% macro down(x) %}{{ x }}{% if x > 0 %}{{ down(x - 1) }}{% else %}{{ probe() }}{% endif %}{% endmacro %}{{ down(n) }}{{ probe() }}".into(),
        )],
        10 => vec![t(
            "main",
            "{% macro wrap(t) %}<{{ t }}>{{ caller(t) }}</{{ t }}>{% endmacro %}{% for i in items %}{% call(x) wrap(i) %}{{ x }}{{ probe() }}{% endcall %}{% endfor %}".into(),
        )],
        11 => vec![
            t("main", "{% for i in items %}{% include 'inc' %}{% endfor %}{{ probe() }}".into()),
            t("inc", "({{ i }}{% if i == k %}{{ probe() }}{% endif %})".into()),
        ],
        12 => {
            let mut v = vec![t("main", "{{ probe() }}{% include 'inc0' %}{{ probe() }}".into())];
            for d in 0..=m {
                let body = if d < m {
                    format!("<{}{{% include 'inc{}' %}}{{{{ probe() }}}}>", d, d + 1)
                } else {
                    "leaf{{ probe() }}".to_string()
                };
                v.push(t(&format!("inc{}", d), body));
            }
            v
        }
        13 => vec![
            t("main", "{% extends 'base' %}{% block body %}child {{ n }}{{ probe() }}{% endblock %}".into()),
            t("base", "<{% block head %}head{{ probe() }}{% endblock %}|{% block body %}base{% endblock %}>{{ probe() }}".into()),
        ],
        14 => vec![
            t("main", "{% extends 'mid' %}{% block body %}c{{ super() }}{{ probe() }}{% endblock %}".into()),
            t("mid", "{% extends 'base' %}{% block body %}m{{ super() }}{% for i in items %}{{ i }}{% endfor %}{% endblock %}".into()),
            t("base", "<{% block body %}b{{ probe() }}{% endblock %}>{% block foot %}foot{{ k }}{% endblock %}".into()),
        ],
        15 => vec![
            t("main", "{% import 'lib' as lib %}{% from 'lib' import twice %}{% for i in items %}{{ lib.one(i) }}{{ twice(i) }}{% endfor %}{{ probe() }}".into()),
            t("lib", "{% macro one(x) %}{{ x }}{{ probe() }}{% endmacro %}{% macro twice(x) %}{{ one(x) }}{{ one(x) }}{% endmacro %}".into()),
        ],
        16 => vec![t(
            "main",
            "{% set cap %}{% for i in items %}{{ i }}{% endfor %}{{ probe() }}{% endset %}{% filter upper %}x{{ cap }}y{% endfilter %}{{ probe() }}".into(),
        )],
        17 => vec![t(
            "main",
            "{% for i in range(n + m) %}{% if i == k %}{% continue %}{% endif %}{% if i == n %}{{ probe() }}{% break %}{% endif %}{{ loop.cycle('a', 'b') }}{{ loop.index }}{% endfor %}".into(),
        )],
        18 => vec![t(
            "main",
            "{% for node in tree recursive %}({{ node.v }}{{ probe() }}{{ loop(node.c) }}){% endfor %}".into(),
        )],
        19 => vec![t(
            "main",
            "{{ items|map('string')|join(',') }}{{ items|select('odd')|list|length }}{{ s|upper|replace('A', 'b')|length }}{{ probe() }}{{ items|sum + (items|length) }}".into(),
        )],
        20 => vec![t(
            "main",
            "{% autoescape true %}{{ s }}{% autoescape false %}{{ s }}{{ probe() }}{% endautoescape %}{% with a = n, b = m %}{{ a + b }}{% with c = a %}{{ c }}{% endwith %}{% endwith %}{% endautoescape %}".into(),
        )],
        21 => vec![
            t("main", "{% include 'nope' ignore missing %}{% include ['nope', 'inc'] %}{% for i in items %}{% include ['inc', 'nope'] ignore missing %}{% endfor %}{{ probe() }}".into()),
            t("inc", "[{{ k }}]{{ probe() }}".into()),
        ],
        22 => vec![
            t("main", "{% macro outer(x) %}{% include 'inc' %}{% endmacro %}{% for i in items %}{{ outer(i) }}{% endfor %}{{ probe() }}".into()),
            t("inc", "{% macro inner(y) %}<{{ y }}{{ probe() }}>{% endmacro %}{{ inner(x) }}{{ inner(k) }}".into()),
        ],
        23 => vec![
            t("main", "{% extends 'base' %}{% block row %}{% for i in items %}{% include 'cell' %}{% endfor %}{{ probe() }}{% endblock %}".into()),
            t("base", "{% for r in range(m) %}[{% block row scoped %}{% endblock %}]{% endfor %}{{ probe() }}".into()),
            t("cell", "{{ r }}.{{ i }} ".into()),
        ],
        24 => vec![t(
            "main",
            "{% block title %}T{{ n }}{{ probe() }}{% endblock %}{% for i in range(m) %}{{ self.title() }}{% endfor %}{{ probe() }}".into(),
        )],
        25 => vec![t(
            "main",
            "{% set ns = namespace(x=0) %}{% for i in items %}{% set ns.x = ns.x + i %}{% endfor %}{{ ns.x }}{{ probe() }}".into(),
        )],
        26 => vec![t(
            "main",
            format!("{{{{ probe() }}}}{}{{{{ probe() }}}}{}{{{{ probe() }}}}", rep("a{{ n }}", n), rep("{{ m is defined and q is not defined }}", m)),
        )],
        27 => vec![t(
            "main",
            "{{ items[1:] }}{{ items[::-1]|first }}{{ {'a': n, 'b': [m, k]}.b[1] }}{{ [n, m, k]|max }}{{ s[:2] }}{{ probe() }}{{ d.x ~ d['y'] }}".into(),
        )],
        28 => vec![t(
            "main",
            "{% for key, value in d|items %}{{ key }}={{ value }}{% endfor %}{% for i in items %}{{ i }}{% else %}empty{{ probe() }}{% endfor %}{{ probe() }}".into(),
        )],
        29 => vec![t(
            "main",
            "{% macro g(a, b=n, c=b) %}{{ a }}{{ b }}{{ c }}{{ probe() }}{% endmacro %}{{ g(1) }}{{ g(1, 2) }}{{ probe() }}{{ g(a=k) }}{% for i in items %}{{ g(i, c=i) }}{% endfor %}".into(),
        )],
        30 => vec![t(
            "main",
            "{{ (flag and n) or m }}{{ n if flag else m }}{{ flag and probe() }}{{ (k > 1 or probe()) and 'x' }}{{ probe() }}".into(),
        )],
        31 => vec![
            t("main", "{% extends parent %}{% block body %}{% for i in items %}{{ super() }}{% endfor %}{{ probe() }}{% endblock %}".into()),
            t("p0", "A{% block body %}a{{ k }}{% endblock %}".into()),
            t("p1", "B{% block body %}{% for j in range(m) %}b{% endfor %}{{ probe() }}{% endblock %}".into()),
        ],
        // renders whose unlimited run ends in an error: the same error must come back above the threshold
        32 => vec![t(
            "main",
            "{% for i in items %}{{ i }}{% endfor %}{{ probe() }}{{ n + m }}{{ missing.attr.deeper }}tail".into(),
        )],
        _ => vec![
            t("main", "{% for i in items %}{% include 'inc' %}{% endfor %}".into()),
            t("inc", "{{ i }}{{ probe() }}{% if i == k %}{{ 1 // 0 }}{% endif %}".into()),
        ],
    }
}

fn tree(depth: i64, width: i64) -> Value {
    if depth <= 0 {
        return Value::from(Vec::<Value>::new());
    }
    let kids: Vec<Value> = (0..width.max(1).min(3))
        .map(|v| context! { v => v + 10 * depth, c => tree(depth - 1, width) })
        .collect();
    Value::from(kids)
}

type Probes = Arc<Mutex<Vec<(u64, u64)>>>;

#[derive(PartialEq, Clone, Debug)]
struct Run {
    res: Result<String, (i64, i64)>, // Err((root kind, top kind))
    levels: Option<(u64, u64)>,
    probes: Vec<(u64, u64)>,
}

fn render_once(progs: &[(String, String)], n: i64, m: i64, k: i64, fuel: Option<u64>) -> Run {
    let probes: Probes = Arc::new(Mutex::new(Vec::new()));
    let mut env = Environment::new();
    for (name, src) in progs {
        env.add_template_owned(name.clone(), src.clone()).expect("program must compile");
    }
    let p2 = probes.clone();
    env.add_function("probe", move |state: &State| -> String {
        if let Some(l) = state.fuel_levels() {
            p2.lock().unwrap().push(l);
        }
        String::new()
    });
    env.set_fuel(fuel);
    let ctx = context! {
        n => n, m => m, k => k,
        items => (0..n).collect::<Vec<i64>>(),
        flag => k % 2 == 1,
        s => "a<b&c",
        parent => format!("p{}", k % 2),
        tree => tree(m.min(3), n),
        d => context! { x => n, y => "why" },
    };
    let tmpl = env.get_template("main").expect("main");
    let r = tmpl.render_captured(ctx);
    let (res, levels) = match r {
        Ok(cap) => {
            let l = cap.state().fuel_levels();
            (Ok(cap.into_output()), l)
        }
        Err(e) => {
            let top = err_code(e.kind());
            let mut root = top;
            let mut cur: &dyn std::error::Error = &e;
            while let Some(src) = cur.source() {
                if let Some(me) = src.downcast_ref::<minijinja::Error>() {
                    root = err_code(me.kind());
                }
                cur = src;
            }
            (Err((root, top)), None)
        }
    };
    let probes = probes.lock().unwrap().clone();
    Run { res, levels, probes }
}

fn main() {
    serve(2, |c| {
        let prog = c.i64();
        let n = c.i64();
        let m = c.i64();
        let k = c.i64();
        if prog < 0 {
            return vec![NPROGS.to_string()];
        }
        let b = c.i128();
        let fuel = if b < 0 { None } else { Some(b as u64) };
        let progs = program(prog, n, m, k);
        let free = render_once(&progs, n, m, k, None);
        let r1 = render_once(&progs, n, m, k, fuel);
        let r2 = render_once(&progs, n, m, k, fuel);
        let r3 = {
            let progs = progs.clone();
            std::thread::spawn(move || render_once(&progs, n, m, k, fuel)).join()
        };
        let r3 = match r3 {
            Ok(r) => r,
            Err(_) => return vec!["2".into()],
        };
        let det = (r1 == r2 && r1 == r3) as i64;
        let mut out: Vec<String> = vec![];
        match &r1.res {
            Ok(s) => {
                out.push("0".into());
                out.push(((Ok(s.clone()) == free.res) as i64).to_string());
                out.push(det.to_string());
                match r1.levels {
                    Some((a, b)) => {
                        out.push(a.to_string());
                        out.push(b.to_string());
                    }
                    None => {
                        out.push("-1".into());
                        out.push("-1".into());
                    }
                }
            }
            Err((root, _)) => {
                out.push("1".into());
                out.push(root.to_string());
                out.push(det.to_string());
            }
        }
        out.push(r1.probes.len().to_string());
        for (a, b) in &r1.probes {
            out.push(a.to_string());
            out.push(b.to_string());
        }
        if let Err((root, top)) = &r1.res {
            if root != top {
                out.push("-7".into());
                out.push(top.to_string());
            }
        }
        out
    });
}
