//! C13: fuel.  Input line: prog n m k B fr ev...   (fr and the events are for the model; ignored here)
//!   B = -1: no fuel configured.
//! Output:  Ok   -> 0 same det consumed remaining np (c_i r_i)*     (consumed = remaining = -1 when fuel is off)
//!          Err  -> 1 kind det np (c_i r_i)* -8 eq pre [-7 top]
//!                  eq / pre: the output written before the error equals / is a prefix of what the render without fuel wrote
//!                  kind = ErrorKind of the root cause (innermost minijinja::Error of the source chain);
//!                  when the error returned to the host has another kind (an include / super() wrapper),
//!                  that kind follows the marker -7
//!          panic-> 2
//! `same`: output string identical to the render without fuel; `det`: three repetitions (the third on
//! another thread) gave the identical result, levels and probe readings.  Probe readings are
//! State::fuel_levels() taken by the template function probe() while the render is running.
//! Mode `prog = -1`: describe - prints for program n the number of programs (used by the check to size its loops).
use minijinja::{Environment, State};

#[path = "c13_common/programs.rs"]
mod programs;
use programs::*;
use mjverif::*;
use std::sync::{Arc, Mutex};

type Probes = Arc<Mutex<Vec<(u64, u64)>>>;

#[derive(PartialEq, Clone, Debug)]
struct Run {
    res: Result<String, (i64, i64)>, // Err((root kind, top kind))
    levels: Option<(u64, u64)>,
    probes: Vec<(u64, u64)>,
    /// what reached the output sink (all of it for a successful render, the part written before the error otherwise)
    written: String,
}

fn render_once(prog: i64, progs: &[(String, String)], n: i64, m: i64, k: i64, fuel: Option<u64>) -> Run {
    let probes: Probes = Arc::new(Mutex::new(Vec::new()));
    let mut env = Environment::new();
    for (name, src) in progs {
        env.add_template_owned(name.clone(), src.clone()).expect("program must compile");
    }
    let p2 = probes.clone();
    let fuel_on = fuel.is_some();
    env.add_function("probe", move |state: &State| -> String {
        match state.fuel_levels() {
            Some(l) => p2.lock().unwrap().push(l),
            // fuel is configured but this state has no tracker: recorded as levels that cannot add up
            None if fuel_on => p2.lock().unwrap().push((0, 0)),
            None => {}
        }
        String::new()
    });
    install(&mut env, prog);
    install_limits(&mut env, prog, n);
    env.set_fuel(fuel);
    let ctx = ctx(n, m, k);
    let tmpl = env.get_template("main").expect("main");
    let mut sink: Vec<u8> = Vec::new();
    let r = tmpl.render_captured_to(ctx, &mut sink);
    let written = String::from_utf8_lossy(&sink).into_owned();
    let (res, levels) = match r {
        Ok(cap) => {
            let l = cap.state().fuel_levels();
            (Ok(written.clone()), l)
        }
        Err(e) => {
            let top = err_code(e.kind());
            let mut root = top;
            let mut cur: &dyn std::error::Error = &e;
            while let Some(src) = cur.source() {
                if let Some(me) = src.downcast_ref::<minijinja::Error>() {
                    root = err_code(me.kind());
                }
                cur = src;
            }
            (Err((root, top)), None)
        }
    };
    let probes = probes.lock().unwrap().clone();
    Run { res, levels, probes, written }
}

fn main() {
    serve(2, |c| {
        let prog = c.i64();
        let n = c.i64();
        let m = c.i64();
        let k = c.i64();
        if prog < 0 {
            return vec![NPROGS.to_string()];
        }
        let b = c.i128();
        let fuel = if b < 0 { None } else { Some(b as u64) };
        let progs = program(prog, n, m, k);
        let free = render_once(prog, &progs, n, m, k, None);
        let r1 = render_once(prog, &progs, n, m, k, fuel);
        let r2 = render_once(prog, &progs, n, m, k, fuel);
        let r3 = {
            let progs = progs.clone();
            std::thread::spawn(move || render_once(prog, &progs, n, m, k, fuel)).join()
        };
        let r3 = match r3 {
            Ok(r) => r,
            Err(_) => return vec!["2".into()],
        };
        let det = (r1 == r2 && r1 == r3) as i64;
        let mut out: Vec<String> = vec![];
        match &r1.res {
            Ok(s) => {
                out.push("0".into());
                out.push(((Ok(s.clone()) == free.res) as i64).to_string());
                out.push(det.to_string());
                match r1.levels {
                    Some((a, b)) => {
                        out.push(a.to_string());
                        out.push(b.to_string());
                    }
                    None => {
                        out.push("-1".into());
                        out.push("-1".into());
                    }
                }
            }
            Err((root, _)) => {
                out.push("1".into());
                out.push(root.to_string());
                out.push(det.to_string());
            }
        }
        out.push(r1.probes.len().to_string());
        for (a, b) in &r1.probes {
            out.push(a.to_string());
            out.push(b.to_string());
        }
        if let Err((root, top)) = &r1.res {
            // -8 eq pre: the output written before the error equals / is a prefix of what the unlimited render wrote
            out.push("-8".into());
            out.push(((r1.written == free.written) as i64).to_string());
            out.push((free.written.starts_with(&r1.written) as i64).to_string());
            if root != top {
                out.push("-7".into());
                out.push(top.to_string());
            }
        }
        out
    });
}
