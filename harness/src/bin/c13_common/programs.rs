//! The fixed family of template programs of the C13 checks (shared by c13.rs and c13_trace.rs).
#![allow(dead_code)]
use minijinja::value::Value;
use minijinja::{context, Environment, State};

pub const NPROGS: i64 = 53;

pub fn rep(s: &str, n: i64) -> String {
    s.repeat(n.max(0) as usize)
}

/// The fixed family of template programs.  First entry is the template rendered.
pub fn program(id: i64, n: i64, m: i64, _k: i64) -> Vec<(String, String)> {
    let t = |name: &str, src: String| (name.to_string(), src);
    match id {
        0 => vec![t("main", String::new())],
        1 => vec![t("main", rep("{% with %}{% endwith %}", n))],
        2 => vec![t("main", rep("{% with %}{% autoescape false %}{% endautoescape %}{% endwith %}", n + 1))],
        3 => vec![t("main", format!("{}{{{{ probe() }}}}", rep("hello ", n)))],
        4 => vec![t("main", format!("{{{{ 1{} }}}}{{{{ probe() }}}}", rep(" + n * 2", m)))],
        5 => vec![t("main", "{% for i in items %}{{ i }}{{ probe() }},{% endfor %}{{ probe() }}".into())],
        6 => vec![t(
            "main",
            "{% for i in items %}{% for j in range(m) %}{{ i * j }}{% if j == k %}{{ probe() }}{% endif %}{% endfor %}|{% endfor %}".into(),
        )],
        7 => vec![t(
            "main",
            "{% if k == 0 %}zero{% elif k == 1 %}one{{ probe() }}{% elif k == 2 %}two{% else %}{{ k }}{{ probe() }}{% endif %}{{ probe() }}".into(),
        )],
        8 => vec![t(
            "main",
            format!("{{% macro f(a, b=2) %}}[{{{{ a }}}}:{{{{ b }}}}{{{{ probe() }}}}]{{% endmacro %}}{}", rep("{{ f(n) }}{{ f(1, b=k) }}", m)),
        )],
        9 => vec![t(
            "main",
            "{% macro down(x) %}{{ x }}{% if x > 0 %}{{ down(x - 1) }}{% else %}{{ probe() }}{% endif %}{% endmacro %}{{ down(n) }}{{ probe() }}".into(),
        )],
        10 => vec![t(
            "main",
            "{% macro wrap(t) %}<{{ t }}>{{ caller(t) }}</{{ t }}>{% endmacro %}{% for i in items %}{% call(x) wrap(i) %}{{ x }}{{ probe() }}{% endcall %}{% endfor %}".into(),
        )],
        11 => vec![
            t("main", "{% for i in items %}{% include 'inc' %}{% endfor %}{{ probe() }}".into()),
            t("inc", "({{ i }}{% if i == k %}{{ probe() }}{% endif %})".into()),
        ],
        12 => {
            let mut v = vec![t("main", "{{ probe() }}{% include 'inc0' %}{{ probe() }}".into())];
            for d in 0..=m {
                let body = if d < m {
                    format!("<{}{{% include 'inc{}' %}}{{{{ probe() }}}}>", d, d + 1)
                } else {
                    "leaf{{ probe() }}".to_string()
                };
                v.push(t(&format!("inc{}", d), body));
            }
            v
        }
        13 => vec![
            t("main", "{% extends 'base' %}{% block body %}child {{ n }}{{ probe() }}{% endblock %}".into()),
            t("base", "<{% block head %}head{{ probe() }}{% endblock %}|{% block body %}base{% endblock %}>{{ probe() }}".into()),
        ],
        14 => vec![
            t("main", "{% extends 'mid' %}{% block body %}c{{ super() }}{{ probe() }}{% endblock %}".into()),
            t("mid", "{% extends 'base' %}{% block body %}m{{ super() }}{% for i in items %}{{ i }}{% endfor %}{% endblock %}".into()),
            t("base", "<{% block body %}b{{ probe() }}{% endblock %}>{% block foot %}foot{{ k }}{% endblock %}".into()),
        ],
        15 => vec![
            t("main", "{% import 'lib' as lib %}{% from 'lib' import twice %}{% for i in items %}{{ lib.one(i) }}{{ twice(i) }}{% endfor %}{{ probe() }}".into()),
            t("lib", "{% macro one(x) %}{{ x }}{{ probe() }}{% endmacro %}{% macro twice(x) %}{{ one(x) }}{{ one(x) }}{% endmacro %}".into()),
        ],
        16 => vec![t(
            "main",
            "{% set cap %}{% for i in items %}{{ i }}{% endfor %}{{ probe() }}{% endset %}{% filter upper %}x{{ cap }}y{% endfilter %}{{ probe() }}".into(),
        )],
        17 => vec![t(
            "main",
            "{% for i in range(n + m) %}{% if i == k %}{% continue %}{% endif %}{% if i == n %}{{ probe() }}{% break %}{% endif %}{{ loop.cycle('a', 'b') }}{{ loop.index }}{% endfor %}".into(),
        )],
        18 => vec![t(
            "main",
            "{% for node in tree recursive %}({{ node.v }}{{ probe() }}{{ loop(node.c) }}){% endfor %}".into(),
        )],
        19 => vec![t(
            "main",
            "{{ items|map('string')|join(',') }}{{ items|select('odd')|list|length }}{{ s|upper|replace('A', 'b')|length }}{{ probe() }}{{ items|sum + (items|length) }}".into(),
        )],
        20 => vec![t(
            "main",
            "{% autoescape true %}{{ s }}{% autoescape false %}{{ s }}{{ probe() }}{% endautoescape %}{% with a = n, b = m %}{{ a + b }}{% with c = a %}{{ c }}{% endwith %}{% endwith %}{% endautoescape %}".into(),
        )],
        21 => vec![
            t("main", "{% include 'nope' ignore missing %}{% include ['nope', 'inc'] %}{% for i in items %}{% include ['inc', 'nope'] ignore missing %}{% endfor %}{{ probe() }}".into()),
            t("inc", "[{{ k }}]{{ probe() }}".into()),
        ],
        22 => vec![
            t("main", "{% macro outer(x) %}{% include 'inc' %}{% endmacro %}{% for i in items %}{{ outer(i) }}{% endfor %}{{ probe() }}".into()),
            t("inc", "{% macro inner(y) %}<{{ y }}{{ probe() }}>{% endmacro %}{{ inner(x) }}{{ inner(k) }}".into()),
        ],
        23 => vec![
            t("main", "{% extends 'base' %}{% block row %}{% for i in items %}{% include 'cell' %}{% endfor %}{{ probe() }}{% endblock %}".into()),
            t("base", "{% for r in range(m) %}[{% block row scoped %}{% endblock %}]{% endfor %}{{ probe() }}".into()),
            t("cell", "{{ r }}.{{ i }} ".into()),
        ],
        24 => vec![t(
            "main",
            "{% block title %}T{{ n }}{{ probe() }}{% endblock %}{% for i in range(m) %}{{ self.title() }}{% endfor %}{{ probe() }}".into(),
        )],
        25 => vec![t(
            "main",
            "{% set ns = namespace(x=0) %}{% for i in items %}{% set ns.x = ns.x + i %}{% endfor %}{{ ns.x }}{{ probe() }}".into(),
        )],
        26 => vec![t(
            "main",
            format!("{{{{ probe() }}}}{}{{{{ probe() }}}}{}{{{{ probe() }}}}", rep("a{{ n }}", n), rep("{{ m is defined and q is not defined }}", m)),
        )],
        27 => vec![t(
            "main",
            "{{ items[1:] }}{{ items[::-1]|first }}{{ {'a': n, 'b': [m, k]}.b[1] }}{{ [n, m, k]|max }}{{ s[:2] }}{{ probe() }}{{ d.x ~ d['y'] }}".into(),
        )],
        28 => vec![t(
            "main",
            "{% for key, value in d|items %}{{ key }}={{ value }}{% endfor %}{% for i in items %}{{ i }}{% else %}empty{{ probe() }}{% endfor %}{{ probe() }}".into(),
        )],
        29 => vec![t(
            "main",
            "{% macro g(a, b=n, c=b) %}{{ a }}{{ b }}{{ c }}{{ probe() }}{% endmacro %}{{ g(1) }}{{ g(1, 2) }}{{ probe() }}{{ g(a=k) }}{% for i in items %}{{ g(i, c=i) }}{% endfor %}".into(),
        )],
        30 => vec![t(
            "main",
            "{{ (flag and n) or m }}{{ n if flag else m }}{{ flag and probe() }}{{ (k > 1 or probe()) and 'x' }}{{ probe() }}{{ 1 < n < m + 3 }}{{ [range][0](*[1, k])|list|length }}".into(),
        )],
        31 => vec![
            t("main", "{% extends parent %}{% block body %}{% for i in items %}{{ super() }}{% endfor %}{{ probe() }}{% endblock %}".into()),
            t("p0", "A{% block body %}a{{ k }}{% endblock %}".into()),
            t("p1", "B{% block body %}{% for j in range(m) %}b{% endfor %}{{ probe() }}{% endblock %}".into()),
        ],
        // renders whose unlimited run ends in an error: the same error must come back above the threshold
        32 => vec![t(
            "main",
            "{% for i in items %}{{ i }}{% endfor %}{{ probe() }}{{ n + m }}{{ missing.attr.deeper }}tail".into(),
        )],
        33 => vec![
            t("main", "{% for i in items %}{% include 'inc' %}{% endfor %}".into()),
            t("inc", "{{ i }}{{ probe() }}{% if i == k %}{{ 1 // 0 }}{% endif %}".into()),
        ],
        // super() as an operand (CallFunction("super"), not FastSuper), position k % 6, extends chain of depth m % 3 + 1
        34 => super_chain(m.rem_euclid(3) + 1, |_level| vec![_k.rem_euclid(6)]),
        // three positions per block (all six over two adjacent levels), at every level of the chain
        35 => super_chain(m.rem_euclid(3) + 1, |level| (0..3).map(|p| (2 * p + level) % 6).collect()),
        // macros, self.block() and imported macros in value position
        36 => vec![
            t("main", "{% import 'lib' as lib %}{% macro mac(x) %}{% for i in range(x) %}m{% endfor %}{{ probe() }}{% endmacro %}\
{% block title %}T{% for i in items %}{{ i }}{% endfor %}{{ probe() }}{% endblock %}\
{% set v = mac(n) %}{{ v|upper }}{{ mac(m) ~ mac(1) }}{% if mac(k) %}y{% endif %}{{ mac(n) is string }}{{ [mac(2), mac(m)]|length }}\
{% set t = self.title() %}{{ t|upper }}{{ self.title() ~ '!' }}{{ lib.one(n)|upper }}{% set z = lib.twice(m) %}{{ z|length }}{{ probe() }}".into()),
            t("lib", "{% macro one(x) %}{% for i in range(x) %}o{% endfor %}{{ probe() }}{% endmacro %}{% macro twice(x) %}{{ one(x) }}{{ one(x)|upper }}{% endmacro %}".into()),
        ],
        // include and call blocks inside captures whose value is used
        37 => vec![
            t("main", "{% macro wrap(t) %}<{{ caller(t) }}{{ probe() }}>{% endmacro %}\
{% set v %}{% include 'inc' %}{% endset %}{{ v|upper }}{% set w %}{% call(x) wrap(n) %}{% for i in range(x) %}c{% endfor %}{% include 'inc' %}{% endcall %}{% endset %}{{ w|length }}\
{% filter upper %}{% include 'inc' %}{% call(x) wrap(m) %}{{ x }}{% endcall %}{% endfilter %}{{ probe() }}".into()),
            t("inc", "({% for i in items %}{{ i }}{% endfor %}{{ probe() }})".into()),
        ],
        // host callbacks that re-enter the interpreter: function, filter and test calling a macro
        38 => vec![t(
            "main",
            "{% macro mac(x) %}{% for i in range(x) %}m{% endfor %}{{ probe() }}{% endmacro %}{% macro yes(x) %}{% for i in items %}{% endfor %}{{ probe() }}1{% endmacro %}\
{{ callit(mac, n) }}{{ callit(mac, m)|upper }}{{ n|via(mac) }}{{ (m|via(mac)) ~ 'x' }}{% if k is okby(yes) %}t{% endif %}{{ [1, 2]|map('via', mac)|join }}{{ items|select('okby', yes)|list|length }}{{ probe() }}".into(),
        )],
        // a custom formatter that re-enters the interpreter
        39 => vec![t(
            "main",
            "{% macro mac() %}{% for i in items %}f{% endfor %}{{ probe() }}{% endmacro %}{{ {'__fmt': mac} }}{% for j in range(m) %}{{ {'__fmt': mac} }}{{ j }}{% endfor %}{{ probe() }}".into(),
        )],
        // builtins and objects whose printed form shows interpreter state: the output must not depend on the budget
        41 => vec![t(
            "main",
            "{{ debug() }}{{ probe() }}{{ debug(n, items) }}{% for i in items %}{{ loop }}{{ debug(loop) }}{{ loop.index }}{% endfor %}{{ namespace(a=n) }}{{ self }}{{ range }}{{ statedbg() }}\
{% macro mm() %}{{ debug() }}{{ statedbg() }}{% endmacro %}{{ mm }}{{ mm() }}{% block bb %}{{ debug() }}{{ self }}{{ probe() }}{% endblock %}{% set ns = namespace(x=k) %}{{ ns }}{{ debug(ns) }}{{ probe() }}".into(),
        )],
        // a block that re-enters itself through self.x(); tick() counts the activations of one render
        42 => vec![t(
            "main",
            "<{% block x %}[{% for i in range(m) %}w{% endfor %}{{ probe() }}{% if tick() < n %}{{ self.x() }}{% endif %}{% for i in range(m) %}v{% endfor %}]{% endblock %}>{{ probe() }}".into(),
        )],
        // the parent definition of x re-enters x (the most derived definition) through self.x() while super() of x is rendering it; chain depth m % 3 + 1
        43 => {
            let depth = m.rem_euclid(3) + 1;
            let name = |l: i64| if l == 0 { "main".to_string() } else { format!("p{}", l) };
            let mut v = vec![];
            for l in 0..depth {
                let body = if l % 2 == 0 { "c{{ super() }}{{ probe() }}" } else { "{% set s = super() %}({{ s }}){{ probe() }}" };
                v.push((name(l), format!("{{% extends '{}' %}}{{% block x %}}{}{{% endblock %}}", name(l + 1), body)));
            }
            v.push((name(depth), "<{% block x %}b{% for i in items %}{{ i }}{% endfor %}{{ probe() }}{% if tick() < k + 1 %}{{ self.x() }}{% for i in items %}.{% endfor %}{% endif %}{% endblock %}>{{ probe() }}".to_string()));
            v
        }
        // two blocks that call each other through self
        44 => vec![
            t("main", "{% extends 'base' %}{% block a %}A{{ super() }}{{ probe() }}{% endblock %}".into()),
            t("base", "{% block a %}a{% if tick() < n %}{{ self.b() }}{% endif %}{% for i in range(m) %}.{% endfor %}{% endblock %}|{% block b %}b{{ probe() }}{% if tick() < n + k %}{{ self.a() }}{% endif %}{% for i in range(m) %},{% endfor %}{% endblock %}{{ probe() }}".into()),
        ],
        // re-entry under super() with the inner activation doing most of the work, plus includes and value-position super()
        45 => vec![
            t("main", "{% extends 'mid' %}{% block x %}{{ super()|upper }}{% include 'inc' %}{% endblock %}".into()),
            t("mid", "{% extends 'base' %}{% block x %}m{{ super() }}{% if tick() < k %}{{ self.x() }}{% endif %}{% endblock %}".into()),
            t("base", "<{% block x %}{% if tick() < n %}{% set inner = self.x() %}{{ inner|length }}{% endif %}{% for i in items %}{% for j in range(m) %}{{ i }}{% endfor %}{% endfor %}{{ probe() }}{% endblock %}>".into()),
            t("inc", "({{ k }}{{ probe() }})".into()),
        ],
        // renders that FAIL without any fuel limit: above the threshold the same failure (kind chain, output written so far) must
        // come back, below it OutOfFuel.  46-48 run into the recursion limit (lowered to 24 + n by `install`).
        46 => vec![t(
            "main",
            "start{% macro r(x) %}{{ x }}{{ probe() }}{{ r(x + 1) }}{% endmacro %}{% for i in range(m) %}{{ i }}{% endfor %}{{ r(0) }}end".into(),
        )],
        47 => vec![
            t("main", "{{ probe() }}m{% include 'again' %}".into()),
            t("again", "{% for i in range(m) %}.{% endfor %}{{ probe() }}{% include 'again' %}".into()),
        ],
        48 => vec![t("main", format!("w{{{{ probe() }}}}{}{{{{ probe() }}}}deep{}", rep("{% with a = n %}{{ a }}{{ probe() }}", 60), rep("{% endwith %}", 60)))],
        // another failure (selected by k % 7) behind m levels of macro / include / block nesting, with output before it
        49 => {
            let fail = match _k.rem_euclid(7) {
                0 => "{{ 1 // 0 }}",
                1 => "{{ n|nosuchfilter }}",
                2 => "{{ missing.attr.deeper }}",
                3 => "{% include 'broken' %}",
                4 => "{{ nosuchfunction(n) }}",
                5 => "{{ n is nosuchtest }}",
                _ => "{{ [n] + 1 }}",
            };
            let mut v = vec![t("main", "head{% for i in items %}{{ i }}{% endfor %}{{ probe() }}{% include 'l0' %}tail".into())];
            let depth = m.rem_euclid(4);
            for l in 0..depth {
                let body = match l % 3 {
                    0 => format!("{{% macro f() %}}<{{{{ probe() }}}}{{% include 'l{}' %}}>{{% endmacro %}}a{{{{ f() }}}}", l + 1),
                    1 => format!("{{% block b %}}[{{{{ probe() }}}}{{% include 'l{}' %}}]{{% endblock %}}", l + 1),
                    _ => format!("{{% for i in range(2) %}}{{{{ i }}}}{{% endfor %}}{{{{ probe() }}}}{{% include 'l{}' %}}", l + 1),
                };
                v.push((format!("l{}", l), body));
            }
            v.push((format!("l{}", depth), format!("x{{{{ probe() }}}}{}never", fail)));
            v.push(t("broken", "b{{ probe() }}{{ 1 // 0 }}".into()));
            v
        }
        // strict undefined behaviour (set by `install`)
        50 => vec![t(
            "main",
            "{% for i in items %}{{ i }}{% endfor %}{{ probe() }}{% macro f(x) %}{{ x }}{{ probe() }}{{ x.nope }}{% endmacro %}{% if k > 2 %}{{ f(d) }}{% endif %}{{ probe() }}{{ undefinedvar }}after".into(),
        )],
        // engine-imposed size limits (selected by (k + 5 (m % 2)) % 10; inside a macro when n is odd): the failure must be the same with and without a budget
        51 => {
            let fail = match (_k + 5 * (m % 2)).rem_euclid(10) {
                0 => "{{ range(100001)|length }}",
                1 => "{{ range(0, -100001, -1)|length }}",
                2 => "{{ range(0, 200002, 2)|length }}",
                3 => "{{ range(lim)|length }}",
                4 => "{% for i in range(100001) %}{{ i }}{% endfor %}",
                5 => "{{ ('ab' * 50000001)|length }}",
                6 => "{{ 'ab' * lim2 }}",
                7 => "{{ [1]|slice(100001)|list|length }}",
                8 => "{{ '%40000d'|format(1)|length }}",
                _ => "{{ 'x'|indent(100000001)|length }}",
            };
            let inner = format!("ok{{{{ range(100000)|length }}}}{{{{ ('ab' * 5)|length }}}}{{{{ probe() }}}}{}never", fail);
            let src = if n % 2 == 1 {
                format!("{{% macro lim_mac() %}}{}{{% endmacro %}}{{% for i in items %}}{{{{ i }}}}{{% endfor %}}{{{{ probe() }}}}{{{{ lim_mac() }}}}", inner)
            } else {
                format!("{{% for i in items %}}{{{{ i }}}}{{% endfor %}}{{{{ probe() }}}}{}", inner)
            };
            vec![t("main", src)]
        }
        // templates with nothing to evaluate: text only, text split by comments, raw blocks only
        52 => vec![t(
            "main",
            match _k.rem_euclid(5) {
                0 => rep("just text ", n + 1),
                1 => rep("a{# comment #}b", n + 1),
                2 => format!("{{% raw %}}{{{{ not evaluated }}}}{}{{% endraw %}}", rep("r", n)),
                3 => format!("x{{# c #}}{{% raw %}}{{% raw2 %}}{{% endraw %}}{}{{#- d -#}}  y", rep("t", m)),
                _ => "{# only a comment #}".to_string(),
            },
        )],
        // combination: a parent block that includes and calls macros, reached through super() in value position from a macro of the child
        _ => vec![
            t("main", "{% extends 'mid' %}{% block body %}{% set s = super() %}{{ s|length }}{{ callit(deco, super()) }}{{ probe() }}{% endblock %}".into()),
            t("mid", "{% extends 'base' %}{% macro deco(x) %}<{{ x }}>{{ probe() }}{% endmacro %}{% block body %}{{ deco(super())|upper }}{% include 'inc' %}{% endblock %}".into()),
            t("base", "{% macro deco(x) %}[{{ x }}]{% endmacro %}<{% block body %}{% for i in items %}{% include 'inc' %}{% endfor %}{{ probe() }}{% endblock %}>".into()),
            t("inc", "({{ k }}{{ probe() }})".into()),
        ],
    }
}

/// `main` extends p1 extends ... extends p<depth>; every non-base level overrides block `body` and uses
/// super() in the expression positions `positions(level)`: 0 filter operand, 1 set, 2 concat operand,
/// 3 call argument, 4 test operand, 5 if condition.
fn super_chain(depth: i64, positions: impl Fn(i64) -> Vec<i64>) -> Vec<(String, String)> {
    let name = |level: i64| if level == 0 { "main".to_string() } else { format!("p{}", level) };
    let mut v = vec![];
    for level in 0..depth {
        let mut body = String::new();
        for p in positions(level) {
            body.push_str(match p {
                0 => "{{ super()|upper }}",
                1 => "{% set s = super() %}[{{ s }}]",
                2 => "{{ super() ~ 'x' }}",
                3 => "{{ dict(a=super()).a }}{{ callit(idm, super()) }}",
                4 => "{{ super() is string }}",
                _ => "{% if super() %}yes{{ probe() }}{% endif %}",
            });
        }
        v.push((
            name(level),
            format!("{{% extends '{}' %}}{{% macro idm(x) %}}{{{{ x }}}}{{% endmacro %}}{{% block body %}}{}{{{{ probe() }}}}{{% endblock %}}", name(level + 1), body),
        ));
    }
    v.push((
        name(depth),
        "{% macro idm(x) %}{{ x }}{% endmacro %}<{% block body %}{% for i in items %}{{ i }}{% if i == k %}{{ probe() }}{% endif %}{% endfor %}{{ probe() }}{% endblock %}>".to_string(),
    ));
    v
}

/// Host functions, filters, tests (and for program 39 a formatter) that re-enter the interpreter.
pub fn install_limits(env: &mut Environment<'_>, prog: i64, n: i64) {
    if (46..=48).contains(&prog) {
        env.set_recursion_limit(24 + n.max(0) as usize);
    }
    if prog == 50 {
        env.set_undefined_behavior(minijinja::UndefinedBehavior::Strict);
    }
}

pub fn install(env: &mut Environment<'_>, prog: i64) {
    let ticks = std::sync::Arc::new(std::sync::atomic::AtomicI64::new(0));
    env.add_function("tick", move || ticks.fetch_add(1, std::sync::atomic::Ordering::SeqCst));
    env.add_function("statedbg", |state: &State| format!("{:?}", state));
    env.add_function("callit", |state: &mut State, f: Value, a: Value| f.call(state, &[a]));
    env.add_filter("via", |state: &mut State, v: Value, f: Value| f.call(state, &[v]));
    env.add_test("okby", |state: &mut State, v: Value, f: Value| -> Result<bool, minijinja::Error> {
        Ok(f.call(state, &[v])?.is_true())
    });
    if prog == 39 {
        env.set_formatter(|out, state, value| {
            let f = value.get_attr("__fmt").unwrap_or(Value::UNDEFINED);
            if f.is_undefined() {
                minijinja::escape_formatter(out, state, value)
            } else {
                let r = f.call(state, &[])?;
                minijinja::escape_formatter(out, state, &r)
            }
        });
    }
}

pub fn tree(depth: i64, width: i64) -> Value {
    if depth <= 0 {
        return Value::from(Vec::<Value>::new());
    }
    let kids: Vec<Value> = (0..width.max(1).min(3))
        .map(|v| context! { v => v + 10 * depth, c => tree(depth - 1, width) })
        .collect();
    Value::from(kids)
}


/// The render context every program of the family is rendered with.
pub fn ctx(n: i64, m: i64, k: i64) -> Value {
    context! {
        n => n, m => m, k => k,
        items => (0..n).collect::<Vec<i64>>(),
        flag => k % 2 == 1,
        s => "a<b&c",
        parent => format!("p{}", k % 2),
        tree => tree(m.min(3), n),
        d => context! { x => n, y => "why" },
        lim => 100001, lim2 => 50000001,
    }
}
