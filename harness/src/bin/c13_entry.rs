//! C13, entry-point part: the same template, context and budget through every way of rendering it.
//!   input : tid n entry B
//!           tid  : 0 text only, 1 text split by comments, 2 raw block only, 3 empty, 4 text + expressions + loop,
//!                  5 a block, 6 wrapper including a text-only template, 7 wrapper extending a text-only template,
//!                  8 wrapper including a template with expressions, 9 only a comment
//!           entry: 0 Template::render_captured, 1 Template::render, 2 Environment::render_str,
//!                  3 Environment::render_named_str, 4 a second Template handle + render, 5 Template::render_captured_to,
//!                  6 Environment::template_from_str + render, 7 Environment::template_from_named_str + render
//!   output: 0 same consumed remaining     (same: output equals the render without fuel; levels -1 -1 when the entry
//!                                          point hands out no state)
//!           1 kind
//!           panic -> 2
use minijinja::{context, Environment};
use mjverif::*;

fn sources(tid: i64, n: i64) -> (String, Option<String>) {
    let rep = |s: &str, k: i64| s.repeat(k.max(0) as usize);
    match tid {
        0 => (rep("just text ", n + 1), None),
        1 => (rep("a{# comment #}b", n + 1), None),
        2 => (format!("{{% raw %}}{{{{ x }}}}{}{{% endraw %}}", rep("r", n)), None),
        3 => (String::new(), None),
        4 => ("hi {{ n }}{% for i in range(n) %}{{ i }}{% endfor %}!".to_string(), None),
        5 => ("<{% block b %}x{{ n }}{% endblock %}>".to_string(), None),
        6 => ("[{% include 'inner' %}]".to_string(), Some(rep("inner text ", n + 1))),
        7 => ("{% extends 'inner' %}".to_string(), Some(rep("parent{# c #} text", n + 1))),
        8 => ("[{% include 'inner' %}]".to_string(), Some("{{ n }}{% for i in range(n) %}.{% endfor %}".to_string())),
        _ => ("{# only a comment #}".to_string(), None),
    }
}

fn main() {
    serve(2, |c| {
        let tid = c.i64();
        let n = c.i64();
        let entry = c.i64();
        let b = c.i128();
        let (src, inner) = sources(tid, n);
        let mk = |fuel: Option<u64>| {
            let mut env = Environment::new();
            env.add_template_owned("main", src.clone()).expect("compiles");
            if let Some(i) = &inner {
                env.add_template_owned("inner", i.clone()).expect("compiles");
            }
            env.set_fuel(fuel);
            env
        };
        let free = mk(None).get_template("main").and_then(|t| t.render(context! { n => n }));
        let env = mk(if b < 0 { None } else { Some(b as u64) });
        let ctx = context! { n => n };
        let tmpl = env.get_template("main").expect("main");
        let mut levels: Option<(u64, u64)> = None;
        let res: Result<String, minijinja::Error> = match entry {
            0 => tmpl.render_captured(ctx).map(|cap| {
                levels = cap.state().fuel_levels();
                cap.into_output()
            }),
            1 => tmpl.render(ctx),
            2 => env.render_str(&src, ctx),
            3 => env.render_named_str("other-name", &src, ctx),
            4 => {
                // the same template reached through another template object of the same environment
                env.get_template("main").and_then(|t| t.render(ctx))
            }
            5 => {
                let mut w: Vec<u8> = vec![];
                tmpl.render_captured_to(ctx, &mut w).map(|cap| {
                    levels = cap.state().fuel_levels();
                    String::from_utf8_lossy(&w).into_owned()
                })
            }
            6 => env.template_from_str(&src).and_then(|t| t.render(ctx)),
            _ => env.template_from_named_str("other-name", &src).and_then(|t| t.render(ctx)),
        };
        match res {
            Ok(s) => {
                let same = matches!(&free, Ok(f) if *f == s) as i64;
                let (a, r) = levels.map(|(a, r)| (a as i128, r as i128)).unwrap_or((-1, -1));
                vec!["0".into(), same.to_string(), a.to_string(), r.to_string()]
            }
            Err(e) => vec!["1".into(), err_code(e.kind()).to_string()],
        }
    });
}
