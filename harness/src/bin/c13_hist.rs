//! C13, history part: ONE State used for a sequence of operations, fuel levels read after each.
//!   input : n m B init k op_1 .. op_k
//!           init: 0 = Template::render_captured (the state of the finished render is kept),
//!                 1 = Template::new_state (nothing evaluated yet)
//!           op  : 0..3 State::call_macro big / small / empty / mid,  4..6 State::render_block bigblock / smallblock / nest,
//!                 7 call_macro of an unknown name, 8 render_block of an unknown name
//!   output: r_0 c_0 m_0  r_1 c_1 m_1 ...      r = 0 ok, else the ErrorKind code; (c, m) = State::fuel_levels() afterwards
//!           (-1 -1 when the state has no tracker).  When init = 0 fails there is no state: output is `r_0 -2 -2`.
//!           panic -> 2
use minijinja::{context, Environment, State};
use mjverif::*;

fn source(n: i64, m: i64) -> String {
    format!(
        "{{% macro big() %}}{{% for i in range({big}) %}}x{{% endfor %}}{{% endmacro %}}\
{{% macro small() %}}y{{% endmacro %}}{{% macro empty() %}}{{% endmacro %}}\
{{% macro mid() %}}{{% for i in range({mid}) %}}m{{% endfor %}}{{{{ small() }}}}{{% endmacro %}}\
{{% if false %}}{{% block bigblock %}}{{% for i in range({big}) %}}z{{% endfor %}}{{% endblock %}}\
{{% block smallblock %}}s{{% endblock %}}{{% block nest %}}[{{{{ self.smallblock() }}}}{{% for i in range({mid}) %}}n{{% endfor %}}]{{% endblock %}}{{% endif %}}\
ok{{{{ v }}}}",
        big = 10 * n + 20,
        mid = m
    )
}

fn levels(state: &State) -> (i128, i128) {
    state.fuel_levels().map(|(a, b)| (a as i128, b as i128)).unwrap_or((-1, -1))
}

fn apply(state: &mut State, op: i64) -> i64 {
    let r = match op {
        0 => state.call_macro("big", &[]),
        1 => state.call_macro("small", &[]),
        2 => state.call_macro("empty", &[]),
        3 => state.call_macro("mid", &[]),
        4 => state.render_block("bigblock"),
        5 => state.render_block("smallblock"),
        6 => state.render_block("nest"),
        7 => state.call_macro("nosuchmacro", &[]),
        _ => state.render_block("nosuchblock"),
    };
    match r {
        Ok(_) => 0,
        Err(e) => err_code(e.kind()),
    }
}

fn main() {
    serve(2, |c| {
        let n = c.i64();
        let m = c.i64();
        let b = c.i128();
        let init = c.i64();
        let k = c.usize();
        let ops: Vec<i64> = (0..k).map(|_| c.i64()).collect();
        let mut env = Environment::new();
        env.add_template_owned("t", source(n, m)).expect("history template compiles");
        env.set_fuel(if b < 0 { None } else { Some(b as u64) });
        let tmpl = env.get_template("t").expect("t");
        let mut out: Vec<String> = vec![];
        let mut push = |r: i64, l: (i128, i128)| {
            out.push(r.to_string());
            out.push(l.0.to_string());
            out.push(l.1.to_string());
        };
        if init == 0 {
            match tmpl.render_captured(context! { v => n }) {
                Err(e) => push(err_code(e.kind()), (-2, -2)),
                Ok(mut cap) => {
                    push(0, levels(cap.state()));
                    for op in ops {
                        let (r, l) = cap.with_state_mut(|s| {
                            let r = apply(s, op);
                            (r, levels(s))
                        });
                        push(r, l);
                    }
                }
            }
        } else {
            let mut state = tmpl.new_state();
            push(0, levels(&state));
            for op in ops {
                let r = apply(&mut state, op);
                let l = levels(&state);
                push(r, l);
            }
        }
        out
    });
}
