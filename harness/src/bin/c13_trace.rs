//! C13, cost-table part: the executed instruction trace of a render (hook __verif::set_instruction_hook,
//! cargo feature `hooks`) next to what the fuel tracker reports.
//!   input : prog n m k B          a program of the C13 family, budget B (u64)
//!   output: 0 consumed remaining  N op_1 .. op_N      render succeeded
//!           1 kind                N op_1 .. op_N      render failed (kind = ErrorKind handed to the host)
//!           2                                         panic
//!           7                                         the tree under test has no instruction hook
//!   op_i = name of the i-th instruction the VM was about to execute (the observer runs before the fuel
//!   tracker is asked, so on an out-of-fuel failure the last one is the refused instruction).
use minijinja::{Environment, State};
use mjverif::*;
use std::cell::RefCell;
use std::rc::Rc;

#[path = "c13_common/programs.rs"]
mod programs;
use programs::*;

type Hook = Box<dyn for<'a, 'b> FnMut(&'a minijinja::machinery::Instruction<'b>)>;

/// Fallback found by name resolution when `minijinja::__verif` (glob-imported in the blocks below) does not
/// provide `set_instruction_hook`: the bin then still builds and answers 7.
struct Missing;
#[allow(dead_code)]
fn set_instruction_hook(_h: Option<Hook>) -> Missing {
    Missing
}
trait Avail {
    fn avail(&self) -> bool;
}
impl Avail for () {
    fn avail(&self) -> bool {
        true
    }
}
impl Avail for Missing {
    fn avail(&self) -> bool {
        false
    }
}

fn opname(instr: &minijinja::machinery::Instruction<'_>) -> String {
    let d = format!("{:?}", instr);
    d.split(|c: char| !c.is_alphanumeric()).next().unwrap_or("").to_string()
}

fn main() {
    serve(2, |c| {
        let prog = c.i64();
        let n = c.i64();
        let m = c.i64();
        let k = c.i64();
        let b = c.i128();
        let mut env = Environment::new();
        for (name, src) in program(prog, n, m, k) {
            env.add_template_owned(name, src).expect("program must compile");
        }
        env.add_function("probe", |_state: &State| -> String { String::new() });
        install(&mut env, prog);
        install_limits(&mut env, prog, n);
        env.set_fuel(if b < 0 { None } else { Some(b as u64) });
        let tmpl = env.get_template("main").expect("main");
        let trace: Rc<RefCell<Vec<String>>> = Rc::new(RefCell::new(Vec::new()));
        let t2 = trace.clone();
        let hook: Hook = Box::new(move |i| t2.borrow_mut().push(opname(i)));
        let avail = {
            #[cfg(feature = "hooks")]
            #[allow(unused_imports)]
            use minijinja::__verif::*;
            set_instruction_hook(Some(hook)).avail()
        };
        if !avail {
            return vec!["7".into()];
        }
        let r = tmpl.render_captured(ctx(n, m, k));
        {
            #[cfg(feature = "hooks")]
            #[allow(unused_imports)]
            use minijinja::__verif::*;
            let _ = set_instruction_hook(None).avail();
        }
        let mut out: Vec<String> = vec![];
        match r {
            Ok(cap) => {
                out.push("0".into());
                let (a, b) = cap.state().fuel_levels().map(|(a, b)| (a as i128, b as i128)).unwrap_or((-1, -1));
                out.push(a.to_string());
                out.push(b.to_string());
            }
            Err(e) => {
                out.push("1".into());
                out.push(err_code(e.kind()).to_string());
            }
        }
        let t = trace.borrow();
        out.push(t.len().to_string());
        out.extend(t.iter().cloned());
        out
    });
}
