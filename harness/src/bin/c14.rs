//! C14: error locations.  Three modes (first integer of the case):
//!
//! 0 flags ntpl SRC*           full pipeline: templates t0..t{n-1} served by a loader, t0 is
//!                             rendered with a fixed context, once with debug off and once on.
//!                             flags bit1 keep_trailing_newline, bit2 trim_blocks, bit3 lstrip_blocks;
//!                             bits 4-5 API: 0 loader + get_template, 1 add_template_owned, 2 template_from_str
//!                             (= render_str), 3 template_from_named_str; bit6: t0 is an *expression*
//!                             (compile_expression + eval); bits 7-8 undefined behaviour (0 lenient, 1 chainable, 2 semi-strict, 3 strict);
//!                             flags >> 12 = fuel + 1 (0 = unlimited), or with bit 9 the recursion limit.
//! 1 flags SRC                 tokenizer only (machinery::tokenize): every token span + the error
//! 2 nops (op a b c d e f)* nq q*   Instructions line/span tables driven directly
//!                             op 0 = add, 1 = add_with_line(a), 2 = add_with_span(a..f)
//! 3 flags SRC                 compile one template; the line / span recorded for every instruction
//!
//! SRC = nseg (rep len c1..clen)*   - the text is the concatenation of the segments, each
//! repeated `rep` times (so that 65 000 inserted lines stay a short case).
use std::collections::BTreeMap;
use std::panic::{catch_unwind, AssertUnwindSafe};
use std::sync::Arc;

use minijinja::machinery::{tokenize, Instruction, Instructions, Span, Token, WhitespaceConfig};
use minijinja::{context, Environment, Error, Value};
use mjverif::*;

fn read_src(c: &mut Cur) -> String {
    let nseg = c.usize();
    let mut s = String::new();
    for _ in 0..nseg {
        let rep = c.usize();
        let seg = c.str();
        for _ in 0..rep {
            s.push_str(&seg);
        }
    }
    s
}

fn tpl_index(name: &str, n: usize) -> i64 {
    // render_str / template_from_str and compile_expression name their source like this
    if (name == "<string>" || name == "<expression>") && n >= 1 {
        return 0;
    }
    if let Some(r) = name.strip_prefix('t') {
        if let Ok(i) = r.parse::<usize>() {
            if i < n {
                return i as i64;
            }
        }
    }
    -2
}

fn no_panic<F: FnOnce() -> String>(f: F) -> bool {
    catch_unwind(AssertUnwindSafe(f)).is_ok()
}

/// One located error: kind name line nlines rtag rs re range_ok line_of_range has_src src_ok fmtmask
fn describe(e: &Error, sources: &[String], out: &mut Vec<String>) {
    out.push(err_code(e.kind()).to_string());
    let idx = match e.name() {
        None => -1,
        Some(n) => tpl_index(n, sources.len()),
    };
    out.push(idx.to_string());
    out.push(e.line().unwrap_or(0).to_string());
    let named: Option<&str> = if idx >= 0 { Some(sources[idx as usize].as_str()) } else { None };
    out.push(named.map(|s| 1 + s.matches('\n').count()).unwrap_or(0).to_string());
    let tsrc = e.template_source();
    match e.range() {
        None => {
            out.push("0".into());
            out.push("0".into());
            out.push("0".into());
            out.push("1".into());
        }
        Some(r) => {
            out.push("1".into());
            out.push(r.start.to_string());
            out.push(r.end.to_string());
            // the reported source is the one the range must slice; without debug info the
            // source registered under the reported name
            let ok = match tsrc.or(named) {
                Some(s) => {
                    let rr = r.clone();
                    if r.start <= r.end && s.get(rr).is_some() {
                        1
                    } else {
                        0
                    }
                }
                None => 2,
            };
            out.push(ok.to_string());
        }
    }
    // the line on which the range starts: 1 + line feeds before it (0 when there is no usable range)
    let lor = match (e.range(), tsrc.or(named)) {
        (Some(r), Some(s)) if s.is_char_boundary(r.start.min(s.len())) && r.start <= s.len() => {
            1 + s[..r.start].matches('\n').count()
        }
        _ => 0,
    };
    out.push(lor.to_string());
    out.push(if tsrc.is_some() { "1" } else { "0" }.into());
    out.push(match (tsrc, named) {
        (Some(a), Some(b)) => {
            if a == b {
                "1"
            } else {
                "0"
            }
        }
        (None, _) => "1",
        (Some(_), None) => "2",
    }
    .into());
    let mut mask = 0;
    if !no_panic(|| format!("{}", e)) {
        mask |= 1;
    }
    if !no_panic(|| format!("{:#}", e)) {
        mask |= 2;
    }
    if !no_panic(|| format!("{:?}", e)) {
        mask |= 4;
    }
    if !no_panic(|| format!("{:#?}", e)) {
        mask |= 8;
    }
    if !no_panic(|| format!("{}", e.display_debug_info())) {
        mask |= 16;
    }
    out.push(mask.to_string());
}

fn chain(e: &Error, sources: &[String], out: &mut Vec<String>) {
    let mut errs: Vec<&Error> = vec![e];
    let mut cur: &dyn std::error::Error = e;
    while let Some(s) = cur.source() {
        if let Some(me) = s.downcast_ref::<Error>() {
            errs.push(me);
        }
        cur = s;
    }
    out.push(errs.len().to_string());
    for e in errs {
        describe(e, sources, out);
    }
}

fn pipeline(flags: i64, sources: Arc<Vec<String>>, debug: bool, out: &mut Vec<String>) {
    let mut env = Environment::new();
    env.set_debug(debug);
    env.set_keep_trailing_newline(flags & 2 != 0);
    env.set_trim_blocks(flags & 4 != 0);
    env.set_lstrip_blocks(flags & 8 != 0);
    let api = (flags >> 4) & 3;
    env.set_undefined_behavior(match (flags >> 7) & 3 {
        1 => minijinja::UndefinedBehavior::Chainable,
        2 => minijinja::UndefinedBehavior::SemiStrict,
        3 => minijinja::UndefinedBehavior::Strict,
        _ => minijinja::UndefinedBehavior::Lenient,
    });
    if flags & 512 != 0 {
        // bit 9: the number in flags >> 12 is the recursion limit instead
        env.set_recursion_limit((flags >> 12) as usize);
    } else if flags >> 12 > 0 {
        // out of fuel after (flags >> 12) - 1 units: an error at an arbitrary instruction
        env.set_fuel(Some((flags >> 12) as u64 - 1));
    }
    let srcs = sources.clone();
    env.set_loader(move |name| {
        let i = tpl_index(name, srcs.len());
        Ok(if i >= 0 { Some(srcs[i as usize].clone()) } else { None })
    });
    let mut m = BTreeMap::new();
    m.insert("a", 1);
    let mut cfg = BTreeMap::new();
    cfg.insert("mode", Value::from("bogus"));
    cfg.insert("on", Value::from(true));
    let ctx = context! { seq => vec![1, 2, 3], zero => 0, one => 1, s => "str", m => Value::from(m), cfg => Value::from(cfg) };
    let res = catch_unwind(AssertUnwindSafe(|| {
        if flags & 64 != 0 {
            // the expression API: t0 is the expression
            return match env.compile_expression(&sources[0]) {
                Err(e) => Err((1, e)),
                Ok(x) => x.eval(ctx).map(|_| String::new()).map_err(|e| (2, e)),
            };
        }
        match api {
            1 => {
                for (i, s) in sources.iter().enumerate().rev() {
                    if let Err(e) = env.add_template_owned(format!("t{}", i), s.clone()) {
                        // a broken dependency is found when it is used; only t0 fails the load
                        if i == 0 {
                            return Err((1, e));
                        }
                    }
                }
                match env.get_template("t0") {
                    Err(e) => Err((1, e)),
                    Ok(t) => t.render(ctx).map_err(|e| (2, e)),
                }
            }
            2 => match env.template_from_str(&sources[0]) {
                Err(e) => Err((1, e)),
                Ok(t) => t.render(ctx).map_err(|e| (2, e)),
            },
            3 => match env.template_from_named_str("t0", &sources[0]) {
                Err(e) => Err((1, e)),
                Ok(t) => t.render(ctx).map_err(|e| (2, e)),
            },
            _ => match env.get_template("t0") {
                Err(e) => Err((1, e)),
                Ok(t) => t.render(ctx).map_err(|e| (2, e)),
            },
        }
    }));
    match res {
        Err(_) => out.push("9".into()), // the load or the render itself panicked
        Ok(Ok(_)) => out.push("0".into()),
        Ok(Err((stage, e))) => {
            out.push(stage.to_string());
            chain(&e, &sources, out);
        }
    }
}

fn tok_code(t: &Token) -> i64 {
    match t {
        Token::TemplateData(_) => 0,
        Token::VariableStart => 1,
        Token::VariableEnd => 2,
        Token::BlockStart => 3,
        Token::BlockEnd => 4,
        Token::Ident(_) => 5,
        Token::Str(_) | Token::String(_) => 6,
        Token::Int(_) | Token::Int128(_) => 7,
        Token::Float(_) => 8,
        _ => 9,
    }
}

fn push_span(out: &mut Vec<String>, s: &Span) {
    for v in [
        s.start_line as u64,
        s.start_col as u64,
        s.start_offset as u64,
        s.end_line as u64,
        s.end_col as u64,
        s.end_offset as u64,
    ] {
        out.push(v.to_string());
    }
}

fn main() {
    serve(2, |c| {
        let mode = c.i64();
        let mut out = vec![];
        match mode {
            0 => {
                let flags = c.i64();
                let n = c.usize();
                let sources: Arc<Vec<String>> = Arc::new((0..n).map(|_| read_src(c)).collect());
                pipeline(flags, sources.clone(), false, &mut out);
                pipeline(flags, sources, true, &mut out);
            }
            1 => {
                let flags = c.i64();
                let src = read_src(c);
                let ws = WhitespaceConfig {
                    keep_trailing_newline: flags & 2 != 0,
                    lstrip_blocks: flags & 8 != 0,
                    trim_blocks: flags & 4 != 0,
                };
                let mut toks: Vec<String> = vec![];
                let mut n = 0;
                let mut err: Option<Error> = None;
                for r in tokenize(&src, false, Default::default(), ws) {
                    match r {
                        Ok((t, s)) => {
                            n += 1;
                            toks.push(tok_code(&t).to_string());
                            push_span(&mut toks, &s);
                        }
                        Err(e) => {
                            err = Some(e);
                            break;
                        }
                    }
                }
                out.push("0".into());
                out.push(n.to_string());
                out.extend(toks);
                match err {
                    None => out.push("0".into()),
                    Some(e) => {
                        out.push("1".into());
                        out.push(err_code(e.kind()).to_string());
                        out.push(e.line().unwrap_or(0).to_string());
                        match e.range() {
                            None => out.extend(["0".to_string(), "0".into(), "0".into()]),
                            Some(r) => out.extend(["1".to_string(), r.start.to_string(), r.end.to_string()]),
                        }
                    }
                }
            }
            3 => {
                // compile one template and report the location recorded for every instruction
                // (root instructions, then every block): nlines, then per instruction
                // marker_line ltag line stag sl so eo ok  (ok: the span is a valid slice whose start lies on line sl)
                let flags = c.i64();
                let src = read_src(c);
                let mut env = Environment::new();
                env.set_keep_trailing_newline(flags & 2 != 0);
                env.set_trim_blocks(flags & 4 != 0);
                env.set_lstrip_blocks(flags & 8 != 0);
                match env.template_from_named_str("t0", &src) {
                    Err(_) => out.push("1".into()),
                    Ok(t) => {
                        let ct = minijinja::machinery::get_compiled_template(&t);
                        out.push("0".into());
                        out.push((1 + src.matches('\n').count()).to_string());
                        let mut all: Vec<&Instructions> = vec![&ct.instructions];
                        all.extend(ct.blocks.values());
                        let mut recs: Vec<String> = vec![];
                        let mut n = 0;
                        for ins in all {
                            let mut i = 0u32;
                            while let Some(instr) = ins.get(i) {
                                n += 1;
                                // an identifier "uq..." carried by the instruction that occurs exactly once in the
                                // source tells which statement produced it: the line it stands on (0 = none)
                                let mut marker_line = 0usize;
                                // (Enclose lists the free variables of a macro / call body after the body: not produced where the name stands)
                                if !matches!(instr, Instruction::EmitRaw(_) | Instruction::Enclose(_)) {
                                    let js = serde_json::to_string(instr).unwrap_or_default();
                                    let mut rest = js.as_str();
                                    while let Some(p) = rest.find("uq") {
                                        let tail = &rest[p..];
                                        let len = tail.chars().take_while(|c| c.is_ascii_alphanumeric()).count();
                                        let id = &tail[..len];
                                        if src.matches(id).count() == 1 {
                                            let at = src.find(id).unwrap();
                                            // whole identifier only
                                            let after = src[at + len..].chars().next();
                                            if !after.is_some_and(|c| c.is_ascii_alphanumeric()) {
                                                marker_line = 1 + src[..at].matches('\n').count();
                                                break;
                                            }
                                        }
                                        rest = &rest[p + len.max(2)..];
                                    }
                                }
                                recs.push(marker_line.to_string());
                                match ins.get_line(i) {
                                    None => recs.extend(["0".to_string(), "0".into()]),
                                    Some(l) => recs.extend(["1".to_string(), l.to_string()]),
                                }
                                match ins.get_span(i) {
                                    None => recs.extend(["0".to_string(), "0".into(), "0".into(), "0".into(), "1".into()]),
                                    Some(sp) => {
                                        let (a, b) = (sp.start_offset as usize, sp.end_offset as usize);
                                        let ok = a <= b
                                            && src.get(a..b).is_some()
                                            && 1 + src[..a].matches('\n').count() == sp.start_line as usize
                                            && 1 + src[..b].matches('\n').count() == sp.end_line as usize;
                                        recs.extend([
                                            "1".to_string(),
                                            sp.start_line.to_string(),
                                            a.to_string(),
                                            b.to_string(),
                                            if ok { "1" } else { "0" }.into(),
                                        ]);
                                    }
                                }
                                i += 1;
                            }
                        }
                        out.push(n.to_string());
                        out.extend(recs);
                    }
                }
            }
            _ => {
                let nops = c.usize();
                let mut ins = Instructions::new("t", "");
                for _ in 0..nops {
                    let op = c.i64();
                    let v: Vec<i128> = (0..6).map(|_| c.i128()).collect();
                    match op {
                        0 => {
                            ins.add(Instruction::Swap);
                        }
                        1 => {
                            ins.add_with_line(Instruction::Swap, v[0] as u16);
                        }
                        _ => {
                            ins.add_with_span(
                                Instruction::Swap,
                                Span {
                                    start_line: v[0] as u16,
                                    start_col: v[1] as u16,
                                    start_offset: v[2] as u32,
                                    end_line: v[3] as u16,
                                    end_col: v[4] as u16,
                                    end_offset: v[5] as u32,
                                },
                            );
                        }
                    }
                }
                let nq = c.usize();
                out.push("0".into());
                for _ in 0..nq {
                    let q = c.i128() as u32;
                    match ins.get_line(q) {
                        None => out.extend(["0".to_string(), "0".into()]),
                        Some(l) => out.extend(["1".to_string(), l.to_string()]),
                    }
                    match ins.get_span(q) {
                        None => out.push("0".into()),
                        Some(s) => {
                            out.push("1".into());
                            push_span(&mut out, &s);
                        }
                    }
                }
            }
        }
        out
    });
}
