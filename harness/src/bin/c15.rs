//! C15: an environment's behaviour depends on its contents, not on its history.
//!
//! Input: `mode nsteps (op a b)*` - a history over a current environment and at most one other
//! environment (clone/original), interpreted against the real engine:
//!   0 a b  add_template(name a, source b)                      (both borrowed: leaked strings)
//!   1 a b  add_template_owned(String, String)
//!   2 a b  add_template_owned(&'static str, String)
//!   3 a b  add_template_owned(String, &'static str)
//!   4 a    remove_template      5  clear_templates      6 l  set_loader(closure l reading the clock)
//!   7 t    clock := t           8 a  get_template(a).render(ctx) on the environment itself
//!   9 r w  add_filter/add_test/add_function  (r = 2*kind + which name, w = closure variant)
//!   10 r   remove_filter/remove_test/remove_global
//!   11     clone, continue on the clone   12  clone, continue on the original   13  switch to the other
//!   14 a b render_named_str(name a | "oneoff", source b)   16 _ b render_str   17 a b template_from_named_str + render
//!   18 _ b template_from_str + render   19 _ b compile_expression + eval   20 _ b compile_expression_owned + eval
//!   21 a b template_from_named_str + undeclared_variables   22 c  set_trim_blocks(c&1), set_keep_trailing_newline(c&2)
//!   15 a b  get_template(a).render(context whose Serialize fails (b=0) / panics)
//! Output, mode 0: per step `tag val` of the operation, then what each of the 4 names renders
//! (`tag val` each; on a throw-away clone) in the current environment, then `present` + the same for the
//! other environment.  mode 1: only the last step's `tag val` and the 8 integers of the current environment after it.
//! tag 0 = rendered the integer val; 1 = error of kind val; 2 = nothing to report; 3 = non-integer
//! output of length val; 4 = the caller's own Serialize impl panicked; 5 = the integer val/4 with val%4 newlines.
use minijinja::value::{Serde, Value};
use minijinja::{Environment, Error, ErrorKind};
use mjverif::*;
use serde::ser::{Error as _, Serialize, SerializeStruct, Serializer};
use std::borrow::Cow;
use std::panic::{catch_unwind, AssertUnwindSafe};
use std::sync::atomic::{AtomicI64, Ordering};
use std::sync::Arc;

pub const NAMES: [&str; 4] = ["a", "b", "c", "d"];
pub const REG_NAMES: [[&str; 2]; 3] = [["cf", "abs"], ["ct", "odd"], ["cg", "range"]];

pub fn src_text(x: i64) -> String {
    let k = x.rem_euclid(8);
    let p = x.div_euclid(8);
    let which = p.rem_euclid(2) as usize;
    let v = p.div_euclid(2);
    match k {
        1 => format!("{{{{ {} }}}}{{% bad", p),
        2 => format!(
            "{{{{ {} }}}}{{% for x in [1,2] %}}{{% set y %}}a{{{{ 1 // 0 }}}}{{% endset %}}{{% endfor %}}",
            p
        ),
        3 => format!("{{{{ {}|{} }}}}", v, REG_NAMES[0][which]),
        4 => format!("{{{{ 1 if {} is {} else 0 }}}}", v, REG_NAMES[1][which]),
        5 => format!("{{{{ {}({})|length }}}}", REG_NAMES[2][which], v),
        6 => format!("{{% for i in [1] %}}\n{{{{ {} }}}}{{% endfor %}}", p),
        7 => format!("{{% if true %}}{{{{ {} }}}}{{% endif %}}\n", p),
        _ => format!("{{{{ {} }}}}", p),
    }
}

/// The same source as an expression (for compile_expression).
pub fn expr_text(x: i64) -> String {
    let k = x.rem_euclid(8);
    let p = x.div_euclid(8);
    let which = p.rem_euclid(2) as usize;
    let v = p.div_euclid(2);
    match k {
        1 => format!("{} +", p),
        2 => "1 // 0".to_string(),
        3 => format!("{}|{}", v, REG_NAMES[0][which]),
        4 => format!("1 if {} is {} else 0", v, REG_NAMES[1][which]),
        5 => format!("{}({})|length", REG_NAMES[2][which], v),
        _ => format!("{}", p),
    }
}

pub fn loader_fn(l: i64, now: i64, n: i64) -> Result<Option<String>, Error> {
    let x = (l * 5 + now * 3 + n * 7).rem_euclid(16);
    if x < 3 {
        Ok(None)
    } else if x == 3 {
        Err(Error::new(ErrorKind::InvalidOperation, "loader failed"))
    } else {
        Ok(Some(src_text(
            (x - 4).rem_euclid(8) + 8 * (n.rem_euclid(2) + 2 * (1000 + 10 * now + l)),
        )))
    }
}

#[derive(serde::Serialize)]
pub struct Ctx {
    x: Value,
}
pub fn ctx() -> Serde<Ctx> {
    Serde(Ctx { x: Value::from(vec![1, 2, 3]) })
}

/// A context that hands a Value to the serializer (so a value handle is registered) and then
/// fails or panics.
pub struct BadCtx(pub bool);
impl Serialize for BadCtx {
    fn serialize<S: Serializer>(&self, s: S) -> Result<S::Ok, S::Error> {
        let mut st = s.serialize_struct("BadCtx", 2)?;
        st.serialize_field("x", &Value::from(vec![1, 2, 3]))?;
        if self.0 {
            panic!("user panic in Serialize");
        }
        Err(S::Error::custom("nope"))
    }
}

pub fn enc(r: Result<String, Error>) -> (i64, i64) {
    match r {
        Ok(s) => {
            // an integer, possibly with up to 3 newline characters around it (whitespace settings)
            let nl = s.matches('\n').count() as i64;
            match s.replace('\n', "").parse::<i64>() {
                Ok(v) if nl == 0 => (0, v),
                Ok(v) if nl < 4 => (5, v * 4 + nl),
                _ => (3, s.len() as i64),
            }
        }
        Err(e) => (1, err_code(e.kind())),
    }
}

pub fn adhoc_name(a: i64) -> &'static str {
    if (0..4).contains(&a) {
        NAMES[a as usize]
    } else {
        "oneoff"
    }
}

fn leak(s: String) -> &'static str {
    Box::leak(s.into_boxed_str())
}

pub fn observe(env: &Environment<'static>, out: &mut Vec<String>) {
    let c = env.clone();
    for n in NAMES {
        let (t, v) = enc(c.get_template(n).and_then(|t| t.render(ctx())));
        out.push(t.to_string());
        out.push(v.to_string());
    }
}

pub struct World {
    pub clock: Arc<AtomicI64>,
    pub cur: Environment<'static>,
    pub other: Option<Environment<'static>>,
}

impl World {
    pub fn new() -> World {
        World { clock: Arc::new(AtomicI64::new(0)), cur: Environment::new(), other: None }
    }

    pub fn step(&mut self, op: i64, a: i64, b: i64) -> (i64, i64) {
        let name = NAMES[a.rem_euclid(4) as usize];
        let unit = (2, 0);
        let add = |r: Result<(), Error>| match r {
            Ok(()) => (2, 0),
            Err(e) => (1, err_code(e.kind())),
        };
        match op {
            0 => add(self.cur.add_template(name, leak(src_text(b)))),
            1 => add(self.cur.add_template_owned(name.to_string(), src_text(b))),
            2 => add(self.cur.add_template_owned(Cow::Borrowed(name), Cow::Owned(src_text(b)))),
            3 => add(self.cur.add_template_owned(Cow::Owned(name.to_string()), Cow::Borrowed(leak(src_text(b))))),
            4 => {
                self.cur.remove_template(name);
                unit
            }
            5 => {
                self.cur.clear_templates();
                unit
            }
            6 => {
                let clock = self.clock.clone();
                self.cur.set_loader(move |nm| match NAMES.iter().position(|x| *x == nm) {
                    Some(i) => loader_fn(a, clock.load(Ordering::SeqCst), i as i64),
                    None => Ok(None),
                });
                unit
            }
            7 => {
                self.clock.store(a, Ordering::SeqCst);
                unit
            }
            8 => enc(self.cur.get_template(name).and_then(|t| t.render(ctx()))),
            9 | 10 => {
                let kind = a.div_euclid(2);
                let rname = REG_NAMES[if (0..2).contains(&kind) { kind as usize } else { 2 }][a.rem_euclid(2) as usize];
                let w = b;
                match (op, kind) {
                    (9, 0) => self.cur.add_filter(rname, move |v: i64| v + w),
                    (9, 1) => self.cur.add_test(rname, move |v: i64| (v + w).rem_euclid(2) == 1),
                    (9, _) => self.cur.add_function(rname, move |v: i64| (0..v + w).collect::<Vec<i64>>()),
                    (_, 0) => self.cur.remove_filter(rname),
                    (_, 1) => self.cur.remove_test(rname),
                    (_, _) => self.cur.remove_global(rname),
                }
                unit
            }
            11 => {
                let c = self.cur.clone();
                self.other = Some(std::mem::replace(&mut self.cur, c));
                unit
            }
            12 => {
                self.other = Some(self.cur.clone());
                unit
            }
            13 => {
                if let Some(o) = self.other.as_mut() {
                    std::mem::swap(&mut self.cur, o);
                }
                unit
            }
            // ad-hoc entry points: a source, and (14, 17, 21) a name that may collide with a stored or
            // loader-served template (a in 0..4) or not ("oneoff")
            14 => enc(self.cur.render_named_str(adhoc_name(a), &src_text(b), ctx())),
            16 => enc(self.cur.render_str(&src_text(b), ctx())),
            17 => enc(self
                .cur
                .template_from_named_str(adhoc_name(a), leak(src_text(b)))
                .and_then(|t| t.render(ctx()))),
            18 => enc(self.cur.template_from_str(leak(src_text(b))).and_then(|t| t.render(ctx()))),
            19 => enc(self
                .cur
                .compile_expression(leak(expr_text(b)))
                .and_then(|e| e.eval(ctx()))
                .map(|v| v.to_string())),
            20 => enc(self
                .cur
                .compile_expression_owned(expr_text(b))
                .and_then(|e| e.eval(ctx()))
                .map(|v| v.to_string())),
            21 => enc(self
                .cur
                .template_from_named_str(adhoc_name(a), leak(src_text(b)))
                .map(|t| t.undeclared_variables(true).len().to_string())),
            22 => {
                let c = a.rem_euclid(4);
                self.cur.set_trim_blocks(c & 1 != 0);
                self.cur.set_keep_trailing_newline(c & 2 != 0);
                unit
            }
            15 => match self.cur.get_template(name) {
                Err(e) => (1, err_code(e.kind())),
                Ok(t) => {
                    if b != 0 {
                        match catch_unwind(AssertUnwindSafe(|| t.render(Serde(BadCtx(true))))) {
                            Err(_) => (4, 0),
                            Ok(r) => enc(r),
                        }
                    } else {
                        enc(t.render(Serde(BadCtx(false))))
                    }
                }
            },
            _ => unit,
        }
    }
}

#[allow(dead_code)]
fn main() {
    serve(2, |c| {
        let mode = c.i64();
        let _nsteps = c.usize();
        let mut w = World::new();
        let mut out: Vec<String> = vec![];
        while c.i + 3 <= c.v.len() {
            let (op, a, b) = (c.i64(), c.i64(), c.i64());
            let (t, v) = w.step(op, a, b);
            if mode == 1 {
                if c.i + 3 > c.v.len() {
                    out.push(t.to_string());
                    out.push(v.to_string());
                    observe(&w.cur, &mut out);
                }
                continue;
            }
            out.push(t.to_string());
            out.push(v.to_string());
            observe(&w.cur, &mut out);
            match &w.other {
                Some(o) => {
                    out.push("1".into());
                    observe(o, &mut out);
                }
                None => {
                    out.push("0".into());
                    for _ in 0..8 {
                        out.push("0".into());
                    }
                }
            }
        }
        out
    });
}
