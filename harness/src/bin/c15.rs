//! C15: an environment's behaviour depends on its contents, not on its history.
//!
//! Input: `mode nsteps (op a b)*` - a history over a current environment and at most one other
//! environment (clone/original), interpreted against the real engine:
//!   0 a b  add_template(name a, source b)                      (both borrowed: leaked strings)
//!   1 a b  add_template_owned(String, String)
//!   2 a b  add_template_owned(&'static str, String)
//!   3 a b  add_template_owned(String, &'static str)
//!   4 a    remove_template      5  clear_templates      6 l  set_loader(closure l reading the clock)
//!   7 t    clock := t           8 a rc  get_template(a).render(..) on the environment itself; rc = q + 4*sink + 8*thread:
//!                               context q, into a failing writer, on a thread of its own
//!   9 r w  add_filter/add_test/add_function/add_global  (r = 4*kind + which name, w = closure/value variant)
//!   10 r   remove_filter/remove_test/remove_global
//!   11     clone, continue on the clone   12  clone, continue on the original   13  switch to the other
//!   14 a b render_named_str(name a | "oneoff", source b)   16 _ b render_str   17 a b template_from_named_str + render
//!   18 _ b template_from_str + render   19 _ b compile_expression + eval   20 _ b compile_expression_owned + eval
//!   21 a b template_from_named_str + undeclared_variables   22 c  set_trim_blocks(c&1), set_keep_trailing_newline(c&2)
//!   15 a b  get_template(a).render(context whose Serialize fails (b=0) / panics)
//!   26 a b capture: render name a with the `stash` function armed (or, (b/4)%2 = 1, render_captured + State::lookup) in
//!          thread mode b%4; the value that escapes (macro / loop / namespace / caller) is the `f` of later contexts;
//!          reports `6 kind` when something escaped     27 s  the same from an ad-hoc template of form s
//!   23 a   set_formatter (odd a: a formatter that renders a template itself first)   24 a  set_auto_escape_callback (ditto)
//! Registry variants w >= 4 are callables that render a template themselves (same environment / a clone / a fresh
//! one); `site` variants w >= 4 are objects whose Display / attribute lookup / method render a template;
//! loaders l >= 4 render before answering.
//! Output, mode 0: per step `tag val` of the operation, then what each of the 4 names renders
//! (`tag val` each; on a throw-away clone) in the current environment, then `present` + the same for the
//! other environment.  mode 1: only the last step's `tag val` and the 8 integers of the current environment after it.
//! tag 0 = rendered the integer val; 1 = error of kind val; 2 = nothing to report; 3 = non-integer
//! output of length val; 4 = the caller's own Serialize impl panicked; 5 = the integer val/4 with val%4 newlines.
use minijinja::value::{Kwargs, Object, Serde, Value};
use minijinja::State;
use std::fmt;
use minijinja::{Environment, Error, ErrorKind};
use mjverif::*;
use serde::ser::{Error as _, Serialize, SerializeStruct, Serializer};
use std::borrow::Cow;
use std::panic::{catch_unwind, AssertUnwindSafe};
use std::sync::atomic::{AtomicI64, Ordering};
use std::sync::{Arc, Mutex};

/// Template names: an opaque string each - two spellings are two names.  The first four are observed
/// after every step; the others are further spellings (leading `//`, trailing `/`, `..` segments, case,
/// unicode NFC / NFD, ...) used by add / get / remove / loader.
pub const NAMES: [&str; 12] =
    ["a", "./a", "b", "/b", "//a", "a/", "b/../a", "A", "\u{e9}", "e\u{301}", "./b", ".//a"];
pub const UNIVERSE: usize = 4;
pub const REG_NAMES: [[&str; 4]; 3] = [["cf", "abs", "kf", "cf3"], ["ct", "odd", "kt", "ct3"], ["cg", "range", "site", "kw"]];

pub fn src_text(x: i64) -> String {
    let k = x.rem_euclid(16);
    let p = x.div_euclid(16);
    match k {
        1 => format!("{{{{ {} }}}}{{% bad", p),
        2 => format!(
            "{{{{ {} }}}}{{% for x in [1,2] %}}{{% set y %}}a{{{{ 1 // 0 }}}}{{% endset %}}{{% endfor %}}",
            p
        ),
        // the global `site` printed / asked for an attribute / called, under an explicit auto-escape mode
        15 => format!(
            "{{% autoescape {} %}}{{{{ {} }}}}{{% endautoescape %}}",
            ESCAPE_MODES[p.div_euclid(3).rem_euclid(3) as usize],
            expr_text(x)
        ),
        6 => format!("{{% for i in [1] %}}\n{{{{ {} }}}}{{% endfor %}}", p),
        7 => format!("{{% if true %}}{{{{ {} }}}}{{% endif %}}\n", p),
        0 if p.rem_euclid(4) == 3 => macro_page(p.div_euclid(4)),
        _ => format!("{{{{ {} }}}}", expr_text(x)),
    }
}

/// A template that lets a render-local value ESCAPE (hands it to the user function `stash`, and leaves
/// it where State::lookup finds it) and that calls the value `f` of its context if there is one:
/// form 0 a macro, 1 the loop object, 2 a namespace, 3 the caller of a call block.
pub fn macro_page(form: i64) -> String {
    let head = match form.rem_euclid(4) {
        0 => "{% macro hello() %}{{ 100 + q }}{% endmacro %}{{ stash(hello, 1) }}",
        1 => "{% for i in [1, 2] %}{% if loop.first %}{{ stash(loop, 2) }}{% endif %}{% endfor %}",
        2 => "{% set ns = namespace(v=7) %}{{ stash(ns, 3) }}",
        _ => "{% macro m() %}{{ stash(caller, 4) }}{% endmacro %}{% call m() %}x{% endcall %}",
    };
    format!("{}{{% if f is defined %}}{{{{ f() }}}}{{% else %}}{{{{ 100 + q }}}}{{% endif %}}", head)
}

/// The same source as an expression (for compile_expression).
pub fn expr_text(x: i64) -> String {
    let k = x.rem_euclid(16);
    let p = x.div_euclid(16);
    let which = p.rem_euclid(2) as usize;
    let v = p.div_euclid(2);
    match k {
        1 => format!("{} +", p),
        2 => "1 // 0".to_string(),
        3 => format!("{}|{}", v, REG_NAMES[0][which]),
        4 => format!("1 if {} is {} else 0", v, REG_NAMES[1][which]),
        5 => format!("{}({})|length", REG_NAMES[2][which], v),
        // a global holding a container: printed / serialized to JSON (fails when a key is not a string)
        8 => "(site|string)|length".to_string(),
        9 => "(site|tojson)|length".to_string(),
        // user function / filter / test taking Kwargs; the keyword arguments are all literals
        10 => format!("kw(q, {}, opt=1)", p),
        11 => format!("q|kf({}, opt=1)", p),
        // a container of the (reused) context
        12 => "(data|tojson)|length".to_string(),
        13 => "(data|string)|length".to_string(),
        14 => "1 if q is kt(opt=1) else 0".to_string(),
        15 => ["site", "site.n", "site.go(1)"][p.rem_euclid(3) as usize].to_string(),
        0 if p.rem_euclid(4) == 3 => "f() if f is defined else 100 + q".to_string(),
        _ => format!("{}", p),
    }
}

pub const ESCAPE_MODES: [&str; 3] = ["'none'", "'html'", "'json'"];

// ---- nested / re-entrant renders: user callables that render a template themselves ----
/// A plain object with its own Display.
#[derive(Debug)]
struct PlainObj;
impl Object for PlainObj {
    fn render(self: &Arc<Self>, f: &mut fmt::Formatter<'_>) -> fmt::Result {
        f.write_str("<obj&>")
    }
}

/// The inner render: prints a list, a map, a string, a number, a bool, none and an object under the
/// given auto-escape mode.
pub fn inner_render(env: &Environment<'_>, imode: i64) -> Result<String, Error> {
    let src = format!(
        "{{% autoescape {} %}}{{{{ l }}}}|{{{{ m }}}}|{{{{ s }}}}|{{{{ n }}}}|{{{{ b }}}}|{{{{ z }}}}|{{{{ o }}}}{{% endautoescape %}}",
        ESCAPE_MODES[imode.rem_euclid(3) as usize]
    );
    let ctx = minijinja::context! {
        l => vec![1, 2, 3],
        m => map_of(vec![(Value::from("a"), Value::from("<b>"))]),
        s => "<i>&",
        n => 42,
        b => true,
        z => (),
        o => Value::from_object(PlainObj),
    };
    env.render_named_str("inner", &src, ctx)
}

/// An environment that has nothing to do with any history: created once per process, never changed.
pub fn unrelated_env() -> &'static Environment<'static> {
    static ENV: std::sync::OnceLock<Environment<'static>> = std::sync::OnceLock::new();
    ENV.get_or_init(Environment::new)
}

/// Inner render started from a callable that has the State: on the same environment (0), on a clone
/// made right now (1), on a fresh environment (2).  Returns the length of what it rendered.
pub fn nested_len(state: &State, wher: i64, imode: i64) -> Result<i64, Error> {
    let s = match wher.rem_euclid(3) {
        0 => inner_render(state.env(), imode),
        1 => inner_render(&state.env().clone(), imode),
        _ => inner_render(&Environment::new(), imode),
    };
    s.map(|s| s.len() as i64)
}

/// Inner render started where there is no State (Display, attribute lookup, callbacks): on a fresh
/// environment (0) or on the unrelated long-lived one (1).
pub fn nested_text(wher: i64, imode: i64) -> Result<String, Error> {
    if wher.rem_euclid(2) == 0 {
        inner_render(&Environment::new(), imode)
    } else {
        inner_render(unrelated_env(), imode)
    }
}

/// An object that prints itself through a template of its own (`{{ site }}`), computes an attribute by
/// rendering (`site.n`) and has a method that renders on the calling environment (`site.go(1)`).
#[derive(Debug)]
pub struct Nest {
    wher: i64,
    imode: i64,
}
impl Object for Nest {
    fn render(self: &Arc<Self>, f: &mut fmt::Formatter<'_>) -> fmt::Result {
        let s = nested_text(self.wher, self.imode).map_err(|_| fmt::Error)?;
        f.write_str(&s)
    }
    fn get_value(self: &Arc<Self>, key: &Value) -> Option<Value> {
        if key.as_str() == Some("n") {
            Some(Value::from(nested_text(self.wher, self.imode).map(|s| s.len() as i64).unwrap_or(-1)))
        } else {
            None
        }
    }
    fn call_method(self: &Arc<Self>, state: &mut State<'_, '_>, method: &str, _args: &[Value]) -> Result<Value, Error> {
        if method == "go" {
            nested_len(state, self.wher, self.imode).map(Value::from)
        } else {
            Err(Error::new(ErrorKind::UnknownMethod, "no such method"))
        }
    }
}

pub fn loader_fn(l: i64, now: i64, n: i64) -> Result<Option<String>, Error> {
    if l >= 4 {
        // a loader callback that renders something itself before it answers
        let _ = nested_text(l, l.div_euclid(4));
    }
    let x = (l * 5 + now * 3 + n * 7).rem_euclid(16);
    if x < 3 {
        Ok(None)
    } else if x == 3 {
        Err(Error::new(ErrorKind::InvalidOperation, "loader failed"))
    } else {
        Ok(Some(src_text(
            (x - 4).rem_euclid(12) + 16 * (n.rem_euclid(2) + 2 * (1000 + 10 * now + l)),
        )))
    }
}

#[derive(serde::Serialize)]
pub struct Ctx {
    // `data` is the first embedded Value of the conversion (value handle 1)
    data: Value,
    x: Value,
    q: i64,
    #[serde(skip_serializing_if = "Option::is_none")]
    f: Option<Value>,
}
/// The context of a render: `q` varies between renders, `data` is one container object (with a key
/// JSON cannot represent) that is reused by every render of a world.
pub fn ctx_of(q: i64, data: &Value) -> Serde<Ctx> {
    ctx_f(q, data, &None)
}
/// ... with `f`: a value that escaped from an earlier render (a macro, a loop object, a namespace, a caller).
pub fn ctx_f(q: i64, data: &Value, f: &Option<Value>) -> Serde<Ctx> {
    Serde(Ctx { data: data.clone(), x: Value::from_safe_string("<b>".into()), q, f: f.clone() })
}

/// Where escaped values are kept: `stash(value, kind)` stores only while a capture operation is running.
#[derive(Default)]
pub struct Slot {
    pub armed: bool,
    pub val: Option<(Value, i64)>,
}

/// Runs `go` on the main thread (0), on a fresh thread (1), or on a fresh thread that has rendered 1 (2)
/// or 3 (3) other templates before.
pub fn on_thread<T: Send>(tm: i64, go: impl FnOnce() -> T + Send) -> Option<T> {
    match tm.rem_euclid(4) {
        0 => Some(go()),
        tm => std::thread::scope(|s| {
            s.spawn(move || {
                for _ in 0..[0, 0, 1, 3][tm as usize] {
                    let _ = unrelated_env().render_str("{{ 1 }}", ());
                }
                go()
            })
            .join()
            .ok()
        }),
    }
}

fn map_of(pairs: Vec<(Value, Value)>) -> Value {
    Value::from(pairs.into_iter().collect::<std::collections::BTreeMap<Value, Value>>())
}
pub fn data_value() -> Value {
    map_of(vec![(Value::from("k"), map_of(vec![(Value::from(vec![1, 2]), Value::from("pair"))]))])
}
/// The container held by the global `site`, by variant.
pub fn site_value(w: i64) -> Value {
    match w {
        1 => map_of(vec![
            (Value::from("name"), Value::from("demo")),
            (Value::from("by_pos"), map_of(vec![(Value::from(vec![1, 2]), Value::from("pair"))])),
        ]),
        2 => map_of(vec![(Value::from("name"), Value::from("demo")), (Value::from("items"), Value::from(vec![1, 2, 3]))]),
        w if w >= 4 => Value::from_object(Nest { wher: (w - 4).rem_euclid(2), imode: (w - 4).div_euclid(2).rem_euclid(3) }),
        _ => Value::from(vec![map_of(vec![(Value::from(()), Value::from(1))]), Value::from(2)]),
    }
}

/// A writer that refuses every write.
pub struct FailingSink;
impl std::io::Write for FailingSink {
    fn write(&mut self, _buf: &[u8]) -> std::io::Result<usize> {
        Err(std::io::Error::new(std::io::ErrorKind::Other, "sink failed"))
    }
    fn flush(&mut self) -> std::io::Result<()> {
        Ok(())
    }
}

/// One render call: rc = q + 4*sink + 8*thread: context q = rc%4; into a failing writer; thread mode
/// (rc/8)%4 (see on_thread).  `f` = the escaped value passed in the context, if any.
pub fn render_call(env: &Environment<'static>, name: &str, rc: i64, data: &Value, f: &Option<Value>) -> (i64, i64) {
    let q = rc.rem_euclid(4);
    let sink = rc.div_euclid(4).rem_euclid(2) == 1;
    let go = || {
        enc(env.get_template(name).and_then(|t| {
            if sink {
                t.render_captured_to(ctx_f(q, data, f), FailingSink).map(|_| "0".to_string())
            } else {
                t.render(ctx_f(q, data, f))
            }
        }))
    };
    on_thread(rc.div_euclid(8), go).unwrap_or((4, 1))
}

/// A context that hands a Value to the serializer (so a value handle is registered) and then
/// fails or panics.
pub struct BadCtx(pub bool);
fn secret() -> Value {
    map_of(vec![(Value::from("secret"), Value::from("s3cr3t of another request"))])
}
impl Serialize for BadCtx {
    fn serialize<S: Serializer>(&self, s: S) -> Result<S::Ok, S::Error> {
        let mut st = s.serialize_struct("BadCtx", 2)?;
        st.serialize_field("x", &secret())?;
        if self.0 {
            panic!("user panic in Serialize");
        }
        Err(S::Error::custom("nope"))
    }
}
/// The documented way to get a context that cannot be converted: flattening a Value.
#[derive(serde::Serialize)]
pub struct FlattenCtx {
    title: String,
    #[serde(flatten)]
    extra: Value,
}

pub fn enc(r: Result<String, Error>) -> (i64, i64) {
    match r {
        Ok(s) => {
            // an integer, possibly with up to 3 newline characters around it (whitespace settings)
            let nl = s.matches('\n').count() as i64;
            match s.replace('\n', "").parse::<i64>() {
                Ok(v) if nl == 0 => (0, v),
                Ok(v) if nl < 4 => (5, v * 4 + nl),
                _ => (3, s.len() as i64),
            }
        }
        Err(e) => (1, err_code(e.kind())),
    }
}

pub fn adhoc_name(a: i64) -> &'static str {
    if (0..12).contains(&a) {
        NAMES[a as usize]
    } else {
        "oneoff"
    }
}

fn leak(s: String) -> &'static str {
    Box::leak(s.into_boxed_str())
}

pub fn observe(env: &Environment<'static>, data: &Value, f: &Option<Value>, out: &mut Vec<String>) {
    let c = env.clone();
    for n in &NAMES[..UNIVERSE] {
        let (t, v) = catch_unwind(AssertUnwindSafe(|| enc(c.get_template(n).and_then(|t| t.render(ctx_f(0, data, f))))))
            .unwrap_or((4, 1));
        out.push(t.to_string());
        out.push(v.to_string());
    }
}

pub struct World {
    pub slot: Arc<Mutex<Slot>>,
    pub data: Value,
    pub clock: Arc<AtomicI64>,
    pub cur: Environment<'static>,
    pub other: Option<Environment<'static>>,
}

impl World {
    pub fn new() -> World {
        let slot: Arc<Mutex<Slot>> = Arc::default();
        let mut cur = Environment::new();
        let sl = slot.clone();
        // a user function through which render-local values can leave a render
        cur.add_function("stash", move |v: Value, kind: i64| -> String {
            let mut g = sl.lock().unwrap();
            if g.armed {
                g.val = Some((v, kind));
            }
            String::new()
        });
        World { slot, data: data_value(), clock: Arc::new(AtomicI64::new(0)), cur, other: None }
    }

    /// The escaped value later renders get as `f`.
    pub fn f(&self) -> Option<Value> {
        self.slot.lock().unwrap().val.as_ref().map(|x| x.0.clone())
    }

    /// Capture: render (template given by `get`) with the stash armed, or take the value out of the
    /// captured state with State::lookup; the value found replaces the escaped value.
    fn capture<'a>(
        &'a self,
        tm: i64,
        lookup: bool,
        get: impl FnOnce(&'a Environment<'static>) -> Result<minijinja::Template<'a, 'a>, Error> + Send,
    ) -> (i64, i64) {
        let f_old = self.f();
        {
            let mut g = self.slot.lock().unwrap();
            g.val = None;
            g.armed = !lookup;
        }
        let (env, data) = (&self.cur, &self.data);
        let r = on_thread(tm, move || match get(env) {
            Err(e) => (Err(e), None),
            Ok(t) => match t.render_captured(ctx_f(0, data, &f_old)) {
                Err(e) => (Err(e), None),
                Ok(c) => {
                    let found = if lookup {
                        c.state().lookup("hello").map(|v| (v, 1)).or_else(|| c.state().lookup("ns").map(|v| (v, 3)))
                    } else {
                        None
                    };
                    (Ok(c.output().to_string()), found)
                }
            },
        });
        let mut g = self.slot.lock().unwrap();
        g.armed = false;
        match r {
            None => (4, 1),
            Some((res, found)) => {
                if lookup {
                    g.val = found;
                }
                match &g.val {
                    Some((_, kind)) => (6, *kind),
                    None => enc(res),
                }
            }
        }
    }

    pub fn step(&mut self, op: i64, a: i64, b: i64) -> (i64, i64) {
        let name = NAMES[a.rem_euclid(12) as usize];
        let unit = (2, 0);
        let add = |r: Result<(), Error>| match r {
            Ok(()) => (2, 0),
            Err(e) => (1, err_code(e.kind())),
        };
        match op {
            0 => add(self.cur.add_template(name, leak(src_text(b)))),
            1 => add(self.cur.add_template_owned(name.to_string(), src_text(b))),
            2 => add(self.cur.add_template_owned(Cow::Borrowed(name), Cow::Owned(src_text(b)))),
            3 => add(self.cur.add_template_owned(Cow::Owned(name.to_string()), Cow::Borrowed(leak(src_text(b))))),
            4 => {
                self.cur.remove_template(name);
                unit
            }
            5 => {
                self.cur.clear_templates();
                unit
            }
            6 => {
                let clock = self.clock.clone();
                self.cur.set_loader(move |nm| match NAMES.iter().position(|x| *x == nm) {
                    Some(i) => loader_fn(a, clock.load(Ordering::SeqCst), i as i64),
                    None => Ok(None),
                });
                unit
            }
            7 => {
                self.clock.store(a, Ordering::SeqCst);
                unit
            }
            8 => render_call(&self.cur, name, b, &self.data, &self.f()),
            // values escaping a render: of a stored template (26: thread mode b%4, (b/4)%2 = via State::lookup instead of
            // the stash function) or of an ad-hoc one (27)
            26 => self.capture(b, b.div_euclid(4).rem_euclid(2) == 1, move |env| env.get_template(name)),
            27 => {
                let src = leak(macro_page(a));
                self.capture(0, false, move |env| env.template_from_str(src))
            }
            9 | 10 => {
                let kind = if (0..2).contains(&a.div_euclid(4)) { a.div_euclid(4) } else { 2 };
                let which = a.rem_euclid(4);
                let rname = REG_NAMES[kind as usize][which as usize];
                let w = b;
                match (op, kind, which) {
                    (9, 0, 2) => self.cur.add_filter(rname, move |v: i64, x: i64, kw: Kwargs| -> Result<i64, Error> {
                        let r = if (v + w).rem_euclid(2) == 1 { x + kw.get::<i64>("opt")? } else { x };
                        kw.assert_all_used()?;
                        Ok(r)
                    }),
                    (9, 0, _) if w >= 4 => self.cur.add_filter(rname, move |state: &State, v: i64| -> Result<i64, Error> {
                        Ok(v + nested_len(state, w - 4, (w - 4).div_euclid(3))?)
                    }),
                    (9, 0, _) => self.cur.add_filter(rname, move |v: i64| v + w),
                    (9, 1, 2) => self.cur.add_test(rname, move |v: i64, kw: Kwargs| -> Result<bool, Error> {
                        let r = if (v + w).rem_euclid(2) == 1 { kw.get::<i64>("opt")? == 1 } else { false };
                        kw.assert_all_used()?;
                        Ok(r)
                    }),
                    (9, 1, _) if w >= 4 => self.cur.add_test(rname, move |state: &State, v: i64| -> Result<bool, Error> {
                        Ok((v + nested_len(state, w - 4, (w - 4).div_euclid(3))?).rem_euclid(2) == 1)
                    }),
                    (9, 1, _) => self.cur.add_test(rname, move |v: i64| (v + w).rem_euclid(2) == 1),
                    (9, _, 2) => self.cur.add_global(rname, site_value(w)),
                    (9, _, 3) => self.cur.add_function(rname, move |q: i64, x: i64, kw: Kwargs| -> Result<i64, Error> {
                        let r = if (q + w).rem_euclid(2) == 1 { x + kw.get::<i64>("opt")? } else { x };
                        kw.assert_all_used()?;
                        Ok(r)
                    }),
                    (9, _, _) if w >= 4 => self.cur.add_function(rname, move |state: &State, v: i64| -> Result<Vec<i64>, Error> {
                        Ok((0..v + nested_len(state, w - 4, (w - 4).div_euclid(3))?).collect())
                    }),
                    (9, _, _) => self.cur.add_function(rname, move |v: i64| (0..v + w).collect::<Vec<i64>>()),
                    (_, 0, _) => self.cur.remove_filter(rname),
                    (_, 1, _) => self.cur.remove_test(rname),
                    (_, _, _) => self.cur.remove_global(rname),
                }
                unit
            }
            11 => {
                let c = self.cur.clone();
                self.other = Some(std::mem::replace(&mut self.cur, c));
                unit
            }
            12 => {
                self.other = Some(self.cur.clone());
                unit
            }
            13 => {
                if let Some(o) = self.other.as_mut() {
                    std::mem::swap(&mut self.cur, o);
                }
                unit
            }
            // ad-hoc entry points: a source, and (14, 17, 21) a name that may collide with a stored or
            // loader-served template (a in 0..4) or not ("oneoff")
            14 => enc(self.cur.render_named_str(adhoc_name(a), &src_text(b), ctx_of(0, &self.data))),
            16 => enc(self.cur.render_str(&src_text(b), ctx_of(0, &self.data))),
            17 => enc(self
                .cur
                .template_from_named_str(adhoc_name(a), leak(src_text(b)))
                .and_then(|t| t.render(ctx_of(0, &self.data)))),
            18 => enc(self.cur.template_from_str(leak(src_text(b))).and_then(|t| t.render(ctx_of(0, &self.data)))),
            19 => enc(self
                .cur
                .compile_expression(leak(expr_text(b)))
                .and_then(|e| e.eval(ctx_of(0, &self.data)))
                .map(|v| v.to_string())),
            20 => enc(self
                .cur
                .compile_expression_owned(expr_text(b))
                .and_then(|e| e.eval(ctx_of(0, &self.data)))
                .map(|v| v.to_string())),
            21 => enc(self
                .cur
                .template_from_named_str(adhoc_name(a), leak(src_text(b)))
                .map(|t| t.undeclared_variables(true).len().to_string())),
            22 => {
                let c = a.rem_euclid(4);
                self.cur.set_trim_blocks(c & 1 != 0);
                self.cur.set_keep_trailing_newline(c & 2 != 0);
                unit
            }
            // callbacks that render something themselves and then do what the default does
            23 => {
                if a.rem_euclid(2) == 1 {
                    self.cur.set_formatter(move |out, state, value| {
                        let _ = nested_text(1, a.div_euclid(2));
                        minijinja::escape_formatter(out, state, value)
                    });
                } else {
                    self.cur.set_formatter(minijinja::escape_formatter);
                }
                unit
            }
            24 => {
                self.cur.set_auto_escape_callback(move |name| {
                    let _ = nested_text(1, a);
                    minijinja::default_auto_escape_callback(name)
                });
                unit
            }
            // a render whose Serde context fails to convert: b%4 = 0 a Serialize impl that errors after handing
            // out a Value, 1 one that panics, 2 / 3 #[serde(flatten)] of a map / of a safe string; thread mode (b/4)%4
            15 => {
                let cur = &self.cur;
                on_thread(b.div_euclid(4), move || match cur.get_template(name) {
                    Err(e) => (1, err_code(e.kind())),
                    Ok(t) => match b.rem_euclid(4) {
                        1 => match catch_unwind(AssertUnwindSafe(|| t.render(Serde(BadCtx(true))))) {
                            Err(_) => (4, 0),
                            Ok(r) => enc(r),
                        },
                        0 => enc(t.render(Serde(BadCtx(false)))),
                        2 => enc(t.render(Serde(FlattenCtx { title: "Oops".into(), extra: secret() }))),
                        _ => enc(t.render(Serde(FlattenCtx {
                            title: "Oops".into(),
                            extra: Value::from_safe_string("<i>".into()),
                        }))),
                    },
                })
                .unwrap_or((4, 1))
            }
            _ => unit,
        }
    }
}

#[allow(dead_code)]
fn main() {
    serve(2, |c| {
        let mode = c.i64();
        let _nsteps = c.usize();
        let mut w = World::new();
        let mut out: Vec<String> = vec![];
        while c.i + 3 <= c.v.len() {
            let (op, a, b) = (c.i64(), c.i64(), c.i64());
            // a panic inside the engine is reported as (4, 1) for that step
            let (t, v) = catch_unwind(AssertUnwindSafe(|| w.step(op, a, b))).unwrap_or((4, 1));
            if mode == 1 {
                if c.i + 3 > c.v.len() {
                    out.push(t.to_string());
                    out.push(v.to_string());
                    observe(&w.cur, &w.data, &w.f(), &mut out);
                }
                continue;
            }
            out.push(t.to_string());
            out.push(v.to_string());
            observe(&w.cur, &w.data, &w.f(), &mut out);
            match &w.other {
                Some(o) => {
                    out.push("1".into());
                    observe(o, &w.data, &w.f(), &mut out);
                }
                None => {
                    out.push("0".into());
                    for _ in 0..8 {
                        out.push("0".into());
                    }
                }
            }
        }
        out
    });
}
