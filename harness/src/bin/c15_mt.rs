//! C15, concurrent part (exploration): the history of the input line (same format as c15.rs) is run
//! sequentially; then 8 threads share `&Environment`.  Every thread first dirties its own
//! thread-local state (code generator buffer pools, the serialization flag and value-handle registry)
//! with renders that fail at compile time, at run time, while serializing the context, and with a
//! context whose Serialize impl panics; after a barrier all threads render every name from the shared
//! environment for several rounds, while the odd threads also clone the environment and mutate their
//! clone (registries through Arc::make_mut, templates) in between.
//! Output: 8 integers (what the 4 names render, observed sequentially before the threads start), then
//! the same 8 integers for every thread and round, then once more sequentially afterwards.  All
//! groups have to be equal.
#[allow(dead_code)]
#[path = "c15.rs"]
mod base;
use base::*;
use minijinja::value::{Serde, Value};
use minijinja::Environment;
use mjverif::*;
use std::panic::{catch_unwind, AssertUnwindSafe};
use std::sync::Barrier;

const THREADS: usize = 8;
const ROUNDS: usize = 3;

fn render_all(env: &Environment<'static>, data: &Value, out: &mut Vec<String>) {
    for n in &NAMES[..UNIVERSE] {
        let (t, v) = enc(env.get_template(n).and_then(|t| t.render(ctx_of(0, data))));
        out.push(t.to_string());
        out.push(v.to_string());
    }
}

fn dirty(env: &Environment<'static>, i: usize) {
    let data = data_value();
    let ctx = || ctx_of(1, &data);
    for k in 0..(2 + i % 3) {
        let _ = env.render_named_str("bad", &src_text(1 + 16 * k as i64), ctx());
        let _ = env.render_named_str("bad", &src_text(2 + 16 * k as i64), ctx());
        let _ = env.render_named_str("bad", &src_text(3 + 16 * 2), Serde(BadCtx(false)));
        let _ = catch_unwind(AssertUnwindSafe(|| env.render_named_str("bad", &src_text(16), Serde(BadCtx(true)))));
        let _ = env.render_named_str("bad", &src_text(12), ctx());
        let _ = env.render_named_str("bad", &src_text(9), ctx());
    }
}

fn main() {
    serve(2, |c| {
        let _mode = c.i64();
        let _nsteps = c.usize();
        let mut w = World::new();
        while c.i + 3 <= c.v.len() {
            let (op, a, b) = (c.i64(), c.i64(), c.i64());
            w.step(op, a, b);
        }
        let mut out: Vec<String> = vec![];
        observe(&w.cur, &w.data, &None, &mut out);
        let env = &w.cur;
        let data = &w.data;
        let barrier = Barrier::new(THREADS);
        let results: Vec<Vec<String>> = std::thread::scope(|s| {
            let handles: Vec<_> = (0..THREADS)
                .map(|i| {
                    let barrier = &barrier;
                    s.spawn(move || {
                        let mut o = vec![];
                        dirty(env, i);
                        barrier.wait();
                        for r in 0..ROUNDS {
                            render_all(env, data, &mut o);
                            if i % 2 == 1 {
                                let mut mine = env.clone();
                                let w = (i + r) as i64;
                                mine.add_filter(REG_NAMES[0][r % 2], move |v: i64| v + 100 + w);
                                mine.add_test(REG_NAMES[1][(r + 1) % 2], move |v: i64| v == w);
                                mine.remove_global(REG_NAMES[2][1]);
                                mine.remove_template(NAMES[r % 4]);
                                let _ = mine.add_template_owned(NAMES[(r + 1) % 4].to_string(), src_text(16 * (7000 + w)));
                                mine.clear_templates();
                                dirty(&mine, i);
                            }
                        }
                        o
                    })
                })
                .collect();
            handles.into_iter().map(|h| h.join().unwrap_or_else(|_| vec!["2".into()])).collect()
        });
        for r in results {
            out.extend(r);
        }
        observe(&w.cur, &w.data, &None, &mut out);
        out
    });
}
