//! C16: Serde round-trip through `Value`, value handles, tojson / JSON auto-escape.
//!
//! Input : `tid L sty_1..sty_L sval...`   (the type descriptor is for the Coq model only; it is skipped here)
//! Output: `0 <shape of Value::from(Serde(&x))> <rt> <rt_ref> <tojson> <tojson indent=2> <auto-escape .json>`
//!         or `7 ...` when the case does not describe a value of Rust type `tid` (a harness/generator bug).
//!
//! The typed Rust value `x : T` is built from the `sval` tokens by serde itself (`T::deserialize`
//! over the token deserializer `De` below) and is written back to tokens by the recording
//! serializer `Rec`, which logs exactly the serde data-model calls `T::serialize` makes.  So the
//! token form *is* the serde data model of the value, for every type, without per-type code.
//!
//! sval tokens (prefix form; str = `len cp..`):
//!  0 unit | 1 b | 2 w n (signed, w bits) | 3 w n (unsigned) | 4 bits (f64) | 5 bits64 (f32, given as the
//!  f64 it widens to) | 6 cp | 7 str | 8 len bytes | 9 none | 10 v (some) | 11 unit struct | 12 idx name (unit
//!  variant) | 13 v (newtype struct) | 14 idx name v | 15 n v* (seq) | 16 n v* (tuple) | 17 n v* (tuple struct) |
//!  18 idx name n v* | 19 n (k v)* | 20 n (fname v)* | 21 idx name n (fname v)* | 22 k (embedded template value k)
//! value-shape tokens:
//!  0 undefined | 1 none | 2 b | 3 z (i64) | 4 z (u64) | 5 z (i128) | 6 z (u128) | 7 bits | 8 safe str | 9 len bytes |
//!  10 tuple n v* | 11 n (k v)* | 12 id (plain object; id = pool index when it is the very same Arc, else 999) | 13 invalid
use std::collections::BTreeMap;
use std::fmt;
use std::sync::Arc;

use minijinja::value::{Object, ObjectRepr, Serde, Value, ValueKind};
use minijinja::{context, Environment};
use mjverif::*;
use serde::de::{self, DeserializeSeed, IntoDeserializer, Visitor};
use serde::ser;
use serde::{Deserialize, Deserializer, Serialize, Serializer};

// ------------------------------------------------------------------------------------------
// errors
// ------------------------------------------------------------------------------------------
#[derive(Debug)]
struct TErr(String);
impl fmt::Display for TErr {
    fn fmt(&self, f: &mut fmt::Formatter<'_>) -> fmt::Result {
        f.write_str(&self.0)
    }
}
impl std::error::Error for TErr {}
impl de::Error for TErr {
    fn custom<T: fmt::Display>(m: T) -> Self {
        TErr(m.to_string())
    }
}
impl ser::Error for TErr {
    fn custom<T: fmt::Display>(m: T) -> Self {
        TErr(m.to_string())
    }
}

// ------------------------------------------------------------------------------------------
// token deserializer: sval tokens -> any T: Deserialize
// ------------------------------------------------------------------------------------------
struct Toks<'a> {
    v: &'a [String],
    i: usize,
}
impl<'a> Toks<'a> {
    fn tok(&mut self) -> &'a str {
        let t = self.v.get(self.i).map(|s| s.as_str()).unwrap_or("0");
        self.i += 1;
        t
    }
    fn peek(&self) -> i64 {
        self.v.get(self.i).and_then(|s| s.parse().ok()).unwrap_or(-1)
    }
    fn int(&mut self) -> i128 {
        self.tok().parse().unwrap_or(0)
    }
    fn uint(&mut self) -> u128 {
        self.tok().parse().unwrap_or(0)
    }
    fn string(&mut self) -> String {
        let n = self.int() as usize;
        (0..n).map(|_| char::from_u32(self.int() as u32).unwrap_or('\u{fffd}')).collect()
    }
}

struct De<'a, 'b> {
    t: &'a mut Toks<'b>,
}

struct SeqAcc<'a, 'b> {
    t: &'a mut Toks<'b>,
    left: usize,
}
impl<'de, 'a, 'b> de::SeqAccess<'de> for SeqAcc<'a, 'b> {
    type Error = TErr;
    fn next_element_seed<S: DeserializeSeed<'de>>(&mut self, seed: S) -> Result<Option<S::Value>, TErr> {
        if self.left == 0 {
            return Ok(None);
        }
        self.left -= 1;
        seed.deserialize(De { t: &mut *self.t }).map(Some)
    }
}

struct MapAcc<'a, 'b> {
    t: &'a mut Toks<'b>,
    left: usize,
    named: bool,
}
impl<'de, 'a, 'b> de::MapAccess<'de> for MapAcc<'a, 'b> {
    type Error = TErr;
    fn next_key_seed<S: DeserializeSeed<'de>>(&mut self, seed: S) -> Result<Option<S::Value>, TErr> {
        if self.left == 0 {
            return Ok(None);
        }
        self.left -= 1;
        if self.named {
            let name = self.t.string();
            seed.deserialize(IntoDeserializer::<TErr>::into_deserializer(name)).map(Some)
        } else {
            seed.deserialize(De { t: &mut *self.t }).map(Some)
        }
    }
    fn next_value_seed<S: DeserializeSeed<'de>>(&mut self, seed: S) -> Result<S::Value, TErr> {
        seed.deserialize(De { t: &mut *self.t })
    }
}

struct EnumAcc<'a, 'b> {
    t: &'a mut Toks<'b>,
    tag: i64,
}
impl<'de, 'a, 'b> de::EnumAccess<'de> for EnumAcc<'a, 'b> {
    type Error = TErr;
    type Variant = Self;
    fn variant_seed<S: DeserializeSeed<'de>>(self, seed: S) -> Result<(S::Value, Self), TErr> {
        let _idx = self.t.int();
        let name = self.t.string();
        let v = seed.deserialize(IntoDeserializer::<TErr>::into_deserializer(name))?;
        Ok((v, self))
    }
}
impl<'de, 'a, 'b> de::VariantAccess<'de> for EnumAcc<'a, 'b> {
    type Error = TErr;
    fn unit_variant(self) -> Result<(), TErr> {
        if self.tag == 12 {
            Ok(())
        } else {
            Err(TErr("not a unit variant".into()))
        }
    }
    fn newtype_variant_seed<S: DeserializeSeed<'de>>(self, seed: S) -> Result<S::Value, TErr> {
        if self.tag != 14 {
            return Err(TErr("not a newtype variant".into()));
        }
        seed.deserialize(De { t: self.t })
    }
    fn tuple_variant<V: Visitor<'de>>(self, _len: usize, visitor: V) -> Result<V::Value, TErr> {
        if self.tag != 18 {
            return Err(TErr("not a tuple variant".into()));
        }
        let n = self.t.int() as usize;
        visitor.visit_seq(SeqAcc { t: self.t, left: n })
    }
    fn struct_variant<V: Visitor<'de>>(self, _f: &'static [&'static str], visitor: V) -> Result<V::Value, TErr> {
        if self.tag != 21 {
            return Err(TErr("not a struct variant".into()));
        }
        let n = self.t.int() as usize;
        visitor.visit_map(MapAcc { t: self.t, left: n, named: true })
    }
}

impl<'de, 'a, 'b> Deserializer<'de> for De<'a, 'b> {
    type Error = TErr;

    fn deserialize_any<V: Visitor<'de>>(self, visitor: V) -> Result<V::Value, TErr> {
        let tag = self.t.int() as i64;
        match tag {
            0 | 11 => visitor.visit_unit(),
            1 => visitor.visit_bool(self.t.int() != 0),
            2 => {
                let w = self.t.int();
                let n = self.t.int();
                match w {
                    8 => visitor.visit_i8(n as i8),
                    16 => visitor.visit_i16(n as i16),
                    32 => visitor.visit_i32(n as i32),
                    64 => visitor.visit_i64(n as i64),
                    _ => visitor.visit_i128(n),
                }
            }
            3 => {
                let w = self.t.int();
                let n = self.t.uint();
                match w {
                    8 => visitor.visit_u8(n as u8),
                    16 => visitor.visit_u16(n as u16),
                    32 => visitor.visit_u32(n as u32),
                    64 => visitor.visit_u64(n as u64),
                    _ => visitor.visit_u128(n),
                }
            }
            4 => visitor.visit_f64(f64::from_bits(self.t.uint() as u64)),
            5 => visitor.visit_f32(f64::from_bits(self.t.uint() as u64) as f32),
            6 => visitor.visit_char(char::from_u32(self.t.int() as u32).unwrap_or('\u{fffd}')),
            7 => visitor.visit_string(self.t.string()),
            8 => {
                let n = self.t.int() as usize;
                visitor.visit_byte_buf((0..n).map(|_| self.t.int() as u8).collect())
            }
            9 => visitor.visit_none(),
            10 => visitor.visit_some(self),
            13 => visitor.visit_newtype_struct(self),
            15 | 16 | 17 => {
                let n = self.t.int() as usize;
                visitor.visit_seq(SeqAcc { t: self.t, left: n })
            }
            19 => {
                let n = self.t.int() as usize;
                visitor.visit_map(MapAcc { t: self.t, left: n, named: false })
            }
            20 => {
                let n = self.t.int() as usize;
                visitor.visit_map(MapAcc { t: self.t, left: n, named: true })
            }
            12 | 14 | 18 | 21 => visitor.visit_enum(EnumAcc { t: self.t, tag }),
            22 => {
                let k = self.t.int() as u32;
                visitor.visit_newtype_struct(IntoDeserializer::<TErr>::into_deserializer(k))
            }
            _ => Err(TErr(format!("bad tag {tag}"))),
        }
    }

    fn deserialize_option<V: Visitor<'de>>(self, visitor: V) -> Result<V::Value, TErr> {
        match self.t.peek() {
            9 => {
                self.t.int();
                visitor.visit_none()
            }
            10 => {
                self.t.int();
                visitor.visit_some(self)
            }
            _ => Err(TErr("expected option".into())),
        }
    }

    serde::forward_to_deserialize_any! {
        bool u8 u16 u32 u64 u128 i8 i16 i32 i64 i128 f32 f64 char str string unit seq bytes byte_buf map
        tuple_struct struct tuple ignored_any identifier unit_struct newtype_struct enum
    }
}

// ------------------------------------------------------------------------------------------
// recording serializer: any T: Serialize -> sval tokens
// ------------------------------------------------------------------------------------------
const EMB_MARK: &str = "\u{2}emb";

struct Rec<'a> {
    o: &'a mut Vec<String>,
}
struct Comp<'a> {
    o: &'a mut Vec<String>,
    at: usize,
    n: usize,
}
impl<'a> Comp<'a> {
    fn start(o: &'a mut Vec<String>) -> Self {
        o.push(String::new());
        let at = o.len() - 1;
        Comp { o, at, n: 0 }
    }
    fn finish(self) {
        self.o[self.at] = self.n.to_string();
    }
}
fn rec<T: Serialize + ?Sized>(o: &mut Vec<String>, v: &T) -> Result<(), TErr> {
    v.serialize(Rec { o })
}
macro_rules! rec_int {
    ($name:ident, $ty:ty, $tag:expr, $w:expr) => {
        fn $name(self, v: $ty) -> Result<(), TErr> {
            self.o.push($tag.to_string());
            self.o.push($w.to_string());
            self.o.push(v.to_string());
            Ok(())
        }
    };
}
impl<'a> Serializer for Rec<'a> {
    type Ok = ();
    type Error = TErr;
    type SerializeSeq = Comp<'a>;
    type SerializeTuple = Comp<'a>;
    type SerializeTupleStruct = Comp<'a>;
    type SerializeTupleVariant = Comp<'a>;
    type SerializeMap = Comp<'a>;
    type SerializeStruct = Comp<'a>;
    type SerializeStructVariant = Comp<'a>;

    fn serialize_bool(self, v: bool) -> Result<(), TErr> {
        self.o.push("1".into());
        self.o.push((v as u8).to_string());
        Ok(())
    }
    rec_int!(serialize_i8, i8, 2, 8);
    rec_int!(serialize_i16, i16, 2, 16);
    rec_int!(serialize_i32, i32, 2, 32);
    rec_int!(serialize_i64, i64, 2, 64);
    rec_int!(serialize_i128, i128, 2, 128);
    rec_int!(serialize_u8, u8, 3, 8);
    rec_int!(serialize_u16, u16, 3, 16);
    rec_int!(serialize_u32, u32, 3, 32);
    rec_int!(serialize_u64, u64, 3, 64);
    rec_int!(serialize_u128, u128, 3, 128);
    fn serialize_f32(self, v: f32) -> Result<(), TErr> {
        self.o.push("5".into());
        self.o.push((v as f64).to_bits().to_string());
        Ok(())
    }
    fn serialize_f64(self, v: f64) -> Result<(), TErr> {
        self.o.push("4".into());
        self.o.push(v.to_bits().to_string());
        Ok(())
    }
    fn serialize_char(self, v: char) -> Result<(), TErr> {
        self.o.push("6".into());
        self.o.push((v as u32).to_string());
        Ok(())
    }
    fn serialize_str(self, v: &str) -> Result<(), TErr> {
        self.o.push("7".into());
        push_str(self.o, v);
        Ok(())
    }
    fn serialize_bytes(self, v: &[u8]) -> Result<(), TErr> {
        self.o.push("8".into());
        self.o.push(v.len().to_string());
        self.o.extend(v.iter().map(|b| b.to_string()));
        Ok(())
    }
    fn serialize_none(self) -> Result<(), TErr> {
        self.o.push("9".into());
        Ok(())
    }
    fn serialize_some<T: Serialize + ?Sized>(self, v: &T) -> Result<(), TErr> {
        self.o.push("10".into());
        rec(self.o, v)
    }
    fn serialize_unit(self) -> Result<(), TErr> {
        self.o.push("0".into());
        Ok(())
    }
    fn serialize_unit_struct(self, _n: &'static str) -> Result<(), TErr> {
        self.o.push("11".into());
        Ok(())
    }
    fn serialize_unit_variant(self, _n: &'static str, idx: u32, variant: &'static str) -> Result<(), TErr> {
        self.o.push("12".into());
        self.o.push(idx.to_string());
        push_str(self.o, variant);
        Ok(())
    }
    fn serialize_newtype_struct<T: Serialize + ?Sized>(self, name: &'static str, v: &T) -> Result<(), TErr> {
        if name == EMB_MARK {
            // an embedded template value: `22 k`
            let mut tmp = vec![];
            rec(&mut tmp, v)?;
            self.o.push("22".into());
            self.o.push(tmp.last().cloned().unwrap_or_default());
            return Ok(());
        }
        self.o.push("13".into());
        rec(self.o, v)
    }
    fn serialize_newtype_variant<T: Serialize + ?Sized>(self, _n: &'static str, idx: u32, variant: &'static str, v: &T) -> Result<(), TErr> {
        self.o.push("14".into());
        self.o.push(idx.to_string());
        push_str(self.o, variant);
        rec(self.o, v)
    }
    fn serialize_seq(self, _len: Option<usize>) -> Result<Comp<'a>, TErr> {
        self.o.push("15".into());
        Ok(Comp::start(self.o))
    }
    fn serialize_tuple(self, _len: usize) -> Result<Comp<'a>, TErr> {
        self.o.push("16".into());
        Ok(Comp::start(self.o))
    }
    fn serialize_tuple_struct(self, _n: &'static str, _len: usize) -> Result<Comp<'a>, TErr> {
        self.o.push("17".into());
        Ok(Comp::start(self.o))
    }
    fn serialize_tuple_variant(self, _n: &'static str, idx: u32, variant: &'static str, _len: usize) -> Result<Comp<'a>, TErr> {
        self.o.push("18".into());
        self.o.push(idx.to_string());
        push_str(self.o, variant);
        Ok(Comp::start(self.o))
    }
    fn serialize_map(self, _len: Option<usize>) -> Result<Comp<'a>, TErr> {
        self.o.push("19".into());
        Ok(Comp::start(self.o))
    }
    fn serialize_struct(self, _n: &'static str, _len: usize) -> Result<Comp<'a>, TErr> {
        self.o.push("20".into());
        Ok(Comp::start(self.o))
    }
    fn serialize_struct_variant(self, _n: &'static str, idx: u32, variant: &'static str, _len: usize) -> Result<Comp<'a>, TErr> {
        self.o.push("21".into());
        self.o.push(idx.to_string());
        push_str(self.o, variant);
        Ok(Comp::start(self.o))
    }
}
impl<'a> ser::SerializeSeq for Comp<'a> {
    type Ok = ();
    type Error = TErr;
    fn serialize_element<T: Serialize + ?Sized>(&mut self, v: &T) -> Result<(), TErr> {
        self.n += 1;
        rec(self.o, v)
    }
    fn end(self) -> Result<(), TErr> {
        self.finish();
        Ok(())
    }
}
impl<'a> ser::SerializeTuple for Comp<'a> {
    type Ok = ();
    type Error = TErr;
    fn serialize_element<T: Serialize + ?Sized>(&mut self, v: &T) -> Result<(), TErr> {
        self.n += 1;
        rec(self.o, v)
    }
    fn end(self) -> Result<(), TErr> {
        self.finish();
        Ok(())
    }
}
impl<'a> ser::SerializeTupleStruct for Comp<'a> {
    type Ok = ();
    type Error = TErr;
    fn serialize_field<T: Serialize + ?Sized>(&mut self, v: &T) -> Result<(), TErr> {
        self.n += 1;
        rec(self.o, v)
    }
    fn end(self) -> Result<(), TErr> {
        self.finish();
        Ok(())
    }
}
impl<'a> ser::SerializeTupleVariant for Comp<'a> {
    type Ok = ();
    type Error = TErr;
    fn serialize_field<T: Serialize + ?Sized>(&mut self, v: &T) -> Result<(), TErr> {
        self.n += 1;
        rec(self.o, v)
    }
    fn end(self) -> Result<(), TErr> {
        self.finish();
        Ok(())
    }
}
impl<'a> ser::SerializeMap for Comp<'a> {
    type Ok = ();
    type Error = TErr;
    fn serialize_key<T: Serialize + ?Sized>(&mut self, v: &T) -> Result<(), TErr> {
        self.n += 1;
        rec(self.o, v)
    }
    fn serialize_value<T: Serialize + ?Sized>(&mut self, v: &T) -> Result<(), TErr> {
        rec(self.o, v)
    }
    fn end(self) -> Result<(), TErr> {
        self.finish();
        Ok(())
    }
}
impl<'a> ser::SerializeStruct for Comp<'a> {
    type Ok = ();
    type Error = TErr;
    fn serialize_field<T: Serialize + ?Sized>(&mut self, k: &'static str, v: &T) -> Result<(), TErr> {
        self.n += 1;
        push_str(self.o, k);
        rec(self.o, v)
    }
    fn end(self) -> Result<(), TErr> {
        self.finish();
        Ok(())
    }
}
impl<'a> ser::SerializeStructVariant for Comp<'a> {
    type Ok = ();
    type Error = TErr;
    fn serialize_field<T: Serialize + ?Sized>(&mut self, k: &'static str, v: &T) -> Result<(), TErr> {
        self.n += 1;
        push_str(self.o, k);
        rec(self.o, v)
    }
    fn end(self) -> Result<(), TErr> {
        self.finish();
        Ok(())
    }
}

// ------------------------------------------------------------------------------------------
// embedded template values
// ------------------------------------------------------------------------------------------
#[derive(Debug)]
struct Dyn(u32);
impl Object for Dyn {
    fn repr(self: &Arc<Self>) -> ObjectRepr {
        ObjectRepr::Plain
    }
    fn render(self: &Arc<Self>, f: &mut fmt::Formatter<'_>) -> fmt::Result {
        write!(f, "<dyn {}>", self.0)
    }
}

static POOL: std::sync::OnceLock<Vec<Value>> = std::sync::OnceLock::new();
fn make_pool() -> Vec<Value> {
    vec![
        Value::from_safe_string("<b>&'\"x</b>".to_string()),          // 0 safe string
        Value::UNDEFINED,                                              // 1 undefined
        Value::from_object(Dyn(2)),                                    // 2 dynamic (plain) object
        Value::from(()),                                               // 3 none
        Value::from("plain <i>"),                                      // 4 ordinary string
        Value::from(42i64),                                            // 5 number
        Value::from_safe_string(String::new()),                        // 6 empty safe string
        Value::from_object(Dyn(7)),                                    // 7 another object
        Value::from_safe_string("a long safe string, more than twenty-two bytes <&>".to_string()), // 8
        Value::from(vec![Value::from_safe_string("<s>".into()), Value::UNDEFINED]), // 9 list holding special values
    ]
}
fn pool(k: u32) -> Value {
    POOL.get_or_init(make_pool).get(k as usize).cloned().unwrap_or(Value::UNDEFINED)
}

/// A field holding the pooled template value `k`.
#[derive(Debug, Clone, PartialEq)]
struct Emb(u32);
impl Serialize for Emb {
    fn serialize<S: Serializer>(&self, s: S) -> Result<S::Ok, S::Error> {
        if minijinja::value::serializing_for_value() {
            pool(self.0).serialize(s)
        } else {
            s.serialize_newtype_struct(EMB_MARK, &self.0)
        }
    }
}
impl<'de> Deserialize<'de> for Emb {
    fn deserialize<D: Deserializer<'de>>(d: D) -> Result<Self, D::Error> {
        struct V;
        impl<'de> Visitor<'de> for V {
            type Value = Emb;
            fn expecting(&self, f: &mut fmt::Formatter) -> fmt::Result {
                f.write_str("embedded value index")
            }
            fn visit_newtype_struct<D: Deserializer<'de>>(self, d: D) -> Result<Emb, D::Error> {
                u32::deserialize(d).map(Emb)
            }
        }
        d.deserialize_newtype_struct(EMB_MARK, V)
    }
}

/// Byte string that uses serde's bytes channel (what `serde_bytes` does).
#[derive(Debug, Clone, PartialEq)]
struct Bytes(Vec<u8>);
impl Serialize for Bytes {
    fn serialize<S: Serializer>(&self, s: S) -> Result<S::Ok, S::Error> {
        s.serialize_bytes(&self.0)
    }
}
impl<'de> Deserialize<'de> for Bytes {
    fn deserialize<D: Deserializer<'de>>(d: D) -> Result<Self, D::Error> {
        struct V;
        impl<'de> Visitor<'de> for V {
            type Value = Bytes;
            fn expecting(&self, f: &mut fmt::Formatter) -> fmt::Result {
                f.write_str("bytes")
            }
            fn visit_bytes<E: de::Error>(self, v: &[u8]) -> Result<Bytes, E> {
                Ok(Bytes(v.to_vec()))
            }
            fn visit_byte_buf<E: de::Error>(self, v: Vec<u8>) -> Result<Bytes, E> {
                Ok(Bytes(v))
            }
        }
        d.deserialize_byte_buf(V)
    }
}

// ------------------------------------------------------------------------------------------
// the Rust types (tools/props/C16.py holds the matching descriptors, index = tid)
// ------------------------------------------------------------------------------------------
#[derive(Serialize, Deserialize, Debug)]
struct Prims {
    b: bool,
    i8_: i8,
    i16_: i16,
    i32_: i32,
    i64_: i64,
    u8_: u8,
    u16_: u16,
    u32_: u32,
    u64_: u64,
    c: char,
    s: String,
}
#[derive(Serialize, Deserialize, Debug)]
struct Floats {
    f: f64,
    g: f32,
    l: Vec<f64>,
}
#[derive(Serialize, Deserialize, Debug)]
struct Opts {
    a: Option<i64>,
    b: Option<String>,
    c: Option<Vec<i64>>,
    d: Option<bool>,
}
#[derive(Serialize, Deserialize, Debug)]
struct UnitS;
#[derive(Serialize, Deserialize, Debug)]
struct NewI(i64);
#[derive(Serialize, Deserialize, Debug)]
struct NewS(String);
#[derive(Serialize, Deserialize, Debug)]
struct TupS(i64, String);
#[derive(Serialize, Deserialize, Debug)]
struct EmptyS {}
#[derive(Serialize, Deserialize, Debug)]
struct EmptyT();
#[derive(Serialize, Deserialize, Debug, PartialEq, Eq, PartialOrd, Ord)]
enum Color {
    Red,
    Green,
    #[serde(rename = "<blue>")]
    Blue,
}
#[derive(Serialize, Deserialize, Debug)]
enum Shape {
    Unit,
    Other,
    New(i64),
    NewOpt(Option<i64>),
    NewStr(String),
    NewUnit(()),
    Tup(i64, String),
    Tup0(),
    Struct { a: i64, b: String },
    Struct0 {},
    Seq(Vec<i64>),
}
#[derive(Serialize, Deserialize, Debug)]
enum Deep {
    A(Shape),
    B(Vec<Shape>),
    C { s: Shape, o: Option<Shape>, zz: Color, aa: i64 },
    D(Shape, Color),
    E(Option<Box<Deep>>),
    F,
}
#[derive(Serialize, Deserialize, Debug)]
struct Inner {
    n: NewI,
    t: TupS,
    u: UnitS,
    k: Color,
}
#[derive(Serialize, Deserialize, Debug)]
struct Outer {
    shapes: Vec<Shape>,
    m: BTreeMap<String, Vec<Option<Shape>>>,
    t: (NewI, TupS, bool),
    o: Option<Inner>,
    by: Bytes,
}
#[derive(Serialize, Deserialize, Debug)]
struct Wide {
    a: i128,
    b: u128,
}
#[derive(Serialize, Deserialize, Debug)]
struct WithVal {
    a: i64,
    v: Emb,
    l: Vec<Emb>,
}
#[derive(Serialize, Deserialize, Debug)]
enum EnumVal {
    N(Emb),
    S { v: Emb, w: Emb },
    T(Emb, i64),
    O(Option<Emb>),
}
#[derive(Serialize, Deserialize, Debug, PartialEq, Eq, PartialOrd, Ord)]
struct Key2(i64, String);
#[derive(Serialize, Deserialize, Debug)]
enum Tree {
    Leaf(i64),
    Node(Vec<Tree>),
    Pair { l: Box<Tree>, r: Box<Tree> },
    Nil,
}

// ------------------------------------------------------------------------------------------
// the shape of a template value
// ------------------------------------------------------------------------------------------
fn shape(v: &Value, o: &mut Vec<String>) {
    match v.kind() {
        ValueKind::Undefined => o.push("0".into()),
        ValueKind::None => o.push("1".into()),
        ValueKind::Bool => {
            o.push("2".into());
            o.push((v.is_true() as u8).to_string());
        }
        ValueKind::Number => {
            // the representation (i64/u64/i128/u128/f64) is what `impl Serialize for Value` dispatches on
            let mut t = vec![];
            let _ = rec(&mut t, v);
            let tag = match (t.first().map(|s| s.as_str()), t.get(1).map(|s| s.as_str())) {
                (Some("2"), Some("64")) => 3,
                (Some("3"), Some("64")) => 4,
                (Some("2"), Some("128")) => 5,
                (Some("3"), Some("128")) => 6,
                (Some("4"), _) => 7,
                _ => 99,
            };
            o.push(tag.to_string());
            o.push(t.last().cloned().unwrap_or_default());
        }
        ValueKind::String => {
            o.push("8".into());
            o.push((v.is_safe() as u8).to_string());
            push_str(o, v.as_str().unwrap_or(""));
        }
        ValueKind::Bytes => {
            let b = v.as_bytes().unwrap_or(&[]);
            o.push("9".into());
            o.push(b.len().to_string());
            o.extend(b.iter().map(|x| x.to_string()));
        }
        ValueKind::Seq | ValueKind::Iterable => {
            o.push("10".into());
            o.push((v.is_tuple() as u8).to_string());
            let items: Vec<Value> = v.try_iter().map(|i| i.collect()).unwrap_or_default();
            o.push(items.len().to_string());
            for it in &items {
                shape(it, o);
            }
        }
        ValueKind::Map => {
            o.push("11".into());
            let keys: Vec<Value> = v.try_iter().map(|i| i.collect()).unwrap_or_default();
            o.push(keys.len().to_string());
            for k in &keys {
                shape(k, o);
                shape(&v.get_item(k).unwrap_or(Value::UNDEFINED), o);
            }
        }
        ValueKind::Plain => {
            o.push("12".into());
            let id = match v.downcast_object::<Dyn>() {
                Some(d) => {
                    let same = pool(d.0).downcast_object::<Dyn>().map_or(false, |p| Arc::ptr_eq(&p, &d));
                    if same {
                        d.0
                    } else {
                        999
                    }
                }
                None => 998,
            };
            o.push(id.to_string());
        }
        _ => o.push("13".into()),
    }
}

// ------------------------------------------------------------------------------------------
// re-entrancy programs (tid 200): what a Serialize impl may do while an outer conversion runs
// ------------------------------------------------------------------------------------------
// node tokens: 0 z int | 1 k embedded value | 2 probe serializing_for_value() | 3 n seq | 4 n tuple | 5 n map |
//  6 n struct | 7 x newtype variant | 8 n tuple variant | 9 n struct variant | 10 x some | 11 x nested conversion,
//  result embedded | 12 x nested conversion, result dropped | 13 x nested conversion under catch_unwind |
//  14 x conversion on another thread, result embedded | 15 fail (serde error) | 16 panic |
//  17 k template value k handed to a foreign serializer (serde_json::to_string) during the conversion: its handle is never
//  redeemed | 18 k struct with `#[serde(flatten)]` on template value k (serde's FlatMapSerializer refuses it: error, handle left behind)
enum Node {
    Int(i64),
    EmbV(u32),
    Probe,
    Seq(Vec<Node>),
    Tuple(Vec<Node>),
    Map(Vec<Node>),
    Struct(Vec<Node>),
    NVar(Box<Node>),
    TVar(Vec<Node>),
    SVar(Vec<Node>),
    Some(Box<Node>),
    Nested(Box<Node>),
    NestedDrop(Box<Node>),
    NestedCatch(Box<Node>),
    Thread(Box<Node>),
    Fail,
    Panic,
    Leak(u32),
    Flatten(u32),
}
#[derive(Serialize)]
struct Flat {
    id: u32,
    #[serde(flatten)]
    extra: Value,
}
const FIELD_NAMES: [&str; 10] = ["f0", "f1", "f2", "f3", "f4", "f5", "f6", "f7", "f8", "f9"];

fn parse_node(t: &mut Toks) -> Node {
    fn many(t: &mut Toks) -> Vec<Node> {
        let n = (t.int() as usize).min(10);
        (0..n).map(|_| parse_node(t)).collect()
    }
    match t.int() {
        0 => Node::Int(t.int() as i64),
        1 => Node::EmbV(t.int() as u32),
        2 => Node::Probe,
        3 => Node::Seq(many(t)),
        4 => Node::Tuple(many(t)),
        5 => Node::Map(many(t)),
        6 => Node::Struct(many(t)),
        7 => Node::NVar(Box::new(parse_node(t))),
        8 => Node::TVar(many(t)),
        9 => Node::SVar(many(t)),
        10 => Node::Some(Box::new(parse_node(t))),
        11 => Node::Nested(Box::new(parse_node(t))),
        12 => Node::NestedDrop(Box::new(parse_node(t))),
        13 => Node::NestedCatch(Box::new(parse_node(t))),
        14 => Node::Thread(Box::new(parse_node(t))),
        15 => Node::Fail,
        17 => Node::Leak(t.int() as u32),
        18 => Node::Flatten(t.int() as u32),
        _ => Node::Panic,
    }
}

impl Serialize for Node {
    fn serialize<S: Serializer>(&self, s: S) -> Result<S::Ok, S::Error> {
        use ser::{SerializeMap, SerializeSeq, SerializeStruct, SerializeStructVariant, SerializeTuple, SerializeTupleVariant};
        match self {
            Node::Int(z) => s.serialize_i64(*z),
            Node::EmbV(k) => pool(*k).serialize(s),
            Node::Probe => s.serialize_bool(minijinja::value::serializing_for_value()),
            Node::Seq(l) => {
                let mut c = s.serialize_seq(Some(l.len()))?;
                for x in l {
                    c.serialize_element(x)?;
                }
                c.end()
            }
            Node::Tuple(l) => {
                let mut c = s.serialize_tuple(l.len())?;
                for x in l {
                    c.serialize_element(x)?;
                }
                c.end()
            }
            Node::Map(l) => {
                let mut c = s.serialize_map(None)?;
                for (i, x) in l.iter().enumerate() {
                    c.serialize_entry(FIELD_NAMES[i], x)?;
                }
                c.end()
            }
            Node::Struct(l) => {
                let mut c = s.serialize_struct("S", l.len())?;
                for (i, x) in l.iter().enumerate() {
                    c.serialize_field(FIELD_NAMES[i], x)?;
                }
                c.end()
            }
            Node::NVar(x) => s.serialize_newtype_variant("E", 0, "V", &**x),
            Node::TVar(l) => {
                let mut c = s.serialize_tuple_variant("E", 0, "V", l.len())?;
                for x in l {
                    c.serialize_field(x)?;
                }
                c.end()
            }
            Node::SVar(l) => {
                let mut c = s.serialize_struct_variant("E", 0, "V", l.len())?;
                for (i, x) in l.iter().enumerate() {
                    c.serialize_field(FIELD_NAMES[i], x)?;
                }
                c.end()
            }
            Node::Some(x) => s.serialize_some(&**x),
            // e.g. a `#[serde(serialize_with)]` helper that pre-converts a field into a template value
            Node::Nested(x) => Value::from(Serde(&**x)).serialize(s),
            Node::NestedDrop(x) => {
                let _ = Value::from(Serde(&**x));
                s.serialize_unit()
            }
            Node::NestedCatch(x) => {
                match std::panic::catch_unwind(std::panic::AssertUnwindSafe(|| Value::from(Serde(&**x)))) {
                    Ok(v) => v.serialize(s),
                    Err(_) => s.serialize_unit(),
                }
            }
            Node::Thread(x) => {
                let r = std::thread::scope(|sc| sc.spawn(|| Value::from(Serde(&**x))).join());
                match r {
                    Ok(v) => v.serialize(s),
                    Err(_) => s.serialize_unit(),
                }
            }
            Node::Fail => Err(<S::Error as ser::Error>::custom("boom")),
            Node::Panic => panic!("boom"),
            Node::Leak(k) => {
                let _ = serde_json::to_string(&pool(*k));
                s.serialize_unit()
            }
            Node::Flatten(k) => Flat { id: 1, extra: pool(*k) }.serialize(s),
        }
    }
}

/// `ntop node..`: that many conversions one after the other on this thread.
/// Output: `0 ntop (0 shape f | 2 f)* f` with f = serializing_for_value() observed outside a conversion.
fn run_prog(toks: &[String], start: usize) -> Vec<String> {
    let mut t = Toks { v: toks, i: start };
    let ntop = (t.int() as usize).min(8);
    let nodes: Vec<Node> = (0..ntop).map(|_| parse_node(&mut t)).collect();
    let mut o = vec!["0".to_string(), ntop.to_string()];
    for n in &nodes {
        match std::panic::catch_unwind(std::panic::AssertUnwindSafe(|| Value::from(Serde(n)))) {
            Ok(v) => {
                o.push("0".into());
                shape(&v, &mut o);
            }
            Err(_) => o.push("2".into()),
        }
        o.push((minijinja::value::serializing_for_value() as u8).to_string());
    }
    o.push((minijinja::value::serializing_for_value() as u8).to_string());
    o
}

fn push_result(o: &mut Vec<String>, r: Result<String, minijinja::Error>) {
    match r {
        Ok(s) => {
            o.push("0".into());
            push_str(o, &s);
        }
        Err(e) => {
            o.push("1".into());
            o.push(err_code(e.kind()).to_string());
        }
    }
}

// ------------------------------------------------------------------------------------------
// JSON of every iterable kind (tid 201): `201 0 <expr as len cp..> n d1..dn`
// ------------------------------------------------------------------------------------------
const NAMES: [&str; 6] = ["<a>", "b'c", "d&e", "\u{2028}x", "q\"uote\\", ""];

#[derive(Debug)]
struct Countdown(Vec<i64>);
impl Object for Countdown {
    fn repr(self: &Arc<Self>) -> ObjectRepr {
        ObjectRepr::Iterable
    }
    fn enumerate(self: &Arc<Self>) -> minijinja::value::Enumerator {
        let v = self.0.clone();
        // an iterator that does not know its length (lower bound 0)
        minijinja::value::Enumerator::Iter(Box::new(v.into_iter().filter(|_| true).map(Value::from)))
    }
}

/// a fresh context for every evaluation (one-shot iterators are consumed by use)
fn json_ctx(d: &[i64]) -> Value {
    let d1 = d.to_vec();
    let d2 = d.to_vec();
    let d3 = d.to_vec();
    let sl: Vec<&'static str> = d.iter().map(|i| NAMES[(i.unsigned_abs() % 6) as usize]).collect();
    let sl2 = sl.clone();
    let m: BTreeMap<String, i64> = d.iter().enumerate().map(|(i, x)| (format!("k{i}"), *x)).collect();
    context! {
        l => Value::from(d.to_vec()),
        sl => Value::from(sl),
        m => Value::from(m),
        one => Value::make_one_shot_iterator(d.to_vec().into_iter()),
        one_s => Value::make_one_shot_iterator(sl2.into_iter()),
        lazy => Value::make_iterable(move || d1.clone().into_iter()),
        lazy0 => Value::make_iterable(move || d2.clone().into_iter().filter(|_| true)),
        skipw => Value::make_iterable(move || d3.clone().into_iter().skip_while(|x| *x < 0)),
        obj => Value::from_object(Countdown(d.to_vec())),
        tup => Value::from(minijinja::value::Tuple::from(d.iter().map(|x| Value::from(*x)).collect::<Vec<_>>())),
    }
}

/// Output: `0 <shape of the expression's value> <tojson> <tojson(indent=2)> <.json> <.js> <.yaml> <autoescape block>
/// <inside a document> <variable form in .json>` or `1 code` when the
/// expression itself does not evaluate.
fn run_json_expr(env: &Environment, toks: &[String], start: usize) -> Vec<String> {
    let mut t = Toks { v: toks, i: start };
    let expr = t.string();
    let n = (t.int() as usize).min(16);
    let d: Vec<i64> = (0..n).map(|_| t.int() as i64).collect();
    let value = match env.compile_expression(&expr).and_then(|e| e.eval(json_ctx(&d))) {
        Ok(v) => v,
        Err(e) => return vec!["1".into(), err_code(e.kind()).to_string()],
    };
    let mut o = vec!["0".to_string()];
    shape(&value, &mut o);
    // each rendering on its own: a panic in one of them (reported as `1 98`) does not hide the others
    let mut leg = |name: &str, src: String| match std::panic::catch_unwind(std::panic::AssertUnwindSafe(|| env.render_named_str(name, &src, json_ctx(&d)))) {
        Ok(r) => push_result(&mut o, r),
        Err(_) => {
            o.push("1".into());
            o.push("98".into());
        }
    };
    leg("a.txt", format!("{{{{ ({expr})|tojson }}}}"));
    leg("b.txt", format!("{{{{ ({expr})|tojson(indent=2) }}}}"));
    for name in ["c.json", "c.js", "c.yaml"] {
        leg(name, format!("{{{{ {expr} }}}}"));
    }
    // the same under an explicit block, and inside a JSON document written by the template
    leg("d.txt", format!("{{% autoescape \"json\" %}}{{{{ {expr} }}}}{{% endautoescape %}}"));
    leg("e.json", format!("{{\"k\": {{{{ {expr} }}}}, \"l\": [{{{{ {expr} }}}}, 1]}}"));
    // variable form: the value of the expression (evaluated afresh) handed in through the context
    let var = env.compile_expression(&expr).and_then(|e| e.eval(json_ctx(&d))).unwrap_or(Value::UNDEFINED);
    match std::panic::catch_unwind(std::panic::AssertUnwindSafe(|| env.render_named_str("f.json", "{{ x }}", context! { x => var }))) {
        Ok(r) => push_result(&mut o, r),
        Err(_) => {
            o.push("1".into());
            o.push("98".into());
        }
    }
    o
}

fn run<T>(env: &Environment, toks: &[String], start: usize, no_rt: bool) -> Vec<String>
where
    T: Serialize + for<'de> Deserialize<'de>,
{
    let mut t = Toks { v: toks, i: start };
    let x: T = match T::deserialize(De { t: &mut t }) {
        Ok(x) => x,
        Err(e) => {
            if std::env::var_os("MJVERIF_PANIC_LOG").is_some() {
                eprintln!("case does not fit the type: {e}");
            }
            return vec!["7".into(), "1".into()];
        }
    };
    // the case is exactly the data model of x
    let mut back = vec![];
    if rec(&mut back, &x).is_err() || back[..] != toks[start..] {
        if std::env::var_os("MJVERIF_PANIC_LOG").is_some() {
            eprintln!("re-recorded: {}", back.join(" "));
        }
        return vec!["7".into(), "2".into()];
    }
    let mut o = vec!["0".to_string()];
    let value = Value::from(Serde(&x));
    shape(&value, &mut o);
    // round trip, through the owned and the borrowed deserializer
    for by_ref in [false, true] {
        if no_rt {
            o.push("3".into());
            continue;
        }
        let r = if by_ref { T::deserialize(&value) } else { T::deserialize(value.clone()) };
        match r {
            Ok(y) => {
                let mut t2 = vec![];
                match rec(&mut t2, &y) {
                    Ok(()) => {
                        o.push("0".into());
                        o.extend(t2);
                    }
                    Err(_) => o.push("4".into()),
                }
            }
            Err(e) => {
                o.push("1".into());
                o.push(err_code(e.kind()).to_string());
            }
        }
    }
    // JSON
    let ctx = context! { v => value.clone() };
    push_result(&mut o, env.get_template("plain.txt").and_then(|t| t.render(&ctx)));
    push_result(&mut o, env.get_template("indent.txt").and_then(|t| t.render(&ctx)));
    push_result(&mut o, env.get_template("auto.json").and_then(|t| t.render(&ctx)));
    o
}

macro_rules! dispatch {
    ($tid:expr, $env:expr, $toks:expr, $start:expr; $($n:literal => $t:ty),* $(,)?) => {
        match $tid {
            $($n => run::<$t>($env, $toks, $start, false),)*
            100 => run::<WithVal>($env, $toks, $start, true),
            101 => run::<EnumVal>($env, $toks, $start, true),
            102 => run::<Vec<Emb>>($env, $toks, $start, true),
            103 => run::<BTreeMap<String, Emb>>($env, $toks, $start, true),
            104 => run::<Emb>($env, $toks, $start, true),
            105 => run::<(Emb, Option<Emb>)>($env, $toks, $start, true),
            _ => vec!["7".into(), "0".into()],
        }
    };
}

fn main() {
    let mut env = Environment::new();
    env.add_template("plain.txt", "{{ v|tojson }}").unwrap();
    env.add_template("indent.txt", "{{ v|tojson(indent=2) }}").unwrap();
    env.add_template("auto.json", "{{ v }}").unwrap();
    install_quiet_panic_hook();
    serve(2, |c| {
        let tid = c.i64();
        let l = c.usize();
        let start = c.i + l;
        let toks = c.v;
        if tid == 200 {
            return run_prog(toks, start);
        }
        if tid == 201 {
            return run_json_expr(&env, toks, start);
        }
        dispatch!(tid, &env, toks, start;
            0 => Prims, 1 => Floats, 2 => Opts, 3 => (), 4 => UnitS, 5 => NewI, 6 => NewS, 7 => TupS,
            8 => EmptyS, 9 => EmptyT, 10 => Color, 11 => Shape, 12 => Deep, 13 => Outer, 14 => Wide,
            15 => Vec<i64>, 16 => Vec<String>, 17 => (i64, String, bool), 18 => BTreeMap<String, i64>,
            19 => BTreeMap<i64, String>, 20 => BTreeMap<u64, bool>, 21 => BTreeMap<bool, i64>,
            22 => BTreeMap<char, String>, 23 => BTreeMap<Color, Vec<i64>>, 24 => BTreeMap<Key2, i64>,
            25 => Option<Shape>, 26 => Vec<Option<i64>>, 27 => Option<Option<i64>>, 28 => Option<()>,
            29 => Option<UnitS>, 30 => Option<NewOptW>, 31 => String, 32 => char, 33 => bool, 34 => i64,
            35 => u64, 36 => f64, 37 => f32, 38 => Bytes, 39 => Vec<Vec<i64>>, 40 => Vec<(i64, Color)>,
            41 => Tree, 42 => Inner, 43 => Option<String>, 44 => Option<Vec<Option<String>>>,
            45 => BTreeMap<String, Option<Shape>>, 46 => i8, 47 => u8, 48 => i32, 49 => u16,
        )
    });
}

#[derive(Serialize, Deserialize, Debug)]
struct NewOptW(Option<i64>);
