//! C17: the path loader never reads outside its base directory.
//!
//! mode 0 (pure, needs hook H1 = feature `hooks` -> minijinja/verif_hooks):
//!     input : 0 nb b1..bnb nn c1..cnn          base and template name as code points
//!     output: 0                                 safe_join returned None
//!             1 n p1..pn                        the joined path (code points)
//!             7                                 built without the hook
//! mode 1 (end to end, base directory = env C17_BASE):
//!     input : 1 how nn c1..cnn                  how: 0 get_template(name).render, 1 {% include name %},
//!                                               2 {% extends name %}, 3 {% import name as m %}{{ m.marker }},
//!                                               4 {% from name import marker %}{{ marker }},
//!                                               5 {% include [name] ignore missing %}, 6 bare path_loader closure
//!     output: 0 kind                            error (ErrorKind code of the error handed to the host)
//!             1 n o1..on                        rendered output (code points)
//!             3                                 loader closure returned Ok(None)
//! mode 2 (names computed inside a template, with and without a path-join callback; fresh environment per case):
//!     input : 2 cb how np parent.. nn name..    cb: 0 none, 1 the documented relative join, 2 "../" + name,
//!                                               3 parent + "/../" + name;  how: 1 include, 2 extends, 3 import,
//!                                               4 from-import, 5 {% include [name, 'a'] %}; the referring template is
//!                                               registered under the name `parent`
//!     output: as mode 1, followed by  -5 k (n c1..cn)*k   the names the loader was asked for, in order
use minijinja::{context, path_loader, Environment};
use mjverif::*;

fn main() {
    let base_set = std::env::var_os("C17_BASE").is_some(); // an EMPTY base is a base too (the working directory)
    // the base may contain bytes that are not UTF-8: keep it as the OS gave it
    let base: std::path::PathBuf = std::env::var_os("C17_BASE").map(std::path::PathBuf::from).unwrap_or_default();
    let mut env = Environment::new();
    let loader = path_loader(base.clone());
    if base_set {
        env.set_loader(path_loader(base.clone()));
    }
    serve(2, |c| {
        let mode = c.i64();
        let mut out: Vec<String> = vec![];
        if mode == 0 {
            let b = c.str();
            let name = c.str();
            #[cfg(feature = "hooks")]
            {
                match minijinja::__verif::safe_join(std::path::Path::new(&b), &name) {
                    None => out.push("0".into()),
                    Some(p) => {
                        out.push("1".into());
                        match p.to_str() {
                            Some(s) => push_str(&mut out, s),
                            None => out.push("-1".into()),
                        }
                    }
                }
            }
            #[cfg(not(feature = "hooks"))]
            {
                let _ = (b, name);
                out.push("7".into());
            }
            return out;
        }
        if mode == 2 {
            let cb = c.i64();
            let how = c.i64();
            let parent = c.str();
            let name = c.str();
            let asked: std::sync::Arc<std::sync::Mutex<Vec<String>>> = Default::default();
            let a2 = asked.clone();
            let inner = path_loader(base.clone());
            let mut env2 = Environment::new();
            env2.set_loader(move |n| {
                a2.lock().unwrap().push(n.to_string());
                inner(n)
            });
            match cb {
                1 => env2.set_path_join_callback(|name, parent| {
                    let mut rv = parent.split('/').collect::<Vec<_>>();
                    rv.pop();
                    name.split('/').for_each(|segment| match segment {
                        "." => {}
                        ".." => {
                            rv.pop();
                        }
                        _ => rv.push(segment),
                    });
                    rv.join("/").into()
                }),
                2 => env2.set_path_join_callback(|name, _parent| format!("../{name}").into()),
                3 => env2.set_path_join_callback(|name, parent| format!("{parent}/../{name}").into()),
                _ => {}
            }
            let src = match how {
                1 => "{% include name %}",
                2 => "{% extends name %}",
                3 => "{% import name as m %}{{ m.marker }}",
                4 => "{% from name import marker %}{{ marker }}",
                _ => "{% include [name, 'a'] %}",
            };
            let res = env2
                .add_template_owned(parent.clone(), src.to_string())
                .and_then(|_| env2.get_template(&parent))
                .and_then(|t| t.render(context! { name => name }));
            match res {
                Ok(s) => {
                    out.push("1".into());
                    push_str(&mut out, &s);
                }
                Err(e) => {
                    out.push("0".into());
                    out.push(err_code(e.kind()).to_string());
                }
            }
            let a = asked.lock().unwrap();
            out.push("-5".into());
            out.push(a.len().to_string());
            for n in a.iter() {
                push_str(&mut out, n);
            }
            return out;
        }
        let how = c.i64();
        let name = c.str();
        if how == 6 {
            match loader(&name) {
                Ok(Some(s)) => {
                    out.push("1".into());
                    push_str(&mut out, &s);
                }
                Ok(None) => out.push("3".into()),
                Err(e) => {
                    out.push("0".into());
                    out.push(err_code(e.kind()).to_string());
                }
            }
            return out;
        }
        let res = if how == 0 {
            env.get_template(&name).and_then(|t| t.render(context! {}))
        } else {
            let src = match how {
                1 => "{% include name %}",
                2 => "{% extends name %}",
                3 => "{% import name as m %}{{ m.marker }}",
                4 => "{% from name import marker %}{{ marker }}",
                _ => "{% include [name] ignore missing %}",
            };
            env.render_str(src, context! { name => name })
        };
        match res {
            Ok(s) => {
                out.push("1".into());
                push_str(&mut out, &s);
            }
            Err(e) => {
                out.push("0".into());
                out.push(err_code(e.kind()).to_string());
            }
        }
        out
    });
}
