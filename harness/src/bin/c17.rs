//! C17: the path loader never reads outside its base directory.
//!
//! mode 0 (pure, needs hook H1 = feature `hooks` -> minijinja/verif_hooks):
//!     input : 0 nb b1..bnb nn c1..cnn          base and template name as code points
//!     output: 0                                 safe_join returned None
//!             1 n p1..pn                        the joined path (code points)
//!             7                                 built without the hook
//! mode 1 (end to end, base directory = env C17_BASE):
//!     input : 1 how nn c1..cnn                  how: 0 get_template(name).render, 1 {% include name %},
//!                                               2 {% extends name %}, 3 {% import name as m %}{{ m.marker }},
//!                                               4 {% from name import marker %}{{ marker }},
//!                                               5 {% include [name] ignore missing %}, 6 bare path_loader closure
//!     output: 0 kind                            error (ErrorKind code of the error handed to the host)
//!             1 n o1..on                        rendered output (code points)
//!             3                                 loader closure returned Ok(None)
use minijinja::{context, path_loader, Environment};
use mjverif::*;

fn main() {
    let base = std::env::var("C17_BASE").unwrap_or_default();
    let mut env = Environment::new();
    let loader = path_loader(base.clone());
    if !base.is_empty() {
        env.set_loader(path_loader(base.clone()));
    }
    serve(2, |c| {
        let mode = c.i64();
        let mut out: Vec<String> = vec![];
        if mode == 0 {
            let b = c.str();
            let name = c.str();
            #[cfg(feature = "hooks")]
            {
                match minijinja::__verif::safe_join(std::path::Path::new(&b), &name) {
                    None => out.push("0".into()),
                    Some(p) => {
                        out.push("1".into());
                        match p.to_str() {
                            Some(s) => push_str(&mut out, s),
                            None => out.push("-1".into()),
                        }
                    }
                }
            }
            #[cfg(not(feature = "hooks"))]
            {
                let _ = (b, name);
                out.push("7".into());
            }
            return out;
        }
        let how = c.i64();
        let name = c.str();
        if how == 6 {
            match loader(&name) {
                Ok(Some(s)) => {
                    out.push("1".into());
                    push_str(&mut out, &s);
                }
                Ok(None) => out.push("3".into()),
                Err(e) => {
                    out.push("0".into());
                    out.push(err_code(e.kind()).to_string());
                }
            }
            return out;
        }
        let res = if how == 0 {
            env.get_template(&name).and_then(|t| t.render(context! {}))
        } else {
            let src = match how {
                1 => "{% include name %}",
                2 => "{% extends name %}",
                3 => "{% import name as m %}{{ m.marker }}",
                4 => "{% from name import marker %}{{ marker }}",
                _ => "{% include [name] ignore missing %}",
            };
            env.render_str(src, context! { name => name })
        };
        match res {
            Ok(s) => {
                out.push("1".into());
                push_str(&mut out, &s);
            }
            Err(e) => {
                out.push("0".into());
                out.push(err_code(e.kind()).to_string());
            }
        }
        out
    });
}
