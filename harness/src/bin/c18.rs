//! C18 harness: what a render / an expression evaluation asks the context for, next to the static
//! report of `undeclared_variables` (JSON lines in, JSON lines out).
//!
//! Request: {"tpl": source} or {"expr": source}, "ctx": json, "debug": bool (default false),
//!          "undefined": "lenient|strict|semistrict|chainable"
//!          or {"history": [op..], "ctx": json}: an operation sequence on ONE environment
//!             {"op":"syntax","block":[s,e],"var":[s,e],"comment":[s,e]} | {"op":"syntax_default"}
//!             {"op":"ws","trim_blocks":b,"lstrip_blocks":b,"keep_trailing_newline":b}
//!             {"op":"add","name":n,"src":s,"owned":bool}
//!             {"op":"check","name":n} | {"op":"check_str","src":s} | {"op":"check_expr","src":s}
//!          -> {"results": [one entry per check op, in the format below], "globals": [..]}
//! Response: {"load_err": code} when the source does not compile, otherwise
//!   {"asked": [keys the context object was asked for, sorted, distinct],
//!    "flat": undeclared_variables(false), "nested": undeclared_variables(true),
//!    "globals": names of the environment's globals, "render": {"ok": text} | {"err": code} | {"panic": msg}}
use std::io::{BufRead, Write};
use std::panic::{catch_unwind, AssertUnwindSafe};
use std::sync::{Arc, Mutex};

use minijinja::value::{Enumerator, Object, Value};
use minijinja::{Environment, UndefinedBehavior};
use serde_json::{json, Value as J};

/// Context object that records every key the engine asks it for.
#[derive(Debug)]
struct Recorder {
    inner: Value,
    asked: Arc<Mutex<Vec<String>>>,
}
impl Object for Recorder {
    fn get_value(self: &Arc<Self>, key: &Value) -> Option<Value> {
        if let Some(s) = key.as_str() {
            self.asked.lock().unwrap().push(s.to_string());
        }
        self.inner.get_item(key).ok().filter(|v| !v.is_undefined())
    }
    fn enumerate(self: &Arc<Self>) -> Enumerator {
        match self.inner.try_iter() {
            Ok(it) => Enumerator::Values(it.collect()),
            Err(_) => Enumerator::NonEnumerable,
        }
    }
}

fn sorted(it: impl IntoIterator<Item = String>) -> Vec<String> {
    let mut v: Vec<String> = it.into_iter().collect();
    v.sort();
    v.dedup();
    v
}

fn check_template(tmpl: &minijinja::Template<'_, '_>, ctxv: &Value) -> J {
    let flat = sorted(tmpl.undeclared_variables(false));
    let nested = sorted(tmpl.undeclared_variables(true));
    let asked = Arc::new(Mutex::new(vec![]));
    let rec = Value::from_object(Recorder { inner: ctxv.clone(), asked: asked.clone() });
    let r = match tmpl.render(rec) {
        Ok(s) => json!({"ok": s}),
        Err(e) => json!({"err": mjverif::err_code(e.kind())}),
    };
    let a = sorted(asked.lock().unwrap().clone());
    json!({"asked": a, "flat": flat, "nested": nested, "render": r})
}

fn pair(op: &J, key: &str, d: (&str, &str)) -> (String, String) {
    let a = op.get(key).and_then(|x| x.as_array());
    match a {
        Some(a) if a.len() == 2 => (
            a[0].as_str().unwrap_or(d.0).to_string(),
            a[1].as_str().unwrap_or(d.1).to_string(),
        ),
        _ => (d.0.to_string(), d.1.to_string()),
    }
}

fn run_history<'a>(req: &'a J) -> J {
    let mut env: Environment<'a> = Environment::new();
    minijinja_contrib::add_to_environment(&mut env);
    env.set_debug(false);
    let ctxv = Value::from(minijinja::value::Serde(req.get("ctx").cloned().unwrap_or(J::Null)));
    let mut results = vec![];
    let ops: &'a [J] = req.get("history").and_then(|x| x.as_array()).map(|x| x.as_slice()).unwrap_or(&[]);
    for op in ops {
        match op.get("op").and_then(|x| x.as_str()).unwrap_or("") {
            "syntax" => {
                let b = pair(op, "block", ("{%", "%}"));
                let v = pair(op, "var", ("{{", "}}"));
                let c = pair(op, "comment", ("{#", "#}"));
                match minijinja::syntax::SyntaxConfig::builder()
                    .block_delimiters(b.0, b.1)
                    .variable_delimiters(v.0, v.1)
                    .comment_delimiters(c.0, c.1)
                    .build()
                {
                    Ok(cfg) => env.set_syntax(cfg),
                    Err(e) => results.push(json!({"config_err": mjverif::err_code(e.kind())})),
                }
            }
            "syntax_default" => env.set_syntax(Default::default()),
            "ws" => {
                env.set_trim_blocks(op["trim_blocks"].as_bool().unwrap_or(false));
                env.set_lstrip_blocks(op["lstrip_blocks"].as_bool().unwrap_or(false));
                env.set_keep_trailing_newline(op["keep_trailing_newline"].as_bool().unwrap_or(false));
            }
            "add" => {
                let name = op.get("name").and_then(|x| x.as_str()).unwrap_or("t");
                let src = op.get("src").and_then(|x| x.as_str()).unwrap_or("");
                let r = if op.get("owned").and_then(|x| x.as_bool()).unwrap_or(false) {
                    env.add_template_owned(name.to_string(), src.to_string())
                } else {
                    env.add_template(name, src)
                };
                if let Err(e) = r {
                    results.push(json!({"add_err": mjverif::err_code(e.kind()), "name": name}));
                }
            }
            "check" => {
                let name = op.get("name").and_then(|x| x.as_str()).unwrap_or("t");
                match env.get_template(name) {
                    Ok(t) => {
                        let mut r = check_template(&t, &ctxv);
                        r["name"] = json!(name);
                        results.push(r);
                    }
                    Err(e) => results.push(json!({"load_err": mjverif::err_code(e.kind()), "name": name})),
                }
            }
            "check_str" => {
                let src = op.get("src").and_then(|x| x.as_str()).unwrap_or("");
                match env.template_from_str(src) {
                    Ok(t) => results.push(check_template(&t, &ctxv)),
                    Err(e) => results.push(json!({"load_err": mjverif::err_code(e.kind())})),
                }
            }
            "check_expr" => {
                let src = op.get("src").and_then(|x| x.as_str()).unwrap_or("");
                match env.compile_expression(src) {
                    Ok(expr) => {
                        let flat = sorted(expr.undeclared_variables(false));
                        let nested = sorted(expr.undeclared_variables(true));
                        let asked = Arc::new(Mutex::new(vec![]));
                        let rec = Value::from_object(Recorder { inner: ctxv.clone(), asked: asked.clone() });
                        let r = match expr.eval(rec) {
                            Ok(v) => json!({"ok": v.to_string()}),
                            Err(e) => json!({"err": mjverif::err_code(e.kind())}),
                        };
                        let a = sorted(asked.lock().unwrap().clone());
                        results.push(json!({"asked": a, "flat": flat, "nested": nested, "render": r}));
                    }
                    Err(e) => results.push(json!({"load_err": mjverif::err_code(e.kind())})),
                }
            }
            _ => {}
        }
    }
    let globals = sorted(env.globals().map(|x| x.0.to_string()));
    json!({"results": results, "globals": globals})
}

fn run(req: &J) -> J {
    if req.get("history").is_some() {
        return run_history(req);
    }
    let mut env = Environment::new();
    minijinja_contrib::add_to_environment(&mut env);
    env.set_debug(req.get("debug").and_then(|x| x.as_bool()).unwrap_or(false));
    if let Some(ub) = req.get("undefined").and_then(|x| x.as_str()) {
        env.set_undefined_behavior(match ub {
            "strict" => UndefinedBehavior::Strict,
            "semistrict" => UndefinedBehavior::SemiStrict,
            "chainable" => UndefinedBehavior::Chainable,
            _ => UndefinedBehavior::Lenient,
        });
    }
    let globals = sorted(env.globals().map(|x| x.0.to_string()));
    let ctxv = Value::from(minijinja::value::Serde(req.get("ctx").cloned().unwrap_or(J::Null)));
    let asked = Arc::new(Mutex::new(vec![]));
    let rec = Value::from_object(Recorder { inner: ctxv, asked: asked.clone() });
    if let Some(src) = req.get("expr").and_then(|x| x.as_str()) {
        let expr = match env.compile_expression(src) {
            Ok(e) => e,
            Err(e) => return json!({"load_err": mjverif::err_code(e.kind())}),
        };
        let flat = sorted(expr.undeclared_variables(false));
        let nested = sorted(expr.undeclared_variables(true));
        let r = match expr.eval(rec) {
            Ok(v) => json!({"ok": v.to_string()}),
            Err(e) => json!({"err": mjverif::err_code(e.kind())}),
        };
        let a = sorted(asked.lock().unwrap().clone());
        return json!({"asked": a, "flat": flat, "nested": nested, "globals": globals, "render": r});
    }
    let src = req.get("tpl").and_then(|x| x.as_str()).unwrap_or("");
    if let Err(e) = env.add_template("main", src) {
        return json!({"load_err": mjverif::err_code(e.kind())});
    }
    let tmpl = env.get_template("main").unwrap();
    let flat = sorted(tmpl.undeclared_variables(false));
    let nested = sorted(tmpl.undeclared_variables(true));
    let r = match tmpl.render(rec) {
        Ok(s) => json!({"ok": s}),
        Err(e) => json!({"err": mjverif::err_code(e.kind())}),
    };
    let a = sorted(asked.lock().unwrap().clone());
    json!({"asked": a, "flat": flat, "nested": nested, "globals": globals, "render": r})
}

fn main() {
    mjverif::install_quiet_panic_hook();
    // one worker thread with a roomy stack: the templates are tiny, recursion is stopped by the
    // engine's recursion limit long before
    let h = std::thread::Builder::new()
        .stack_size(64 * 1024 * 1024)
        .spawn(|| {
            let stdin = std::io::stdin();
            let stdout = std::io::stdout();
            for line in stdin.lock().lines() {
                let line = match line {
                    Ok(l) => l,
                    Err(_) => break,
                };
                if line.trim().is_empty() {
                    continue;
                }
                let res = match serde_json::from_str::<J>(&line) {
                    Ok(req) => match catch_unwind(AssertUnwindSafe(|| run(&req))) {
                        Ok(v) => v,
                        Err(p) => {
                            let msg = p
                                .downcast_ref::<String>()
                                .cloned()
                                .or_else(|| p.downcast_ref::<&str>().map(|s| s.to_string()))
                                .unwrap_or_default();
                            json!({"render": {"panic": msg}, "asked": [], "flat": [], "nested": [], "globals": []})
                        }
                    },
                    Err(_) => json!({"bad_request": true}),
                };
                let mut o = stdout.lock();
                let _ = writeln!(o, "{}", res);
                let _ = o.flush();
            }
        })
        .unwrap();
    let _ = h.join();
}
