//! C19 harness: renders templates into scripted `io::Write` sinks (JSON lines in / out).
//!
//! Request: {"templates": {name: source}, "main": name, "ctx": json, "undefined": "...",
//!           "entry": "template" (Template::render_captured_to) | "block:<name>" (State::render_block_to_write after a
//!                    render into a String) | "template+block:<name>" (render_captured_to, then render_block_to_write
//!                    from the returned state into the SAME sink),
//!           "formatter": true  -> Environment::set_formatter with a formatter that writes through the Output it is handed in
//!                                 every way the API offers (write_str, write_char, write! with and without placeholders,
//!                                 nested format_args!, escape_formatter), depending on the kind of the value,
//!           "objects": true    -> the context gets `obj`, an Object whose render() writes three pieces into the formatter,
//!           "sinks": [ {"script": [action, ...], "record": bool} , ... ]}
//! An action answers ONE call of `io::Write::write`; after the script is used up every call is
//! answered by the sink's "default" action ("full" unless given: a sink that KEEPS failing has
//! "default": "e:<kind>").  Actions:
//!   "full"          accept the whole buffer
//!   "a<n>"          accept at most n bytes, cut back to a char boundary is NOT done (ASCII templates);
//!                   "a0" answers Ok(0) (std's write_all turns this into ErrorKind::WriteZero)
//!   "e:<kind>"      fail with io::Error::new(kind, "injected#<call number>")
//!                   kind in brokenpipe | other | wouldblock | interrupted | timedout | unexpectedeof
//! Response: {"plain": {"ok": s} | {"err": code}, "sinks": [ {
//!     (all byte strings are hex encoded)
//!     "got": bytes accepted so far, "calls": number of write calls,
//!     "offered": [buffers of every call] (only when "record"), "accepted": [n | -1 for an error answer],
//!     "first_fail": index of the first call answered by a non-retryable failure | null,
//!     "offered_at_fail": buffer of that call, "calls_after_fail": calls made after it,
//!     "flushes": n, "result": {"ok": true} | {"err": code, "chain": [codes | "foreign"], "io_kind": "BrokenPipe", "io_msg": "..."}
//!                           | {"panic": msg} } ] }
use std::io::{BufRead, Write};
use std::panic::{catch_unwind, AssertUnwindSafe};
use std::sync::mpsc;
use std::time::Duration;

use minijinja::value::{Object, Value};
use minijinja::{context, Environment, Error, UndefinedBehavior};
use serde_json::{json, Value as J};

#[derive(Clone, Debug)]
enum Action {
    Full,
    Accept(usize),
    Fail(std::io::ErrorKind),
}

fn parse_action(s: &str) -> Action {
    if let Some(n) = s.strip_prefix('a') {
        if let Ok(n) = n.parse::<usize>() {
            return Action::Accept(n);
        }
    }
    if let Some(k) = s.strip_prefix("e:") {
        use std::io::ErrorKind::*;
        return Action::Fail(match k {
            "brokenpipe" => BrokenPipe,
            "wouldblock" => WouldBlock,
            "interrupted" => Interrupted,
            "timedout" => TimedOut,
            "unexpectedeof" => UnexpectedEof,
            _ => Other,
        });
    }
    Action::Full
}

struct ScriptSink {
    script: Vec<Action>,
    default: Action,
    record: bool,
    calls: usize,
    got: Vec<u8>,
    offered: Vec<String>,
    accepted: Vec<i64>,
    first_fail: Option<usize>,
    offered_at_fail: Option<String>, // hex
    calls_after_fail: usize,
    flushes: usize,
}

impl Write for ScriptSink {
    fn write(&mut self, buf: &[u8]) -> std::io::Result<usize> {
        let k = self.calls;
        self.calls += 1;
        if self.first_fail.is_some() {
            self.calls_after_fail += 1;
        }
        if self.record {
            self.offered.push(hex(buf));
        }
        let act = self.script.get(k).cloned().unwrap_or_else(|| self.default.clone());
        match act {
            Action::Full => {
                self.got.extend_from_slice(buf);
                self.accepted.push(buf.len() as i64);
                Ok(buf.len())
            }
            Action::Accept(n) => {
                let n = n.min(buf.len());
                self.got.extend_from_slice(&buf[..n]);
                self.accepted.push(n as i64);
                if n == 0 && !buf.is_empty() && self.first_fail.is_none() {
                    // Ok(0) on a non-empty buffer: a failure from write_all's point of view
                    self.first_fail = Some(k);
                    self.offered_at_fail = Some(hex(buf));
                }
                Ok(n)
            }
            Action::Fail(kind) => {
                self.accepted.push(-1);
                if kind != std::io::ErrorKind::Interrupted && self.first_fail.is_none() {
                    self.first_fail = Some(k);
                    self.offered_at_fail = Some(hex(buf));
                }
                Err(std::io::Error::new(kind, format!("injected#{}", k)))
            }
        }
    }
    fn flush(&mut self) -> std::io::Result<()> {
        self.flushes += 1;
        Ok(())
    }
}

/// An object that renders itself in several writes.
#[derive(Debug)]
struct Pieces;
impl Object for Pieces {
    fn render(self: &std::sync::Arc<Self>, f: &mut std::fmt::Formatter<'_>) -> std::fmt::Result {
        f.write_str("<obj ")?;
        write!(f, "{}", 42)?;
        f.write_str(">")
    }
}

fn hex(b: &[u8]) -> String {
    let mut s = String::with_capacity(b.len() * 2);
    for x in b {
        s.push_str(&format!("{:02x}", x));
    }
    s
}

fn err_json(e: &Error) -> J {
    let mut chain = vec![];
    let mut cur: Option<&dyn std::error::Error> = Some(e);
    let mut io_kind = J::Null;
    let mut io_msg = J::Null;
    while let Some(c) = cur {
        if let Some(me) = c.downcast_ref::<Error>() {
            chain.push(json!(mjverif::err_code(me.kind())));
        } else if let Some(io) = c.downcast_ref::<std::io::Error>() {
            chain.push(json!("io"));
            io_kind = json!(format!("{:?}", io.kind()));
            io_msg = json!(io.to_string());
        } else {
            chain.push(json!("foreign"));
        }
        cur = c.source();
    }
    // the property speaks about source() of the returned error itself
    let direct = std::error::Error::source(e).and_then(|s| s.downcast_ref::<std::io::Error>()).is_some();
    json!({"err": mjverif::err_code(e.kind()), "chain": chain, "io_kind": io_kind, "io_msg": io_msg, "source_is_io": direct})
}

fn make_sink(s: &J) -> ScriptSink {
    let script: Vec<Action> = s
        .get("script")
        .and_then(|x| x.as_array())
        .map(|a| a.iter().map(|x| parse_action(x.as_str().unwrap_or("full"))).collect())
        .unwrap_or_default();
    ScriptSink {
        script,
        default: s.get("default").and_then(|x| x.as_str()).map(parse_action).unwrap_or(Action::Full),
        record: s.get("record").and_then(|x| x.as_bool()).unwrap_or(false),
        calls: 0,
        got: vec![],
        offered: vec![],
        accepted: vec![],
        first_fail: None,
        offered_at_fail: None,
        calls_after_fail: 0,
        flushes: 0,
    }
}

fn sink_json(sink: &ScriptSink, result: J) -> J {
    let mut o = json!({"got": hex(&sink.got), "calls": sink.calls, "accepted": sink.accepted,
        "first_fail": sink.first_fail, "offered_at_fail": sink.offered_at_fail,
        "calls_after_fail": sink.calls_after_fail, "flushes": sink.flushes, "result": result});
    if sink.record {
        o["offered"] = json!(sink.offered);
    }
    o
}

fn panic_msg(p: Box<dyn std::any::Any + Send>) -> String {
    p.downcast_ref::<String>().cloned().or_else(|| p.downcast_ref::<&str>().map(|s| s.to_string())).unwrap_or_default()
}

/// HISTORIES on one State: render_captured once, then a sequence of calls on the captured state.
/// step: {"op": "block_to_write", "block": b, "script": [...], "default": a, "record": bool}
///     | {"op": "block", "block": b} | {"op": "macro", "name": m}
fn run_history(tmpl: &minijinja::Template<'_, '_>, ctxv: Value, steps: &[J]) -> J {
    let mut captured = match tmpl.render_captured(ctxv) {
        Ok(c) => c,
        Err(e) => return json!({"history_error": err_json(&e)}),
    };
    let mut out = vec![];
    for st in steps {
        let op = st.get("op").and_then(|x| x.as_str()).unwrap_or("");
        let name = st.get("block").or_else(|| st.get("name")).and_then(|x| x.as_str()).unwrap_or("");
        match op {
            "block_to_write" => {
                let mut sink = make_sink(st);
                let r = catch_unwind(AssertUnwindSafe(|| captured.with_state_mut(|state| state.render_block_to_write(name, &mut sink))));
                let result = match r {
                    Ok(Ok(())) => json!({"ok": true}),
                    Ok(Err(e)) => {
                        let _ = format!("{} {:#} {:?}", e, e, e);
                        err_json(&e)
                    }
                    Err(p) => json!({"panic": panic_msg(p)}),
                };
                out.push(sink_json(&sink, result));
            }
            "block" | "macro" => {
                let r = catch_unwind(AssertUnwindSafe(|| {
                    captured.with_state_mut(|state| if op == "block" { state.render_block(name) } else { state.call_macro(name, &[]) })
                }));
                out.push(match r {
                    Ok(Ok(s)) => json!({"result": {"ok": true}, "text": s}),
                    Ok(Err(e)) => json!({"result": err_json(&e)}),
                    Err(p) => json!({"result": {"panic": panic_msg(p)}}),
                });
            }
            _ => out.push(json!({"result": {"bad_step": true}})),
        }
    }
    json!({"history": out})
}

fn run(req: &J) -> J {
    let mut env = Environment::new();
    minijinja_contrib::add_to_environment(&mut env);
    if let Some(ub) = req.get("undefined").and_then(|x| x.as_str()) {
        env.set_undefined_behavior(match ub {
            "strict" => UndefinedBehavior::Strict,
            "semistrict" => UndefinedBehavior::SemiStrict,
            "chainable" => UndefinedBehavior::Chainable,
            _ => UndefinedBehavior::Lenient,
        });
    }
    if req.get("formatter").and_then(|x| x.as_bool()).unwrap_or(false) {
        // writes through the Output in EVERY way its API offers: write_str, write_char (fmt::Write), write! with a
        // literal-only format string, write! with placeholders, several pieces per value, nested format_args!,
        // and delegation to escape_formatter - which one depends on the kind of the value
        env.set_formatter(|out, state, value| {
            use minijinja::value::ValueKind;
            use std::fmt::Write as _;
            out.write_str("{")?;
            match value.kind() {
                ValueKind::None => write!(out, "null")?,
                ValueKind::Undefined => write!(out, "undef{{}}")?,
                ValueKind::Bool => {
                    out.write_char(if value.is_true() { 'T' } else { 'F' })?;
                    out.write_char('\u{e9}')?;
                }
                ValueKind::Number => write!(out, "n={}#{:>4}", value, "r")?,
                ValueKind::Seq => {
                    write!(out, "[")?;
                    for item in value.try_iter()? {
                        write!(out, "{}", format_args!("<{}|{}>", item, format_args!("{:?}", item.kind())))?;
                        out.write_str(",")?;
                    }
                    write!(out, "]")?;
                }
                _ => minijinja::escape_formatter(out, state, value)?,
            }
            write!(out, "}}")?;
            Ok(())
        });
    }
    if let Some(n) = req.get("recursion_limit").and_then(|x| x.as_u64()) {
        env.set_recursion_limit(n as usize);
    }
    let empty = serde_json::Map::new();
    let templates = req.get("templates").and_then(|x| x.as_object()).unwrap_or(&empty);
    for (name, src) in templates {
        if let Err(e) = env.add_template_owned(name.clone(), src.as_str().unwrap_or("").to_string()) {
            return json!({"load_error": {"name": name, "err": mjverif::err_code(e.kind())}});
        }
    }
    let main = req.get("main").and_then(|x| x.as_str()).unwrap_or("main");
    let entry = req.get("entry").and_then(|x| x.as_str()).unwrap_or("template");
    let both = entry.strip_prefix("template+block:");
    let block = entry.strip_prefix("block:");
    let mut ctxv = Value::from(minijinja::value::Serde(req.get("ctx").cloned().unwrap_or(J::Null)));
    if req.get("objects").and_then(|x| x.as_bool()).unwrap_or(false) {
        // values a JSON context cannot carry
        ctxv = context! {
            obj => Value::from_object(Pieces),
            fnan => Value::from(f64::NAN),
            finf => Value::from(f64::INFINITY),
            fninf => Value::from(f64::NEG_INFINITY),
            fnegzero => Value::from(-0.0f64),
            ubig => Value::from(u128::MAX),
            imin => Value::from(i128::MIN),
            u64max => Value::from(u64::MAX),
            raw_bytes => Value::from_bytes(vec![104, 105, 0, 255, 60]),
            ch => Value::from('<'),
            ..ctxv
        };
    }
    let tmpl = match env.get_template(main) {
        Ok(t) => t,
        Err(e) => return json!({"load_error": {"name": main, "err": mjverif::err_code(e.kind())}}),
    };
    if let Some(steps) = req.get("history").and_then(|x| x.as_array()) {
        return run_history(&tmpl, ctxv, steps);
    }
    let plain = match (block, both) {
        (None, Some(b)) => match tmpl.render_captured(ctxv.clone()).and_then(|mut c| {
            let first = c.output().to_string();
            c.with_state_mut(|st| st.render_block(b)).map(|second| first + &second)
        }) {
            Ok(s) => json!({"ok": s}),
            Err(e) => json!({"err": mjverif::err_code(e.kind())}),
        },
        (None, None) => match tmpl.render(ctxv.clone()) {
            Ok(s) => json!({"ok": s}),
            Err(e) => json!({"err": mjverif::err_code(e.kind())}),
        },
        (Some(b), _) => match tmpl.render_captured(ctxv.clone()).and_then(|mut c| c.with_state_mut(|st| st.render_block(b))) {
            Ok(s) => json!({"ok": s}),
            Err(e) => json!({"err": mjverif::err_code(e.kind())}),
        },
    };
    let mut sinks_out = vec![];
    for s in req.get("sinks").and_then(|x| x.as_array()).cloned().unwrap_or_default() {
        let script: Vec<Action> = s
            .get("script")
            .and_then(|x| x.as_array())
            .map(|a| a.iter().map(|x| parse_action(x.as_str().unwrap_or("full"))).collect())
            .unwrap_or_default();
        let mut sink = ScriptSink {
            script,
            default: s.get("default").and_then(|x| x.as_str()).map(parse_action).unwrap_or(Action::Full),
            record: s.get("record").and_then(|x| x.as_bool()).unwrap_or(false),
            calls: 0,
            got: vec![],
            offered: vec![],
            accepted: vec![],
            first_fail: None,
            offered_at_fail: None,
            calls_after_fail: 0,
            flushes: 0,
        };
        let r = catch_unwind(AssertUnwindSafe(|| match (block, both) {
            (None, Some(b)) => tmpl
                .render_captured_to(ctxv.clone(), &mut sink)
                .and_then(|mut c| c.with_state_mut(|st| st.render_block_to_write(b, &mut sink))),
            (None, None) => tmpl.render_captured_to(ctxv.clone(), &mut sink).map(|_| ()),
            (Some(b), _) => tmpl
                .render_captured(ctxv.clone())
                .and_then(|mut c| c.with_state_mut(|st| st.render_block_to_write(b, &mut sink))),
        }));
        let result = match r {
            Ok(Ok(())) => json!({"ok": true}),
            Ok(Err(e)) => {
                // formatting the error must not panic either
                let _ = format!("{} {:#} {:?}", e, e, e);
                err_json(&e)
            }
            Err(p) => {
                let msg = p
                    .downcast_ref::<String>()
                    .cloned()
                    .or_else(|| p.downcast_ref::<&str>().map(|s| s.to_string()))
                    .unwrap_or_default();
                json!({"panic": msg})
            }
        };
        let mut o = json!({"got": hex(&sink.got), "calls": sink.calls, "accepted": sink.accepted,
            "first_fail": sink.first_fail, "offered_at_fail": sink.offered_at_fail,
            "calls_after_fail": sink.calls_after_fail, "flushes": sink.flushes, "result": result});
        if sink.record {
            o["offered"] = json!(sink.offered);
        }
        sinks_out.push(o);
    }
    json!({"plain": plain, "sinks": sinks_out})
}

fn main() {
    mjverif::install_quiet_panic_hook();
    let stdin = std::io::stdin();
    let stdout = std::io::stdout();
    let watchdog_ms: u64 = std::env::var("MJVERIF_WATCHDOG_MS").ok().and_then(|x| x.parse().ok()).unwrap_or(20000);
    for line in stdin.lock().lines() {
        let line = match line {
            Ok(l) => l,
            Err(_) => break,
        };
        if line.trim().is_empty() {
            continue;
        }
        let req: J = match serde_json::from_str(&line) {
            Ok(v) => v,
            Err(_) => {
                println!("{}", json!({"bad_request": true}));
                continue;
            }
        };
        let (tx, rx) = mpsc::channel();
        let h = std::thread::Builder::new().stack_size(4 << 20).spawn(move || {
            let r = catch_unwind(AssertUnwindSafe(|| run(&req)));
            let _ = tx.send(match r {
                Ok(v) => v,
                Err(p) => {
                    let msg = p
                        .downcast_ref::<String>()
                        .cloned()
                        .or_else(|| p.downcast_ref::<&str>().map(|s| s.to_string()))
                        .unwrap_or_default();
                    json!({"panic": msg})
                }
            });
        });
        let res = match rx.recv_timeout(Duration::from_millis(watchdog_ms)) {
            Ok(v) => v,
            Err(_) => {
                let mut o = stdout.lock();
                let _ = writeln!(o, "{}", json!({"hang": true}));
                let _ = o.flush();
                std::process::exit(3);
            }
        };
        if let Ok(h) = h {
            let _ = h.join();
        }
        let mut o = stdout.lock();
        let _ = writeln!(o, "{}", res);
        let _ = o.flush();
    }
}
