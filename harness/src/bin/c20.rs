//! C20: deterministic scheduler for the auto reloader (needs hook H3, cargo feature `hooks`).
//!
//! Worker threads perform scripted operations on one real `AutoReloader`; they park at every
//! yield point of the reloader (before each lock acquisition, around the creator call) AND inside
//! the user callbacks (freshness callback, on-should-reload callback: these run with the notifier
//! mutex held and may take arbitrarily long), and a controller releases exactly one thread at a
//! time.  A *step* is what a released thread does until it parks again; each step becomes one
//! event `tid point a g v w` of the trace:
//!
//!   point  1 REQ_SET (request_reload: flag section; a = number of the source version the requester published
//!            before the call)                            2 REQ_NOTIFY (callback section; a = 4 if it ends inside the callback)
//!          3 ACQ_CACHE (cache mutex)                     4 ACQ_CHECK (should_reload; a = 1 if it ends inside the freshness callback)
//!          5 ACQ_MARK (flag reset)                       6 ACQ_FAST (fast_reload read, maybe clear)
//!          7 CRE_START (a = generation of this creator call)   8 CRE_END (a = 1 creator Ok, 0 Err)
//!          9 ACQ_RESTORE (flag restored after a failed creator)   10 DROP (guard dropped; g v w re-observed before the drop)
//!         11 FRESH_END (freshness callback returns; a = 1 false, 2 true, +4 if it ends inside the on-should-reload callback)
//!         12 ONCB_END (on-should-reload callback returns)
//!         11/12 with a = 3 / a = 1: the callback PANICS instead of returning;  14 CRE_PANIC (the creator panics)
//!         13 BLOCKED (a = the point the thread was released from: it tried to take the notifier mutex while another
//!            thread was parked inside a callback, and went to sleep on the mutex; it continues right after the
//!            step that releases the mutex)
//!   g v w  what returned in this step: 0 nothing, -1 acquire_env returned Err, -2 request_reload returned,
//!          -3 the operation (acquire_env / request_reload) ended in a panic, caught by the worker (a panicking creator or
//!          callback, or lock().unwrap() on a mutex that an earlier panic poisoned),
//!          otherwise acquire_env returned a guard: g = generation of the creator call that built the environment,
//!          v = number of completed REQ_SET steps when its template "v" was (re)loaded, w = source version it shows
//!          (0 if template "m", which the loader knows from source version 1 on, cannot be found in it).
//!
//! While a thread is parked inside a callback the notifier mutex is held.  A thread parked before a
//! notifier lock can then only be released *speculatively* (at most one at a time): the controller
//! watches whether it really goes to sleep on the mutex (kernel thread state, /proc) - event BLOCKED -
//! or gets past the lock attempt without blocking (then its step is recorded like any other: a lock
//! attempt that neither acquires nor blocks is visible in the trace).
//!
//! Case (one line): mode fast fresh oncb ncre c1..cn nthreads (nops op..)* nsched s1..sn params..
//!   mode 0: run this schedule (then lowest enabled thread id), print one run line
//!   mode 1: params = limit d k j: DFS over all maximal schedules extending the prefix, at most `limit` runs,
//!           only the part j of k (by hash of the first d choices); one run line each, then `END runs truncated`
//!   mode 2: params = count seed: random schedules extending the prefix; run lines, then END
//!   ops: 1 request_reload, 2 acquire_env + hold + drop;  creator script: bit0 = fail, bit1 = request inside, bit2 = panic
//!   fresh: 0 no callback, 1 always false, 2 always true, 3 alternate starting true, 4 alternate starting false,
//!          5 first poll panics, 6 first poll true, second poll panics
//!   oncb:  0 no callback, 1 callback, 2 its first invocation panics, 3 its second invocation panics
//! Environment: MJVERIF_WATCHDOG_S (hand-over watchdog, default 20 s, multiplied by the 1-minute load average per cpu),
//!   MJVERIF_DEADLINE_EPOCH (wall-clock budget: enumerations stop there and report `truncated`).
//! Run line: `R <mode-0 case with the full schedule> | fast fresh oncb nev (tid point a g v w)* | loads oncb_calls status`
//!   status 0 ok, 3 schedule names a thread that is not enabled.  Deadlock / hang: line `HANG ...` and exit 3.
use minijinja::{Environment, Error, ErrorKind};
use minijinja_autoreload::{AutoReloader, Notifier};
use mjverif::Rng;
use std::cell::RefCell;
use std::io::{BufRead, Write};
use std::panic::{catch_unwind, AssertUnwindSafe};
use std::sync::atomic::{AtomicU8, Ordering};
use std::sync::{Arc, Condvar, Mutex};
use std::time::{Duration, Instant};

#[derive(Clone, Copy, PartialEq, Debug)]
enum Status {
    Starting,
    Parked(i64),
    Running,
    Done,
}

#[derive(Clone, Copy)]
struct Ev {
    tid: usize,
    pt: i64,
    a: i64,
    g: i64,
    v: i64,
    w: i64,
}

struct Inner {
    status: Vec<Status>,
    turn: Option<usize>,
    cur: Vec<Option<Ev>>,
    out: Vec<Vec<Ev>>, // finished events per thread; the controller moves them into the trace
    ktid: Vec<u64>,    // kernel thread ids
    reqs_done: i64,
    src: i64,
    gen: i64,
    loads: i64,
    oncb: i64,
    fresh_calls: i64,
    last_creator_ok: bool,
}

struct Shared {
    m: Mutex<Inner>,
    cv: Condvar,          // controller waits here
    tcv: Vec<Condvar>,    // worker t waits on tcv[t]
    idle: Vec<AtomicU8>,  // 1 = thread t is parked or done (readable without the mutex)
}

thread_local! {
    static CTX: RefCell<Option<(Arc<Shared>, usize)>> = RefCell::new(None);
}

fn ctx() -> Option<(Arc<Shared>, usize)> {
    CTX.with(|c| c.borrow().clone())
}

fn point_code(name: &str) -> i64 {
    match name {
        "request_reload:flag_lock" => 1,
        "request_reload:callback_lock" => 2,
        "acquire_env:cache_lock" => 3,
        "should_reload:lock" => 4,
        "prepare_and_mark_reload:flag_lock" => 5,
        "fast_reload:lock" => 6,
        "acquire_env:creator_before" => 7,
        "acquire_env:creator_after" => 8,
        "restore_reload:lock" => 9,
        "drop" => 10,
        _ => 99,
    }
}

/// points that are followed by an acquisition of the notifier mutex
fn takes_notifier(pt: i64) -> bool {
    matches!(pt, 1 | 2 | 4 | 5 | 6 | 9)
}

impl Shared {
    fn yield_at(&self, tid: usize, pt: i64) {
        let mut g = self.m.lock().unwrap();
        if let Some(ev) = g.cur[tid].take() {
            if ev.pt == 1 && ev.g != -3 {
                // the step that ran the flag section of request_reload is complete
                g.reqs_done += 1;
            }
            g.out[tid].push(ev);
        }
        g.status[tid] = Status::Parked(pt);
        self.idle[tid].store(1, Ordering::SeqCst);
        self.cv.notify_one();
        while g.turn != Some(tid) {
            g = self.tcv[tid].wait(g).unwrap();
        }
        g.turn = None;
        g.status[tid] = Status::Running;
        let a = match pt {
            8 => g.last_creator_ok as i64,
            1 => {
                // the requester publishes a new source version, then notifies
                g.src += 1;
                g.src
            }
            _ => 0,
        };
        g.cur[tid] = Some(Ev { tid, pt, a, g: 0, v: 0, w: 0 });
    }
    fn finish(&self, tid: usize) {
        let mut g = self.m.lock().unwrap();
        if let Some(ev) = g.cur[tid].take() {
            if ev.pt == 1 && ev.g != -3 {
                g.reqs_done += 1;
            }
            g.out[tid].push(ev);
        }
        g.status[tid] = Status::Done;
        self.idle[tid].store(1, Ordering::SeqCst);
        self.cv.notify_one();
    }
    fn set_cur<F: FnOnce(&mut Ev)>(&self, tid: usize, f: F) {
        let mut g = self.m.lock().unwrap();
        if let Some(ev) = g.cur[tid].as_mut() {
            f(ev);
        }
    }
}

#[derive(Clone)]
struct Config {
    fast: i64,
    fresh: i64,
    oncb: i64,
    creators: Vec<i64>,
    threads: Vec<Vec<i64>>,
}

fn observe(env: &Environment<'static>) -> (i64, i64, i64) {
    let s = env
        .get_template("v")
        .and_then(|t| t.render(()))
        .unwrap_or_else(|_| "-7 -7 -7".into());
    let mut it = s.split_whitespace().map(|x| x.parse::<i64>().unwrap_or(-7));
    let (g, v, w) = (it.next().unwrap_or(-7), it.next().unwrap_or(-7), it.next().unwrap_or(-7));
    // template "m" exists from source version 1 on: an environment in which it cannot be found shows version 0
    // (whenever "v" shows a version >= 1 the loader does know "m", so this changes nothing unless a lookup is stale)
    let m_found = env.get_template("m").is_ok();
    (g, v, if m_found { w } else { 0 })
}

/// kernel scheduling state of a thread of this process ('S' = sleeping, e.g. on a futex)
fn kernel_state(ktid: u64) -> u8 {
    match std::fs::read_to_string(format!("/proc/self/task/{}/stat", ktid)) {
        Ok(s) => match s.rfind(')') {
            Some(i) => s.as_bytes().get(i + 2).copied().unwrap_or(b'?'),
            None => b'?',
        },
        Err(_) => b'?',
    }
}

fn my_ktid() -> u64 {
    std::fs::read_link("/proc/thread-self")
        .ok()
        .and_then(|p| p.file_name().and_then(|f| f.to_str().and_then(|s| s.parse().ok())))
        .unwrap_or(0)
}

/// How oversubscribed the machine is (1-minute load average per cpu, clamped to 1..=20); refreshed every 128 runs.
fn load_factor() -> f64 {
    use std::sync::atomic::AtomicU64;
    static RUNS: AtomicU64 = AtomicU64::new(0);
    static FACTOR_X100: AtomicU64 = AtomicU64::new(100);
    if RUNS.fetch_add(1, Ordering::Relaxed) % 128 == 0 {
        let load = std::fs::read_to_string("/proc/loadavg")
            .ok()
            .and_then(|s| s.split_whitespace().next().and_then(|x| x.parse::<f64>().ok()))
            .unwrap_or(0.0);
        let ncpu = std::thread::available_parallelism().map(|n| n.get()).unwrap_or(1) as f64;
        let f = (load / ncpu).clamp(1.0, 20.0);
        FACTOR_X100.store((f * 100.0) as u64, Ordering::Relaxed);
    }
    FACTOR_X100.load(Ordering::Relaxed) as f64 / 100.0
}

/// The hand-over watchdog: MJVERIF_WATCHDOG_S (default 20 s) scaled by the load factor.  A released thread needs
/// microseconds of cpu to reach its next yield point; the watchdog only has to tell a dead-lock from a starved process.
fn watchdog(factor: f64) -> Duration {
    let base = std::env::var("MJVERIF_WATCHDOG_S").ok().and_then(|s| s.parse::<f64>().ok()).unwrap_or(20.0);
    Duration::from_secs_f64(base * factor)
}

/// Wall-clock budget: MJVERIF_DEADLINE_EPOCH (seconds since the epoch).  Enumerations stop there and say `truncated`.
fn deadline_passed() -> bool {
    use std::sync::OnceLock;
    static DEADLINE: OnceLock<Option<f64>> = OnceLock::new();
    let d = DEADLINE.get_or_init(|| std::env::var("MJVERIF_DEADLINE_EPOCH").ok().and_then(|s| s.parse::<f64>().ok()));
    match d {
        Some(d) => std::time::SystemTime::now().duration_since(std::time::UNIX_EPOCH).map(|n| n.as_secs_f64() > *d).unwrap_or(false),
        None => false,
    }
}

struct RunResult {
    path: Vec<(usize, u32)>,
    trace: Vec<Ev>,
    loads: i64,
    oncb: i64,
    status: i64,
}

fn hang(what: &str, cfg: &Config, sched: &[usize]) -> ! {
    let out = std::io::stdout();
    let mut out = out.lock();
    let _ = writeln!(out, "HANG {} {}", what, case_string(cfg, sched));
    let _ = out.flush();
    std::process::exit(3);
}

/// Runs one schedule: `prefix` first, then `pick(enabled)` (None = lowest enabled id).
fn run_one(cfg: &Config, prefix: &[usize], rng: &mut Option<Rng>) -> RunResult {
    let n = cfg.threads.len();
    let factor = load_factor();
    let wd = watchdog(factor);
    let sh = Arc::new(Shared {
        m: Mutex::new(Inner {
            status: vec![Status::Starting; n],
            turn: None,
            cur: vec![None; n],
            out: vec![Vec::new(); n],
            ktid: vec![0; n],
            reqs_done: 0,
            src: 0,
            gen: 0,
            loads: 0,
            oncb: 0,
            fresh_calls: 0,
            last_creator_ok: true,
        }),
        cv: Condvar::new(),
        tcv: (0..n).map(|_| Condvar::new()).collect(),
        idle: (0..n).map(|_| AtomicU8::new(0)).collect(),
    });
    let script = cfg.creators.clone();
    let reloader = Arc::new(AutoReloader::new(move |notifier: Notifier| {
        let (sh, tid) = ctx().expect("creator called outside a worker");
        let (gen, act) = {
            let mut g = sh.m.lock().unwrap();
            g.gen += 1;
            let gen = g.gen;
            if let Some(ev) = g.cur[tid].as_mut() {
                ev.a = gen;
            }
            (gen, script.get(gen as usize - 1).copied().unwrap_or(0))
        };
        let mut env = Environment::new();
        env.add_global("g", gen);
        let sh2 = sh.clone();
        env.set_loader(move |name| {
            if name == "v" {
                let mut g = sh2.m.lock().unwrap();
                g.loads += 1;
                Ok(Some(format!("{{{{ g }}}} {} {}", g.reqs_done, g.src)))
            } else if name == "m" {
                // a template that does not exist before the first source change ("file created later")
                let g = sh2.m.lock().unwrap();
                Ok(if g.src >= 1 { Some("m".to_string()) } else { None })
            } else {
                Ok(None)
            }
        });
        // load eagerly: the environment reflects every change notified before the creator started
        env.get_template("v")?;
        if act & 2 != 0 {
            notifier.request_reload();
            sh.set_cur(tid, |ev| ev.g = -2);
        }
        if act & 4 != 0 {
            // user code blowing up in the middle of a rebuild
            sh.yield_at(tid, 14);
            panic!("scripted creator panic");
        }
        let ok = act & 1 == 0;
        sh.m.lock().unwrap().last_creator_ok = ok;
        if ok {
            Ok(env)
        } else {
            Err(Error::new(ErrorKind::InvalidOperation, "scripted creator failure"))
        }
    }));
    let notifier = reloader.notifier();
    notifier.set_fast_reload(cfg.fast != 0);
    if cfg.fresh != 0 {
        let mode = cfg.fresh;
        notifier.set_callback(move || {
            // user code running with the notifier mutex held: a preemptible region
            let (shc, tid) = match ctx() {
                Some(c) => c,
                None => return false,
            };
            shc.set_cur(tid, |ev| ev.a = 1);
            shc.yield_at(tid, 11);
            let mut g = shc.m.lock().unwrap();
            let k = g.fresh_calls;
            g.fresh_calls += 1;
            if (mode == 5 && k == 0) || (mode == 6 && k == 1) {
                if let Some(ev) = g.cur[tid].as_mut() {
                    ev.a = 3;
                }
                drop(g);
                panic!("scripted freshness callback panic");
            }
            let ans = match mode {
                1 | 5 => false,
                2 | 6 => true,
                3 => k % 2 == 0,
                _ => k % 2 == 1,
            };
            if let Some(ev) = g.cur[tid].as_mut() {
                ev.a = if ans { 2 } else { 1 };
            }
            ans
        });
    }
    if cfg.oncb != 0 {
        let mode = cfg.oncb;
        notifier.set_on_should_reload_callback(move || {
            if let Some((shc, tid)) = ctx() {
                let n = {
                    let mut g = shc.m.lock().unwrap();
                    g.oncb += 1;
                    if let Some(ev) = g.cur[tid].as_mut() {
                        ev.a += 4;
                    }
                    g.oncb
                };
                shc.yield_at(tid, 12);
                if (mode == 2 && n == 1) || (mode == 3 && n == 2) {
                    shc.set_cur(tid, |ev| ev.a = 1);
                    panic!("scripted on-should-reload callback panic");
                }
            }
        });
    }
    let mut handles = Vec::new();
    for (tid, ops) in cfg.threads.iter().enumerate() {
        let sh = sh.clone();
        let reloader = reloader.clone();
        let ops = ops.clone();
        let builder = std::thread::Builder::new().stack_size(512 * 1024);
        handles.push(builder.spawn(move || {
            CTX.with(|c| *c.borrow_mut() = Some((sh.clone(), tid)));
            sh.m.lock().unwrap().ktid[tid] = my_ktid();
            let notifier = reloader.notifier();
            for op in ops {
                match op {
                    1 => match catch_unwind(AssertUnwindSafe(|| notifier.request_reload())) {
                        Ok(()) => sh.set_cur(tid, |ev| ev.g = -2),
                        Err(_) => sh.set_cur(tid, |ev| ev.g = -3),
                    },
                    _ => match catch_unwind(AssertUnwindSafe(|| reloader.acquire_env())) {
                        Err(_) => sh.set_cur(tid, |ev| ev.g = -3),
                        Ok(Err(_)) => sh.set_cur(tid, |ev| ev.g = -1),
                        Ok(Ok(guard)) => {
                            let (g, v, w) = observe(&guard);
                            sh.set_cur(tid, |ev| {
                                ev.g = g;
                                ev.v = v;
                                ev.w = w;
                            });
                            sh.yield_at(tid, 10);
                            let (g, v, w) = observe(&guard);
                            sh.set_cur(tid, |ev| {
                                ev.g = g;
                                ev.v = v;
                                ev.w = w;
                            });
                            drop(guard);
                        }
                    },
                }
            }
            sh.finish(tid);
            CTX.with(|c| *c.borrow_mut() = None);
        }).expect("spawn"));
    }
    // controller
    let mut path: Vec<(usize, u32)> = Vec::new();
    let mut trace: Vec<Ev> = Vec::new();
    let mut status = 0;
    let mut holder: Option<usize> = None; // cache mutex, from the observed events
    let mut limbo: Option<usize> = None;  // the one thread asleep on the notifier mutex
    let mut last: Option<usize> = None;
    let sched_of = |path: &Vec<(usize, u32)>| -> Vec<usize> { path.iter().map(|p| p.0).collect() };
    loop {
        let mut g = sh.m.lock().unwrap();
        let busy = |g: &Inner, limbo: Option<usize>| {
            g.status.iter().enumerate().any(|(t, s)| Some(t) != limbo && matches!(s, Status::Running | Status::Starting))
        };
        while busy(&g, limbo) {
            let t0 = Instant::now();
            let (g2, _) = sh.cv.wait_timeout(g, wd).unwrap();
            g = g2;
            if t0.elapsed() >= wd && busy(&g, limbo) {
                drop(g);
                hang("thread-did-not-reach-a-yield-point", cfg, &sched_of(&path));
            }
        }
        // move the finished events into the trace: the thread that was released first
        let mut order: Vec<usize> = Vec::new();
        if let Some(t) = last {
            order.push(t);
        }
        order.extend((0..n).filter(|t| Some(*t) != last));
        let notifier_held = g.status.iter().any(|s| matches!(s, Status::Parked(11) | Status::Parked(12)));
        if let Some(t) = limbo {
            if !matches!(g.status[t], Status::Running) {
                // it already took the released mutex and reached its next yield point
                limbo = None;
            } else if !notifier_held {
                // the mutex was released by the last step: the sleeper takes it and runs to its next yield point
                let t0 = Instant::now();
                while matches!(g.status[t], Status::Running) {
                    let (g2, _) = sh.cv.wait_timeout(g, Duration::from_millis(200)).unwrap();
                    g = g2;
                    if t0.elapsed() > wd {
                        drop(g);
                        hang("blocked-thread-did-not-continue-after-the-notifier-mutex-was-released", cfg, &sched_of(&path));
                    }
                }
                limbo = None;
            }
        }
        for t in order {
            if Some(t) == limbo {
                continue;
            }
            let evs: Vec<Ev> = g.out[t].drain(..).collect();
            for ev in evs {
                if ev.pt == 3 {
                    holder = Some(ev.tid);
                }
                if ev.g == -1 || ev.pt == 10 || (ev.g == -3 && holder == Some(ev.tid)) {
                    holder = None;
                }
                trace.push(ev);
            }
        }
        if g.status.iter().all(|s| *s == Status::Done) {
            break;
        }
        let notifier_held = g.status.iter().any(|s| matches!(s, Status::Parked(11) | Status::Parked(12)));
        let mut mask = 0u32;
        for (t, s) in g.status.iter().enumerate() {
            if Some(t) == limbo {
                continue;
            }
            if let Status::Parked(p) = s {
                let en = if *p == 3 {
                    holder.is_none()
                } else if takes_notifier(*p) {
                    !notifier_held || limbo.is_none()
                } else {
                    true
                };
                if en {
                    mask |= 1 << t;
                }
            }
        }
        if mask == 0 {
            drop(g);
            hang("deadlock-no-thread-enabled", cfg, &sched_of(&path));
        }
        let i = path.len();
        let t = if i < prefix.len() {
            let t = prefix[i];
            if t >= n || mask & (1 << t) == 0 {
                status = 3;
                mask.trailing_zeros() as usize
            } else {
                t
            }
        } else if let Some(r) = rng.as_mut() {
            let en: Vec<usize> = (0..n).filter(|t| mask & (1 << t) != 0).collect();
            en[r.below(en.len() as u64) as usize]
        } else {
            mask.trailing_zeros() as usize
        };
        path.push((t, mask));
        let pt = match g.status[t] {
            Status::Parked(p) => p,
            _ => 0,
        };
        let speculative = takes_notifier(pt) && notifier_held;
        let ktid = g.ktid[t];
        g.turn = Some(t);
        g.status[t] = Status::Running;
        sh.idle[t].store(0, Ordering::SeqCst);
        sh.tcv[t].notify_one();
        last = Some(t);
        drop(g);
        if speculative {
            // does it go to sleep on the mutex, or does it get past the lock attempt?
            // asleep = the kernel reports 'S' at >= 3 consecutive looks that span a window which grows with the load
            let window = Duration::from_micros((150.0 * factor) as u64);
            let t0 = Instant::now();
            let mut sleeping = 0;
            let mut first_s = Instant::now();
            loop {
                if sh.idle[t].load(Ordering::SeqCst) == 1 {
                    break; // it parked again / finished: recorded as an ordinary step
                }
                if kernel_state(ktid) == b'S' && sh.idle[t].load(Ordering::SeqCst) == 0 {
                    if sleeping == 0 {
                        first_s = Instant::now();
                    }
                    sleeping += 1;
                    if sleeping >= 3 && first_s.elapsed() >= window {
                        limbo = Some(t);
                        trace.push(Ev { tid: t, pt: 13, a: pt, g: 0, v: 0, w: 0 });
                        break;
                    }
                } else {
                    sleeping = 0;
                }
                std::thread::yield_now();
                if t0.elapsed() > wd {
                    hang("speculatively-released-thread-neither-parked-nor-slept", cfg, &sched_of(&path));
                }
            }
        }
    }
    for h in handles {
        let _ = h.join();
    }
    let g = sh.m.lock().unwrap();
    RunResult { path, trace, loads: g.loads, oncb: g.oncb, status }
}

fn cfg_string(cfg: &Config) -> String {
    let mut v: Vec<String> = vec![cfg.fast.to_string(), cfg.fresh.to_string(), cfg.oncb.to_string(), cfg.creators.len().to_string()];
    v.extend(cfg.creators.iter().map(|c| c.to_string()));
    v.push(cfg.threads.len().to_string());
    for t in &cfg.threads {
        v.push(t.len().to_string());
        v.extend(t.iter().map(|c| c.to_string()));
    }
    v.join(" ")
}

fn case_string(cfg: &Config, sched: &[usize]) -> String {
    let s: Vec<String> = sched.iter().map(|t| t.to_string()).collect();
    format!("0 {} {} {}", cfg_string(cfg), sched.len(), s.join(" ")).trim_end().to_string()
}

fn run_line(cfg: &Config, r: &RunResult) -> String {
    let sched: Vec<usize> = r.path.iter().map(|p| p.0).collect();
    let mut ev: Vec<String> = vec![cfg.fast.to_string(), cfg.fresh.to_string(), cfg.oncb.to_string(), r.trace.len().to_string()];
    for e in &r.trace {
        ev.push(format!("{} {} {} {} {} {}", e.tid, e.pt, e.a, e.g, e.v, e.w));
    }
    format!("R {} | {} | {} {} {}", case_string(cfg, &sched), ev.join(" "), r.loads, r.oncb, r.status)
}

fn part_of(path: &[usize], d: usize, k: u64) -> u64 {
    let mut h: u64 = 1469598103934665603;
    for t in path.iter().take(d) {
        h = (h ^ (*t as u64 + 1)).wrapping_mul(1099511628211);
    }
    (h >> 7) % k.max(1)
}

struct Dfs<'a, W: Write> {
    cfg: &'a Config,
    out: &'a mut W,
    limit: u64,
    d: usize,
    k: u64,
    j: u64,
    runs: u64,
    emitted: u64,
    truncated: bool,
}

impl<'a, W: Write> Dfs<'a, W> {
    fn explore(&mut self, prefix: Vec<usize>) {
        let mut stack = vec![prefix];
        while let Some(p) = stack.pop() {
            if p.len() >= self.d && part_of(&p, self.d, self.k) != self.j {
                continue;
            }
            if self.emitted >= self.limit || deadline_passed() {
                self.truncated = true;
                return;
            }
            let r = run_one(self.cfg, &p, &mut None);
            self.runs += 1;
            let sched: Vec<usize> = r.path.iter().map(|x| x.0).collect();
            if part_of(&sched, self.d, self.k) == self.j {
                self.emitted += 1;
                let _ = writeln!(self.out, "{}", run_line(self.cfg, &r));
            }
            // alternatives (pushed so that the leftmost subtree is explored first)
            for i in (p.len()..r.path.len()).rev() {
                let (chosen, mask) = r.path[i];
                for t in (0..32usize).rev() {
                    if t != chosen && mask & (1 << t) != 0 {
                        let mut q = sched[..i].to_vec();
                        q.push(t);
                        stack.push(q);
                    }
                }
            }
        }
    }
}

fn main() {
    mjverif::install_quiet_panic_hook();
    minijinja_autoreload::__verif::set_yield_hook(Some(Box::new(|name| {
        if let Some((sh, tid)) = ctx() {
            sh.yield_at(tid, point_code(name));
        }
    })));
    let stdin = std::io::stdin();
    let stdout = std::io::stdout();
    let mut out = std::io::BufWriter::new(stdout.lock());
    for line in stdin.lock().lines() {
        let line = match line {
            Ok(l) => l,
            Err(_) => break,
        };
        let v: Vec<i64> = line.split_whitespace().filter_map(|s| s.parse().ok()).collect();
        if v.is_empty() {
            continue;
        }
        let mut i = 0usize;
        let mut next = || {
            let x = v.get(i).copied().unwrap_or(0);
            i += 1;
            x
        };
        let mode = next();
        let fast = next();
        let fresh = next();
        let oncb = next();
        let ncre = next().clamp(0, 64);
        let creators: Vec<i64> = (0..ncre).map(|_| next()).collect();
        let nth = next().clamp(0, 16);
        let mut threads = Vec::new();
        for _ in 0..nth {
            let nops = next().clamp(0, 16);
            threads.push((0..nops).map(|_| next()).collect::<Vec<i64>>());
        }
        let ns = next().clamp(0, 4096);
        let sched: Vec<usize> = (0..ns).map(|_| next().max(0) as usize).collect();
        let cfg = Config { fast, fresh, oncb, creators, threads };
        match mode {
            0 => {
                let r = run_one(&cfg, &sched, &mut None);
                let _ = writeln!(out, "{}", run_line(&cfg, &r));
            }
            1 => {
                let limit = next().max(1) as u64;
                let d = next().max(0) as usize;
                let k = next().max(1) as u64;
                let j = next().max(0) as u64;
                let mut dfs = Dfs { cfg: &cfg, out: &mut out, limit, d, k, j, runs: 0, emitted: 0, truncated: false };
                dfs.explore(sched);
                let (e, t) = (dfs.emitted, dfs.truncated as i64);
                let _ = writeln!(out, "END {} {}", e, t);
            }
            _ => {
                let count = next().max(1);
                let seed = next() as u64;
                let mut rng = Some(Rng(seed));
                let mut done = 0;
                for _ in 0..count {
                    if deadline_passed() {
                        break;
                    }
                    let r = run_one(&cfg, &sched, &mut rng);
                    let _ = writeln!(out, "{}", run_line(&cfg, &r));
                    done += 1;
                }
                let _ = writeln!(out, "END {} {}", done, (done < count) as i64);
            }
        }
        let _ = out.flush();
    }
}
