//! C20, real file-system leg (cargo feature `watchfs` of the harness = `watch-fs` of minijinja-autoreload).
//!
//! File-change notifications are reload requests delivered by the watcher.  For one kind of change per case the
//! bin sets up a watched directory with a template `t.txt` ("version 1"), acquires the environment once, performs
//! the change and then polls `acquire_env()` until the change is visible (or a reload happened), for at most
//! `MJVERIF_FS_TIMEOUT_MS` (default 5000) milliseconds.
//!
//! Case: `kind fast`  kind 1 in-place write, 2 create another file, 3 delete, 4 rename inside the watched directory,
//!                    5 move a new version in from outside (rename over the template), 6 editor-style atomic save
//!                    (temp file in the directory, an acquire_env in between, rename over the template)
//! Output: `kind fast ok creator_calls loads elapsed_ms`   ok = 1 the change became visible in time, 0 stale,
//!          7 the watcher could not be set up in this environment (inotify unavailable).
#[cfg(feature = "watchfs")]
mod leg {
    use minijinja::Environment;
    use minijinja_autoreload::AutoReloader;
    use std::fs;
    use std::path::{Path, PathBuf};
    use std::sync::atomic::{AtomicI64, Ordering};
    use std::sync::Arc;
    use std::time::{Duration, Instant};

    fn content(reloader: &AutoReloader) -> String {
        match reloader.acquire_env() {
            Ok(env) => match env.get_template("t.txt") {
                Ok(t) => t.render(()).unwrap_or_else(|_| "<error>".into()),
                Err(_) => "<missing>".into(),
            },
            Err(_) => "<acquire failed>".into(),
        }
    }

    fn poll<F: Fn(&str) -> bool>(reloader: &AutoReloader, timeout: Duration, done: F) -> (bool, u128) {
        let t0 = Instant::now();
        loop {
            let c = content(reloader);
            if done(&c) {
                return (true, t0.elapsed().as_millis());
            }
            if t0.elapsed() > timeout {
                return (false, t0.elapsed().as_millis());
            }
            std::thread::sleep(Duration::from_millis(15));
        }
    }

    pub fn run(kind: i64, fast: bool, base: &Path, timeout: Duration) -> Vec<String> {
        let watched: PathBuf = base.join("watched");
        let outside: PathBuf = base.join("outside");
        let _ = fs::remove_dir_all(base);
        fs::create_dir_all(&watched).unwrap();
        fs::create_dir_all(&outside).unwrap();
        fs::write(watched.join("t.txt"), "version 1").unwrap();
        let creator_calls = Arc::new(AtomicI64::new(0));
        let loads = Arc::new(AtomicI64::new(0));
        let reloader = {
            let (cc, ld, dir) = (creator_calls.clone(), loads.clone(), watched.clone());
            AutoReloader::new(move |notifier| {
                cc.fetch_add(1, Ordering::SeqCst);
                notifier.set_fast_reload(fast);
                let mut env = Environment::new();
                let (ld, dir2) = (ld.clone(), dir.clone());
                env.set_loader(move |name| {
                    if name == "t.txt" {
                        ld.fetch_add(1, Ordering::SeqCst);
                    }
                    match fs::read_to_string(dir2.join(name)) {
                        Ok(s) => Ok(Some(s)),
                        Err(_) => Ok(None),
                    }
                });
                notifier.watch_path(&dir, true);
                Ok(env)
            })
        };
        let first = content(&reloader);
        if first != "version 1" {
            return vec![kind.to_string(), (fast as i64).to_string(), "8".into(), "0".into(), "0".into(), "0".into()];
        }
        std::thread::sleep(Duration::from_millis(30));
        let reloads = |cc: &AtomicI64, ld: &AtomicI64| if fast { ld.load(Ordering::SeqCst) } else { cc.load(Ordering::SeqCst) };
        let before = reloads(&creator_calls, &loads);
        let (ok, ms) = match kind {
            1 => {
                fs::write(watched.join("t.txt"), "version 2").unwrap();
                poll(&reloader, timeout, |c| c == "version 2")
            }
            2 => {
                fs::write(watched.join("u.txt"), "other").unwrap();
                let (cc, ld) = (creator_calls.clone(), loads.clone());
                poll(&reloader, timeout, move |_| reloads(&cc, &ld) > before)
            }
            3 => {
                fs::remove_file(watched.join("t.txt")).unwrap();
                poll(&reloader, timeout, |c| c == "<missing>")
            }
            4 => {
                fs::rename(watched.join("t.txt"), watched.join("t2.txt")).unwrap();
                poll(&reloader, timeout, |c| c == "<missing>")
            }
            5 => {
                fs::write(outside.join("new.txt"), "version 2").unwrap();
                fs::rename(outside.join("new.txt"), watched.join("t.txt")).unwrap();
                poll(&reloader, timeout, |c| c == "version 2")
            }
            _ => {
                // editor-style atomic save: the temp file's Create event is consumed by an acquire that still (correctly)
                // sees the old template; the rename is what makes the new content visible
                fs::write(watched.join(".t.txt.swp"), "version 2").unwrap();
                let (cc, ld) = (creator_calls.clone(), loads.clone());
                let _ = poll(&reloader, timeout, move |_| reloads(&cc, &ld) > before);
                std::thread::sleep(Duration::from_millis(30));
                fs::rename(watched.join(".t.txt.swp"), watched.join("t.txt")).unwrap();
                poll(&reloader, timeout, |c| c == "version 2")
            }
        };
        drop(reloader);
        let _ = fs::remove_dir_all(base);
        vec![
            kind.to_string(),
            (fast as i64).to_string(),
            (ok as i64).to_string(),
            creator_calls.load(Ordering::SeqCst).to_string(),
            loads.load(Ordering::SeqCst).to_string(),
            ms.to_string(),
        ]
    }
}

#[cfg(feature = "watchfs")]
fn main() {
    use std::sync::atomic::{AtomicU64, Ordering};
    static N: AtomicU64 = AtomicU64::new(0);
    let base = std::env::var("MJVERIF_FS_DIR").unwrap_or_else(|_| "/tmp/mjverif-c20fs".into());
    let timeout = std::env::var("MJVERIF_FS_TIMEOUT_MS").ok().and_then(|s| s.parse().ok()).unwrap_or(5000u64);
    // a watcher that cannot be initialised panics inside watch_path: reported as code 7
    mjverif::serve(7, |c| {
        let kind = c.i64();
        let fast = c.i64() != 0;
        let dir = std::path::Path::new(&base).join(format!("{}-{}", std::process::id(), N.fetch_add(1, Ordering::SeqCst)));
        leg::run(kind, fast, &dir, std::time::Duration::from_millis(timeout))
    });
}

#[cfg(not(feature = "watchfs"))]
fn main() {
    eprintln!("c20_fs needs the harness feature `watchfs`");
    std::process::exit(2);
}
