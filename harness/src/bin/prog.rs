//! Generic program-level harness (JSON lines in, JSON lines out).
//!
//! Request: {"templates": {name: source}, "main": name, "ctx": json, "undefined": "lenient|strict|semistrict|chainable",
//!           "fuel": null|"<u64>", "ops": ["render","instructions","undeclared","ast","asks","sink"],
//!           "sink": {"fail_at": k, "kind": "brokenpipe|other|wouldblock", "short": n},
//!           "settings": {"trim_blocks":b,"lstrip_blocks":b,"keep_trailing_newline":b},
//!           "recursion_limit": n, "debug": bool, "loader": {name: source | "!!ERR.."}, "path_join": bool | "doc" | "prefix" | "lower",
//!           "unknown_method": "decline" | "handle", "formatter": bool, "auto_escape": "none", "named_str": source}
//! Each request runs on a fresh 2 MiB thread under catch_unwind with a watchdog; a hang makes
//! the process print {"hang":true} and exit(3) so that the driver can restart after the case.
use std::collections::BTreeMap;
use std::io::{BufRead, Write};
use std::panic::{catch_unwind, AssertUnwindSafe};
use std::sync::mpsc;
use std::sync::{Arc, Mutex};
use std::time::Duration;

use minijinja::value::{Enumerator, Object, Value};
use minijinja::{Environment, Error, UndefinedBehavior};
use serde_json::{json, Value as J};

#[path = "c05_common/callables.rs"]
mod c05_callables;

fn err_json(e: &Error) -> J {
    let mut chain = vec![];
    let mut cur: Option<&dyn std::error::Error> = Some(e);
    while let Some(c) = cur {
        if let Some(me) = c.downcast_ref::<Error>() {
            chain.push(json!({"kind": mjverif::err_code(me.kind()), "name": me.name(), "line": me.line(),
                "range": me.range().map(|r| vec![r.start, r.end])}));
        } else {
            chain.push(json!({"foreign": c.to_string()}));
        }
        cur = c.source();
    }
    json!({"err": mjverif::err_code(e.kind()), "chain": chain})
}

/// Context object that records every key the engine asks it for.
#[derive(Debug)]
struct Recorder {
    inner: Value,
    asked: Arc<Mutex<Vec<String>>>,
}
impl Object for Recorder {
    fn get_value(self: &Arc<Self>, key: &Value) -> Option<Value> {
        if let Some(s) = key.as_str() {
            self.asked.lock().unwrap().push(s.to_string());
        }
        self.inner.get_item(key).ok().filter(|v| !v.is_undefined())
    }
    fn enumerate(self: &Arc<Self>) -> Enumerator {
        match self.inner.try_iter() {
            Ok(it) => Enumerator::Values(it.collect()),
            Err(_) => Enumerator::NonEnumerable,
        }
    }
}

struct FailingSink {
    writes: usize,
    fail_at: Option<usize>,
    kind: std::io::ErrorKind,
    short: Option<usize>,
    got: Vec<u8>,
    after_fail: usize,
    failed: bool,
}
impl Write for FailingSink {
    fn write(&mut self, buf: &[u8]) -> std::io::Result<usize> {
        if self.failed {
            self.after_fail += 1;
        }
        let k = self.writes;
        self.writes += 1;
        if Some(k) == self.fail_at {
            self.failed = true;
            return Err(std::io::Error::new(self.kind, "injected"));
        }
        let n = match self.short {
            Some(s) if s > 0 => buf.len().min(s),
            _ => buf.len(),
        };
        self.got.extend_from_slice(&buf[..n]);
        Ok(n)
    }
    fn flush(&mut self) -> std::io::Result<()> {
        Ok(())
    }
}

fn run(req: &J) -> J {
    let mut env = Environment::new();
    minijinja_contrib::add_to_environment(&mut env);
    // C05 error-recovery families: host callables that call back into the engine and recover ("c05_callables": true)
    if req.get("c05_callables").and_then(|x| x.as_bool()).unwrap_or(false) {
        c05_callables::install(&mut env);
    }
    if let Some(ub) = req.get("undefined").and_then(|x| x.as_str()) {
        env.set_undefined_behavior(match ub {
            "strict" => UndefinedBehavior::Strict,
            "semistrict" => UndefinedBehavior::SemiStrict,
            "chainable" => UndefinedBehavior::Chainable,
            _ => UndefinedBehavior::Lenient,
        });
    }
    if let Some(f) = req.get("fuel").and_then(|x| x.as_str()) {
        env.set_fuel(f.parse::<u64>().ok());
    }
    if let Some(n) = req.get("recursion_limit").and_then(|x| x.as_u64()) {
        env.set_recursion_limit(n as usize);
    }
    if let Some(d) = req.get("debug").and_then(|x| x.as_bool()) {
        env.set_debug(d);
    }
    if let Some(s) = req.get("settings") {
        env.set_trim_blocks(s["trim_blocks"].as_bool().unwrap_or(false));
        env.set_lstrip_blocks(s["lstrip_blocks"].as_bool().unwrap_or(false));
        env.set_keep_trailing_newline(s["keep_trailing_newline"].as_bool().unwrap_or(false));
    }
    let mut out = serde_json::Map::new();
    let empty = serde_json::Map::new();
    let templates = req.get("templates").and_then(|x| x.as_object()).unwrap_or(&empty);
    let mut load_errs = BTreeMap::new();
    for (name, src) in templates {
        if let Err(e) = env.add_template_owned(name.clone(), src.as_str().unwrap_or("").to_string()) {
            load_errs.insert(name.clone(), err_json(&e));
        }
    }
    if !load_errs.is_empty() {
        out.insert("load_errors".into(), json!(load_errs));
    }
    // "loader": {name: source} - templates served lazily through Environment::set_loader (a source that
    // starts with "!!ERR" makes the loader itself fail); "path_join": true - relative template names
    // ("./x", "../x") are joined with the referring template's name (the callback of the documentation)
    if let Some(l) = req.get("loader").and_then(|x| x.as_object()) {
        let map: BTreeMap<String, String> = l.iter().map(|(k, v)| (k.clone(), v.as_str().unwrap_or("").to_string())).collect();
        env.set_loader(move |name| match map.get(name) {
            Some(src) if src.starts_with("!!ERR") => Err(Error::new(minijinja::ErrorKind::InvalidOperation, "loader failed")),
            Some(src) => Ok(Some(src.clone())),
            None => Ok(None),
        });
    }
    // "path_join": "prefix" - every referenced name is mapped to "p/<name>", whoever refers to it;
    // "path_join": "lower" - every referenced name is lower-cased (arbitrary mappings, not path arithmetic)
    match req.get("path_join").and_then(|x| x.as_str()) {
        Some("prefix") => env.set_path_join_callback(|name, _parent| format!("p/{name}").into()),
        Some("lower") => env.set_path_join_callback(|name, _parent| name.to_lowercase().into()),
        _ => {}
    }
    // "unknown_method": "decline" - a callback that knows no method at all; "handle" - one that implements
    // `.zz_handled()` on every value and declines everything else
    match req.get("unknown_method").and_then(|x| x.as_str()) {
        Some("decline") => env.set_unknown_method_callback(|_state, _value, _method, _args| Err(Error::from(minijinja::ErrorKind::UnknownMethod))),
        Some("handle") => env.set_unknown_method_callback(|_state, _value, method, _args| {
            if method == "zz_handled" {
                Ok(Value::from("handled"))
            } else {
                Err(Error::from(minijinja::ErrorKind::UnknownMethod))
            }
        }),
        _ => {}
    }
    // "formatter": true - a custom formatter that delegates to the default one;
    // "auto_escape": "none" - an auto-escape callback that switches escaping off for every name
    if req.get("formatter").and_then(|x| x.as_bool()).unwrap_or(false) {
        env.set_formatter(|out, state, value| minijinja::escape_formatter(out, state, value));
    }
    if req.get("auto_escape").and_then(|x| x.as_str()) == Some("none") {
        env.set_auto_escape_callback(|_name| minijinja::AutoEscape::None);
    }
    if req.get("path_join").and_then(|x| x.as_bool()).unwrap_or(false) || req.get("path_join").and_then(|x| x.as_str()) == Some("doc") {
        env.set_path_join_callback(|name, parent| {
            let mut rv = parent.split('/').collect::<Vec<_>>();
            rv.pop();
            name.split('/').for_each(|segment| match segment {
                "." => {}
                ".." => {
                    rv.pop();
                }
                _ => {
                    rv.push(segment);
                }
            });
            rv.join("/").into()
        });
    }
    let main = req.get("main").and_then(|x| x.as_str()).unwrap_or("main");
    let ops: Vec<&str> = req
        .get("ops")
        .and_then(|x| x.as_array())
        .map(|a| a.iter().filter_map(|x| x.as_str()).collect())
        .unwrap_or_else(|| vec!["render"]);
    let ctxv = Value::from(minijinja::value::Serde(req.get("ctx").cloned().unwrap_or(J::Null)));
    // "named_str": source - the main template is not stored: Environment::render_named_str(main, source, ctx)
    if let Some(src) = req.get("named_str").and_then(|x| x.as_str()) {
        let r = match env.render_named_str(main, src, ctxv.clone()) {
            Ok(s) => json!({"ok": s}),
            Err(e) => {
                let _ = format!("{} {:#} {:?} {}", e, e, e, e.display_debug_info());
                err_json(&e)
            }
        };
        out.insert("render".into(), r);
        return J::Object(out);
    }
    let tmpl = match env.get_template(main) {
        Ok(t) => t,
        Err(e) => {
            out.insert("render".into(), err_json(&e));
            return J::Object(out);
        }
    };
    for op in ops {
        match op {
            "render" => {
                let r = match tmpl.render(ctxv.clone()) {
                    Ok(s) => json!({"ok": s}),
                    Err(e) => {
                        // formatting must never panic either
                        let _ = format!("{} {:#} {:?} {}", e, e, e, e.display_debug_info());
                        err_json(&e)
                    }
                };
                out.insert("render".into(), r);
            }
            "fuel_levels" => {
                let r = match tmpl.render_captured(ctxv.clone()) {
                    Ok(c) => {
                        let lv = c.state().fuel_levels();
                        json!({"ok": c.output(), "levels": lv.map(|(a, b)| vec![a.to_string(), b.to_string()])})
                    }
                    Err(e) => err_json(&e),
                };
                out.insert("fuel_levels".into(), r);
            }
            "asks" => {
                let asked = Arc::new(Mutex::new(vec![]));
                let rec = Value::from_object(Recorder { inner: ctxv.clone(), asked: asked.clone() });
                let r = match tmpl.render(rec) {
                    Ok(s) => json!({"ok": s}),
                    Err(e) => err_json(&e),
                };
                let mut a = asked.lock().unwrap().clone();
                a.sort();
                a.dedup();
                out.insert("asks".into(), json!({"render": r, "asked": a}));
            }
            "undeclared" => {
                let mut a: Vec<String> = tmpl.undeclared_variables(false).into_iter().collect();
                a.sort();
                let mut b: Vec<String> = tmpl.undeclared_variables(true).into_iter().collect();
                b.sort();
                let mut g: Vec<String> = env.globals().map(|x| x.0.to_string()).collect();
                g.sort();
                out.insert("undeclared".into(), json!({"flat": a, "nested": b, "globals": g}));
            }
            "instructions" => {
                let c = minijinja::machinery::get_compiled_template(&tmpl);
                let dump = |ins: &minijinja::machinery::Instructions| -> Vec<J> {
                    let mut v = vec![];
                    let mut i = 0;
                    while let Some(x) = ins.get(i) {
                        v.push(serde_json::to_value(x).unwrap_or_else(|e| json!({"op": format!("{:?}", x).split(|c: char| !c.is_alphanumeric()).next().unwrap_or("").to_string(), "arg": J::Null, "unserializable": e.to_string()})));
                        i += 1;
                    }
                    v
                };
                let mut blocks = serde_json::Map::new();
                for (k, b) in c.blocks.iter() {
                    blocks.insert(k.to_string(), J::Array(dump(b)));
                }
                out.insert("instructions".into(), json!({"main": dump(&c.instructions), "blocks": blocks}));
            }
            "ast" => {
                let src = templates.get(main).and_then(|x| x.as_str()).unwrap_or("");
                let r = match minijinja::machinery::parse(src, main, Default::default(), Default::default()) {
                    Ok(ast) => serde_json::to_value(&ast).unwrap_or(J::Null),
                    Err(e) => err_json(&e),
                };
                out.insert("ast".into(), r);
            }
            "sink" => {
                let s = req.get("sink").cloned().unwrap_or(json!({}));
                let kind = match s.get("kind").and_then(|x| x.as_str()).unwrap_or("other") {
                    "brokenpipe" => std::io::ErrorKind::BrokenPipe,
                    "wouldblock" => std::io::ErrorKind::WouldBlock,
                    _ => std::io::ErrorKind::Other,
                };
                let mut sink = FailingSink {
                    writes: 0,
                    fail_at: s.get("fail_at").and_then(|x| x.as_u64()).map(|x| x as usize),
                    kind,
                    short: s.get("short").and_then(|x| x.as_u64()).map(|x| x as usize),
                    got: vec![],
                    after_fail: 0,
                    failed: false,
                };
                let r = tmpl.render_captured_to(ctxv.clone(), &mut sink).map(|_| ());
                let res = match r {
                    Ok(_) => json!({"ok": true}),
                    Err(e) => {
                        let src_is_io = std::error::Error::source(&e)
                            .and_then(|s| s.downcast_ref::<std::io::Error>())
                            .map(|io| format!("{:?}", io.kind()));
                        let mut j = err_json(&e);
                        j["io_source"] = json!(src_is_io);
                        j
                    }
                };
                out.insert(
                    "sink".into(),
                    json!({"result": res, "bytes": String::from_utf8_lossy(&sink.got), "writes": sink.writes,
                           "writes_after_failure": sink.after_fail, "failed": sink.failed}),
                );
            }
            _ => {}
        }
    }
    J::Object(out)
}

fn main() {
    mjverif::install_quiet_panic_hook();
    let stdin = std::io::stdin();
    let stdout = std::io::stdout();
    let watchdog_ms: u64 = std::env::var("MJVERIF_WATCHDOG_MS").ok().and_then(|x| x.parse().ok()).unwrap_or(10000);
    for line in stdin.lock().lines() {
        let line = match line {
            Ok(l) => l,
            Err(_) => break,
        };
        if line.trim().is_empty() {
            continue;
        }
        let req: J = match serde_json::from_str(&line) {
            Ok(v) => v,
            Err(_) => {
                println!("{}", json!({"bad_request": true}));
                continue;
            }
        };
        let (tx, rx) = mpsc::channel();
        let stack = req.get("stack_kib").and_then(|x| x.as_u64()).unwrap_or(2048) as usize * 1024;
        let h = std::thread::Builder::new().stack_size(stack).spawn(move || {
            let r = catch_unwind(AssertUnwindSafe(|| run(&req)));
            let _ = tx.send(match r {
                Ok(v) => v,
                Err(p) => {
                    let msg = p
                        .downcast_ref::<String>()
                        .cloned()
                        .or_else(|| p.downcast_ref::<&str>().map(|s| s.to_string()))
                        .unwrap_or_default();
                    json!({"panic": msg})
                }
            });
        });
        let res = match rx.recv_timeout(Duration::from_millis(watchdog_ms)) {
            Ok(v) => v,
            Err(_) => {
                let mut o = stdout.lock();
                let _ = writeln!(o, "{}", json!({"hang": true}));
                let _ = o.flush();
                std::process::exit(3);
            }
        };
        if let Ok(h) = h {
            let _ = h.join();
        }
        let mut o = stdout.lock();
        let _ = writeln!(o, "{}", res);
        let _ = o.flush();
    }
}
