//! Shared helpers for the correspondence harness.
//!
//! Protocol (all bins): one case per stdin line, a list of decimal integers separated by
//! blanks (the property's input encoding); one line of integers per case on stdout (the
//! property's output encoding).  The same encodings are implemented by the Coq models
//! (`MJ.Extract.Runners`).
use std::io::{BufRead, Write};
use std::panic::{catch_unwind, AssertUnwindSafe};

pub type Int = i128;

/// SplitMix64: the one PRNG state every random choice derives from.
pub struct Rng(pub u64);
impl Rng {
    pub fn next(&mut self) -> u64 {
        self.0 = self.0.wrapping_add(0x9E3779B97F4A7C15);
        let mut z = self.0;
        z = (z ^ (z >> 30)).wrapping_mul(0xBF58476D1CE4E5B9);
        z = (z ^ (z >> 27)).wrapping_mul(0x94D049BB133111EB);
        z ^ (z >> 31)
    }
    pub fn below(&mut self, n: u64) -> u64 {
        self.next() % n.max(1)
    }
}

/// A cursor over the integers of one input line.
pub struct Cur<'a> {
    pub v: &'a [String],
    pub i: usize,
}
impl<'a> Cur<'a> {
    pub fn new(v: &'a [String]) -> Self {
        Cur { v, i: 0 }
    }
    pub fn tok(&mut self) -> &'a str {
        let t = self.v.get(self.i).map(|s| s.as_str()).unwrap_or("0");
        self.i += 1;
        t
    }
    pub fn i128(&mut self) -> i128 {
        self.tok().parse().unwrap_or(0)
    }
    pub fn i64(&mut self) -> i64 {
        self.i128() as i64
    }
    pub fn usize(&mut self) -> usize {
        self.i128() as usize
    }
    pub fn big(&mut self) -> String {
        self.tok().to_string()
    }
    pub fn done(&self) -> bool {
        self.i >= self.v.len()
    }
    pub fn str(&mut self) -> String {
        let n = self.usize();
        (0..n)
            .map(|_| char::from_u32(self.i128() as u32).unwrap_or('\u{fffd}'))
            .collect()
    }
}

pub fn install_quiet_panic_hook() {
    std::panic::set_hook(Box::new(|info| {
        if std::env::var_os("MJVERIF_PANIC_LOG").is_some() {
            eprintln!("PANIC {}", info);
        }
    }));
}

/// Runs `f` for every stdin line; `f` returns the output tokens.  A panic inside `f` is
/// turned into the single token list `[panic_code]`.
pub fn serve<F: FnMut(&mut Cur) -> Vec<String>>(panic_code: i64, mut f: F) {
    install_quiet_panic_hook();
    let stdin = std::io::stdin();
    let stdout = std::io::stdout();
    let mut out = std::io::BufWriter::new(stdout.lock());
    for line in stdin.lock().lines() {
        let line = match line {
            Ok(l) => l,
            Err(_) => break,
        };
        let toks: Vec<String> = line.split_whitespace().map(|s| s.to_string()).collect();
        if toks.is_empty() {
            continue;
        }
        let res = catch_unwind(AssertUnwindSafe(|| {
            let mut c = Cur::new(&toks);
            f(&mut c)
        }));
        let toks = match res {
            Ok(t) => t,
            Err(_) => vec![panic_code.to_string()],
        };
        let _ = writeln!(out, "{}", toks.join(" "));
    }
    let _ = out.flush();
}

pub fn err_code(kind: minijinja::ErrorKind) -> i64 {
    use minijinja::ErrorKind::*;
    match kind {
        NonPrimitive => 1,
        NonKey => 2,
        InvalidOperation => 3,
        SyntaxError => 4,
        TemplateNotFound => 5,
        TooManyArguments => 6,
        MissingArgument => 7,
        UnknownFilter => 8,
        UnknownTest => 9,
        UnknownFunction => 10,
        UnknownMethod => 11,
        BadEscape => 12,
        UndefinedError => 13,
        BadSerialization => 14,
        CannotDeserialize => 15,
        BadInclude => 16,
        EvalBlock => 17,
        CannotUnpack => 18,
        WriteFailure => 19,
        UnknownBlock => 20,
        OutOfFuel => 21,
        InvalidDelimiter => 22,
        _ => 99,
    }
}

pub fn push_str(out: &mut Vec<String>, s: &str) {
    out.push(s.chars().count().to_string());
    for c in s.chars() {
        out.push((c as u32).to_string());
    }
}
