"""Translation of real instruction streams (JSON dump of minijinja's `Instructions`, harness op
"instructions") into the abstract instructions of coq/theories/C05/Model.v (unverified glue).

What the VM does when a recursion call returns (`Instruction::PopLoopFrame` on a frame with
`current_recursion_jump`) is NOT written down here: `vm_return_rule` reads that arm of
minijinja/src/vm/mod.rs of the tree under test on every run and fails loudly when it does not recognise
its statements.  The rule decides the `ret_pops` argument of every abstract IPopLoopFrame."""
import os, re

BIN = {"Add", "Sub", "Mul", "Div", "IntDiv", "Rem", "Pow", "Eq", "Ne", "Gt", "Gte", "Lt", "Lte", "StringConcat", "In"}

LOOP_FLAG_RECURSIVE = 2     # compiler/instructions.rs (checked against the source by vm_return_rule)


class TranslatorError(Exception):
    pass


# ----------------------------------------------------------------------------------------
# the return path of a recursion call, read from vm/mod.rs
# ----------------------------------------------------------------------------------------
def _strip_comments(src):
    src = re.sub(r"//[^\n]*", "", src)
    return re.sub(r"/\*.*?\*/", "", src, flags=re.S)


def _block(src, start):
    """src[start] == '{' -> index just after the matching '}'"""
    depth = 0
    for i in range(start, len(src)):
        if src[i] == "{":
            depth += 1
        elif src[i] == "}":
            depth -= 1
            if depth == 0:
                return i + 1
    raise TranslatorError("unbalanced braces")


_PREV = r"matches!\(state\.instructions\.get\(pc-1\),Some\(Instruction::(\w+)\)\)"


def vm_return_rule(repo):
    """-> {"ops": [...], "pops": [(prev_opcode or None, n)], "pop_after_push": bool, "text": normalised arm}
    ops in source order: ("pop", cond, n) | ("jump",) | ("end_capture_push",) with cond = opcode the previous
    instruction must be, or None."""
    path = os.path.join(repo, "minijinja/src/vm/mod.rs")
    src = _strip_comments(open(path, encoding="utf8").read())
    m = re.search(r"Instruction::PopLoopFrame\s*=>\s*\{", src)
    if not m:
        raise TranslatorError("no `Instruction::PopLoopFrame => {` arm in vm/mod.rs")
    arm = src[m.end() - 1:_block(src, m.end() - 1)]
    t = re.sub(r"\s+", "", arm)
    head = "{letmutl=state.ctx.pop_frame().current_loop.unwrap();ifletSome((target,end_capture))=l.current_recursion_jump.take(){"
    if not t.startswith(head) or not t.endswith("continue;}}"):
        raise TranslatorError("PopLoopFrame arm has an unknown outline: " + t[:200])
    body = t[len(head):-len("continue;}}")]
    ops, names = [], {}
    while body:
        m = re.match(r"ifpc>0&&" + _PREV + r"\{((?:stack\.pop\(\);)+)\}", body)
        if m:
            ops.append(("pop", m.group(1), m.group(2).count("stack.pop();")))
            body = body[m.end():]
            continue
        m = re.match(r"if" + _PREV + r"\{((?:stack\.pop\(\);)+)\}", body)
        if m:
            ops.append(("pop", m.group(1), m.group(2).count("stack.pop();")))
            body = body[m.end():]
            continue
        m = re.match(r"let(\w+)=(?:pc>0&&)?" + _PREV + r";", body)
        if m:
            names[m.group(1)] = m.group(2)
            body = body[m.end():]
            continue
        m = re.match(r"if(\w+)\{((?:stack\.pop\(\);)+)\}", body)
        if m and m.group(1) in names:
            ops.append(("pop", names[m.group(1)], m.group(2).count("stack.pop();")))
            body = body[m.end():]
            continue
        m = re.match(r"stack\.pop\(\);", body)
        if m:
            ops.append(("pop", None, 1))
            body = body[m.end():]
            continue
        m = re.match(r"pc=target;", body)
        if m:
            ops.append(("jump",))
            body = body[m.end():]
            continue
        m = re.match(r"ifend_capture\{stack\.push\(out\.end_capture\(state\.auto_escape\)\);\}", body)
        if m:
            ops.append(("end_capture_push",))
            body = body[m.end():]
            continue
        raise TranslatorError("PopLoopFrame return path: statement not recognised: " + body[:160])
    if [o[0] for o in ops].count("jump") != 1 or [o[0] for o in ops].count("end_capture_push") != 1:
        raise TranslatorError("PopLoopFrame return path: expected exactly one `pc = target` and one end_capture push: %r" % (ops,))
    pushed, after = False, False
    for o in ops:
        if o[0] == "end_capture_push":
            pushed = True
        elif o[0] == "pop" and pushed:
            after = True
    # the flag constant the translation of PushLoop relies on
    isrc = open(os.path.join(repo, "minijinja/src/compiler/instructions.rs"), encoding="utf8").read()
    mf = re.search(r"pub const LOOP_FLAG_RECURSIVE: u8 = (\d+);", isrc)
    if not mf or int(mf.group(1)) != LOOP_FLAG_RECURSIVE:
        raise TranslatorError("LOOP_FLAG_RECURSIVE is not %d in compiler/instructions.rs" % LOOP_FLAG_RECURSIVE)
    return {"ops": ops, "pops": [(o[1], o[2]) for o in ops if o[0] == "pop"], "pop_after_push": after, "text": t}


DEFAULT_RULE = None   # set by the check (set_rule); encode() refuses to guess


def set_rule(rule):
    global DEFAULT_RULE
    DEFAULT_RULE = rule


def ret_pops(stream, pc, rule):
    """operands the VM pops at PopLoopFrame `pc` of `stream` when a recursion call returns there"""
    prev = stream[pc - 1]["op"] if pc > 0 else None
    return sum(n for cond, n in rule["pops"] if cond is None or cond == prev)


def one(ins, const_b, rp=0):
    """-> (tag, a, b).  const_b: True if this LoadConst(0) is typed as an empty bundle.  rp: ret_pops of a PopLoopFrame."""
    op = ins["op"]
    a = ins.get("arg")
    S = lambda p, q: (0, p, q)
    if op == "EmitRaw": return S(0, 0)
    if op == "Emit": return S(1, 0)
    if op == "StoreLocal": return S(1, 0)
    if op == "Lookup": return S(0, 1)
    if op == "GetAttr": return S(1, 1)
    if op == "SetAttr": return S(2, 0)
    if op == "GetItem": return S(2, 1)
    if op == "Slice": return S(4, 1)
    if op == "LoadConst": return (1, 0, 0) if const_b else S(0, 1)
    if op in ("BuildMap", "BuildKwargs"): return S(2 * a, 1)
    if op == "MergeKwargs": return S(a, 1)
    if op in ("BuildList", "BuildTuple"): return (3, 0, 0) if a is None else S(a, 1)
    if op == "UnpackList": return S(1, a)
    if op == "UnpackLists": return (2, a, 0)
    if op in BIN: return (5, 0, 0)
    if op in ("Not", "Neg", "IsUndefined"): return S(1, 1)
    if op == "CompareAndPreserve": return S(2, 2)
    if op in ("ApplyFilter", "PerformTest"): return (3, 0, 0) if a[1] is None else S(a[1], 1)
    if op == "CallFunction":
        # whatever the name: the callee is looked up at run time and may be a loop object (vm/mod.rs, CallFunction
        # arm: a `Loop` with exactly one argument starts a recursion) - except `super`, which is tested first
        if a[0] != "super" and a[1] is None: return (20, 1, 0)
        if a[0] != "super" and a[1] == 1: return (20, 0, 0)
        return (3, 0, 0) if a[1] is None else S(a[1], 1)
    if op == "CallMethod": return (3, 0, 0) if a[1] is None else S(a[1], 1)
    if op == "CallObject": return (3, 0, 0) if a is None else S(a, 1)
    if op == "PushLoop": return (8, 1 if a & LOOP_FLAG_RECURSIVE else 0, 0)
    if op == "PushWith": return (6, 0, 0)
    if op == "Iterate": return (10, a, 0)
    if op == "PushDidNotIterate": return (11, 0, 0)
    if op == "PopFrame": return (7, 0, 0)
    if op == "PopLoopFrame": return (9, rp, 0)
    if op == "Jump": return (12, a, 0)
    if op == "JumpIfFalse": return (13, a, 0)
    if op in ("JumpIfFalseOrPop", "JumpIfTrueOrPop"): return (14, a, 0)
    if op == "PushAutoEscape": return (15, 0, 0)
    if op == "PopAutoEscape": return (16, 0, 0)
    if op == "BeginCapture": return (17, 0, 0)
    if op == "EndCapture": return (18, 0, 0)
    if op == "DupTop": return S(1, 2)
    if op == "DiscardTop": return S(1, 0)
    if op == "FastSuper": return S(0, 0)
    if op == "FastRecurse": return (21, 0, 0)
    if op == "Swap": return (4, 0, 0)
    if op == "CallBlock": return S(0, 0)
    if op == "LoadBlocks": return (22, 0, 0)
    if op == "Include": return S(1, 0)
    if op == "ExportLocals": return S(1, 1)
    if op == "BuildMacro": return S(2, 1)
    if op == "Return": return (19, 0, 0)
    if op == "Enclose": return S(0, 0)
    if op == "GetClosure": return S(0, 1)
    raise ValueError("unknown instruction " + op)


def entries_of(stream):
    """main entry + one entry per macro body (BuildMacro(name, offset, flags); the arg spec is the
    LoadConst just before it)."""
    ents = [(0, 0)]
    for i, ins in enumerate(stream):
        if ins["op"] == "BuildMacro":
            spec = stream[i - 1].get("arg") if i > 0 and stream[i - 1]["op"] == "LoadConst" else []
            ents.append((ins["arg"][1], len(spec) if isinstance(spec, list) else 0))
    return ents


def is_zero_const(ins):
    return ins["op"] == "LoadConst" and ins.get("arg") == 0 and not isinstance(ins.get("arg"), bool)


def encode(stream, typing=None, rule=None):
    """-> integer list for the `c05` runners.  typing: set of indices of LoadConst(0) typed as bundles.
    Default typing: for every PushLoop(0) (the accumulate loop of a filtered for - the only loop without
    loop variable) the nearest preceding LoadConst(0) that is not already taken.
    rule: result of vm_return_rule (default: the one installed with set_rule, else read from MJ_REPO / /repo)."""
    if typing is None:
        typing = default_typing(stream)
    if rule is None:
        if DEFAULT_RULE is None:
            set_rule(vm_return_rule(os.environ.get("MJ_REPO", "/repo")))
        rule = DEFAULT_RULE
    ents = entries_of(stream)
    out = [len(ents)]
    for pc, n in ents:
        out += [pc, n]
    out.append(len(stream))
    for i, ins in enumerate(stream):
        rp = ret_pops(stream, i, rule) if ins["op"] == "PopLoopFrame" else 0
        out += list(one(ins, i in typing, rp))
    return out


def candidates(stream):
    """for each accumulate loop: the indices of LoadConst(0) before it, nearest first"""
    res = []
    for p, ins in enumerate(stream):
        if ins["op"] == "PushLoop" and ins.get("arg") == 0:
            res.append([i for i in range(p - 1, -1, -1) if is_zero_const(stream[i])])
    return res


def default_typing(stream):
    taken = set()
    for cands in candidates(stream):
        # the counter is pushed before the iterable expression: nearest zero constant whose successor chain
        # is not another accumulate loop's; try nearest-not-taken first
        for c in cands:
            if c not in taken:
                taken.add(c)
                break
    return taken


def typings(stream, limit=64):
    """default typing first, then alternatives (bounded) for the accumulate loops"""
    import itertools
    yield default_typing(stream)
    cands = candidates(stream)
    if not cands:
        return
    n = 0
    for combo in itertools.product(*[c[:4] for c in cands]):
        if len(set(combo)) == len(combo):
            n += 1
            if n > limit:
                return
            yield set(combo)
