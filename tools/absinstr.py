"""Translation of real instruction streams (JSON dump of minijinja's `Instructions`, harness op
"instructions") into the abstract instructions of coq/theories/C05/Model.v (unverified glue)."""

BIN = {"Add", "Sub", "Mul", "Div", "IntDiv", "Rem", "Pow", "Eq", "Ne", "Gt", "Gte", "Lt", "Lte", "StringConcat", "In"}


def one(ins, const_b):
    """-> (tag, a, b).  const_b: True if this LoadConst(0) is typed as an empty bundle."""
    op = ins["op"]
    a = ins.get("arg")
    S = lambda p, q: (0, p, q)
    if op == "EmitRaw": return S(0, 0)
    if op == "Emit": return S(1, 0)
    if op == "StoreLocal": return S(1, 0)
    if op == "Lookup": return S(0, 1)
    if op == "GetAttr": return S(1, 1)
    if op == "SetAttr": return S(2, 0)
    if op == "GetItem": return S(2, 1)
    if op == "Slice": return S(4, 1)
    if op == "LoadConst": return (1, 0, 0) if const_b else S(0, 1)
    if op in ("BuildMap", "BuildKwargs"): return S(2 * a, 1)
    if op == "MergeKwargs": return S(a, 1)
    if op in ("BuildList", "BuildTuple"): return (3, 0, 0) if a is None else S(a, 1)
    if op == "UnpackList": return S(1, a)
    if op == "UnpackLists": return (2, a, 0)
    if op in BIN: return (5, 0, 0)
    if op in ("Not", "Neg", "IsUndefined"): return S(1, 1)
    if op == "CompareAndPreserve": return S(2, 2)
    if op in ("ApplyFilter", "PerformTest"): return (3, 0, 0) if a[1] is None else S(a[1], 1)
    if op in ("CallFunction", "CallMethod"): return (3, 0, 0) if a[1] is None else S(a[1], 1)
    if op == "CallObject": return (3, 0, 0) if a is None else S(a, 1)
    if op == "PushLoop": return (8, 0, 0)
    if op == "PushWith": return (6, 0, 0)
    if op == "Iterate": return (10, a, 0)
    if op == "PushDidNotIterate": return (11, 0, 0)
    if op == "PopFrame": return (7, 0, 0)
    if op == "PopLoopFrame": return (9, 0, 0)
    if op == "Jump": return (12, a, 0)
    if op == "JumpIfFalse": return (13, a, 0)
    if op in ("JumpIfFalseOrPop", "JumpIfTrueOrPop"): return (14, a, 0)
    if op == "PushAutoEscape": return (15, 0, 0)
    if op == "PopAutoEscape": return (16, 0, 0)
    if op == "BeginCapture": return (17, 0, 0)
    if op == "EndCapture": return (18, 0, 0)
    if op == "DupTop": return S(1, 2)
    if op == "DiscardTop": return S(1, 0)
    if op == "FastSuper": return S(0, 0)
    if op == "FastRecurse": return S(1, 0)
    if op == "Swap": return (4, 0, 0)
    if op == "CallBlock": return S(0, 0)
    if op == "LoadBlocks": return S(1, 0)
    if op == "Include": return S(1, 0)
    if op == "ExportLocals": return S(1, 1)
    if op == "BuildMacro": return S(2, 1)
    if op == "Return": return (19, 0, 0)
    if op == "Enclose": return S(0, 0)
    if op == "GetClosure": return S(0, 1)
    raise ValueError("unknown instruction " + op)


def entries_of(stream):
    """main entry + one entry per macro body (BuildMacro(name, offset, flags); the arg spec is the
    LoadConst just before it)."""
    ents = [(0, 0)]
    for i, ins in enumerate(stream):
        if ins["op"] == "BuildMacro":
            spec = stream[i - 1].get("arg") if i > 0 and stream[i - 1]["op"] == "LoadConst" else []
            ents.append((ins["arg"][1], len(spec) if isinstance(spec, list) else 0))
    return ents


def is_zero_const(ins):
    return ins["op"] == "LoadConst" and ins.get("arg") == 0 and not isinstance(ins.get("arg"), bool)


def encode(stream, typing=None):
    """-> integer list for the `c05` runner.  typing: set of indices of LoadConst(0) typed as bundles.
    Default typing: for every PushLoop(0) (the accumulate loop of a filtered for - the only loop without
    loop variable) the nearest preceding LoadConst(0) that is not already taken."""
    if typing is None:
        typing = default_typing(stream)
    ents = entries_of(stream)
    out = [len(ents)]
    for pc, n in ents:
        out += [pc, n]
    out.append(len(stream))
    for i, ins in enumerate(stream):
        out += list(one(ins, i in typing))
    return out


def candidates(stream):
    """for each accumulate loop: the indices of LoadConst(0) before it, nearest first"""
    res = []
    for p, ins in enumerate(stream):
        if ins["op"] == "PushLoop" and ins.get("arg") == 0:
            res.append([i for i in range(p - 1, -1, -1) if is_zero_const(stream[i])])
    return res


def default_typing(stream):
    taken = set()
    for cands in candidates(stream):
        # the counter is pushed before the iterable expression: nearest zero constant whose successor chain
        # is not another accumulate loop's; try nearest-not-taken first
        for c in cands:
            if c not in taken:
                taken.add(c)
                break
    return taken


def typings(stream, limit=64):
    """default typing first, then alternatives (bounded) for the accumulate loops"""
    import itertools
    yield default_typing(stream)
    cands = candidates(stream)
    if not cands:
        return
    n = 0
    for combo in itertools.product(*[c[:4] for c in cands]):
        if len(set(combo)) == len(combo):
            n += 1
            if n > limit:
                return
            yield set(combo)
