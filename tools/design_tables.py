#!/usr/bin/env python3
"""Regenerates the generated blocks of DESIGN.md (between <!-- GEN:name --> and <!-- /GEN:name -->):
  levels  - per property: technique, pinned theorems (from Props/<ID>.v), what is trusted (level_note)
  defects - fixed / known findings from known/<ID>.json
  seeded  - seeded changes and which check caught them, from seeded/*/meta.json
Run after changing manifests, known files, Props or seeded records."""
import json, os, re, glob, subprocess

ROOT = os.path.dirname(os.path.dirname(os.path.abspath(__file__)))


def esc(s):
    return str(s).replace("|", "\\|").replace("\n", " ")


def theorems(pid):
    p = os.path.join(ROOT, "coq/theories/Props/%s.v" % pid)
    if not os.path.exists(p):
        return []
    txt = open(p).read()
    txt = re.sub(r"\(\*.*?\*\)", "", txt, flags=re.S)
    return re.findall(r"^\s*(?:Theorem|Corollary|Lemma)\s+([A-Za-z0-9_']+)", txt, re.M)


def levels():
    out = ["| id | level | decided by (technique) | pinned theorems (`Props/<ID>.v`, each with `Print Assumptions`) | modelled / trusted, not proved |", "|---|---|---|---|---|"]
    for f in sorted(glob.glob(os.path.join(ROOT, "tools/manifest/C*.json"))):
        d = json.load(open(f))
        pid = d["property_id"]
        th = theorems(pid)
        names = ", ".join("`%s`" % t for t in th[:14]) + (" … (%d in all)" % len(th) if len(th) > 14 else (" (%d)" % len(th)))
        out.append("| %s | %s | %s | %s | %s |" % (pid, esc(d["level_claimed"]["category"]), esc(d.get("technique", "")), names, esc(d.get("level_note", ""))))
    return "\n".join(out)


def short(h):
    return h[:7]


def subject(h):
    try:
        return subprocess.run(["git", "-C", "/repo", "log", "-1", "--format=%s", h], capture_output=True, text=True).stdout.strip()
    except Exception:
        return ""


def defects():
    fixed = ["| prop | commit | what failed (as recorded in `known/<ID>.json`) |", "|---|---|---|"]
    known = ["| prop | finding id | what fails |", "|---|---|---|"]
    nfix = nknown = 0
    for f in sorted(glob.glob(os.path.join(ROOT, "known/C*.json"))):
        pid = os.path.basename(f)[:-5]
        d = json.load(open(f))
        for e in d.get("fixed", []):
            if isinstance(e, str):
                m = re.match(r"fixed: property=\S+ (\S+) (.*)", e)
                commit, what = (m.group(1), m.group(2)) if m else ("", e)
            else:
                commit, what = e.get("commit", ""), e.get("what", "")
            fixed.append("| %s | %s | %s |" % (pid, esc(commit), esc(what)[:400]))
            nfix += 1
        for e in d.get("known", []):
            known.append("| %s | %s | %s |" % (pid, esc(e.get("id", "")), esc(e.get("what", ""))[:500]))
            nknown += 1
    return ("**Fixed** (%d entries; one unguarded `fix:` commit each in `/repo`):\n\n" % nfix + "\n".join(fixed)
            + "\n\n**Known findings** (%d entries; printed as `KNOWN-FINDING:` lines, matched by the specific input class):\n\n" % nknown + "\n".join(known))


def seeded():
    rows = []
    tot = caught = 0
    for d in sorted(glob.glob(os.path.join(ROOT, "seeded/*/meta.json"))):
        m = json.load(open(d))
        name = os.path.basename(os.path.dirname(d))
        title = ""
        n = os.path.join(os.path.dirname(d), "notes.md")
        if os.path.exists(n):
            for line in open(n):
                if line.strip():
                    title = line.strip().lstrip("# ").strip()
                    break
        if not m.get("confirmed"):
            rows.append("| %s | %s | not confirmed (%s) | — |" % (name, esc(title)[:160], esc(json.dumps({k: v for k, v in m.get("steps", {}).items() if isinstance(v, bool)})), ))
            continue
        tot += 1
        cb = m.get("caught_by") or []
        manual = m.get("caught_by_after_strengthening") or []
        if cb or manual:
            caught += 1
        det = ", ".join("%s (%d VIOLATION line%s)" % (c, m["checks"][c]["violations"], "" if m["checks"][c]["violations"] == 1 else "s") for c in cb) or (", ".join(manual) + " (see history)" if manual else "**not caught**")
        rows.append("| %s | %s | %s | %s |" % (name, esc(title)[:160], det, esc(m.get("history") or ("caught at first run" if cb else "not caught yet"))[:400]))
    head = "%d confirmed seeded changes, %d caught by the current checks.\n\n| seeded change | what it does (tester's title) | caught by | history |\n|---|---|---|---|\n" % (tot, caught)
    return head + "\n".join(rows)


def seeded_stats():
    import collections
    per = collections.OrderedDict()
    for d in sorted(glob.glob(os.path.join(ROOT, "seeded/*/meta.json"))):
        m = json.load(open(d))
        if not m.get("confirmed"):
            continue
        tag = m.get("tag", "")
        rnd = tag[1:] or "1"
        st = per.setdefault(rnd, [0, 0, 0])
        st[0] += 1
        runs = m.get("runs") or []
        first = runs[0].get("caught_by") if runs else m.get("caught_by")
        hist = m.get("history") or ""
        if (first and not hist.startswith("missed")) or hist.startswith("caught at first"):
            st[1] += 1
        if (m.get("caught_by") or m.get("caught_by_after_strengthening")):
            st[2] += 1
    out = ["| round | confirmed changes | caught by the check as it was when the change arrived | caught now |", "|---|---|---|---|"]
    for r, (n, f, c) in per.items():
        out.append("| %s | %d | %d | %d |" % (r, n, f, c))
    return "\n".join(out)


def main():
    p = os.path.join(ROOT, "DESIGN.md")
    s = open(p).read()
    for name, fn in (("levels", levels), ("defects", defects), ("seeded", seeded), ("seeded_stats", seeded_stats)):
        a, b = "<!-- GEN:%s -->" % name, "<!-- /GEN:%s -->" % name
        if a in s and b in s:
            i, j = s.index(a) + len(a), s.index(b)
            s = s[:i] + "\n" + fn() + "\n" + s[j:]
        else:
            print("marker missing:", name)
    open(p, "w").write(s)


if __name__ == "__main__":
    main()
