#!/usr/bin/env python3
"""Translator: minijinja/src/vm/fuel.rs::fuel_for_instruction + compiler/instructions.rs::Instruction
-> coq/theories/C13/GenFuelTable.v.

Reads the variants of `pub enum Instruction` (in declaration order: the opcode id of the table) and the
arms of the `match instruction { .. }` in `fn fuel_for_instruction`.  Whitelisted syntax: arms of the
form `Instruction::A | Instruction::B(..) | ... => <integer literal>,` (optionally preceded by `#[cfg(..)]`,
which is ignored: the harness builds with all engine features) and one catch-all arm `_ => <integer literal>`.
Anything else (guards, computed costs, nested matches, an arm naming an unknown variant, a variant named
twice) makes the translator fail, and the check reports that instead of guessing."""
import os, re


class TranslatorError(Exception):
    pass


def strip_comments(src):
    src = re.sub(r"//[^\n]*", "", src)
    return re.sub(r"/\*.*?\*/", "", src, flags=re.S)


def match_brace(s, i):
    depth = 0
    for j in range(i, len(s)):
        if s[j] == "{":
            depth += 1
        elif s[j] == "}":
            depth -= 1
            if depth == 0:
                return j
    raise TranslatorError("unbalanced braces")


def variants(repo):
    src = strip_comments(open(os.path.join(repo, "minijinja", "src", "compiler", "instructions.rs")).read())
    m = re.search(r"pub\s+enum\s+Instruction\s*(?:<[^>]*>)?\s*\{", src)
    if not m:
        raise TranslatorError("enum Instruction not found")
    body = src[m.end():match_brace(src, m.end() - 1)]
    body = re.sub(r"#\[[^\]]*\]", "", body)
    out = []
    depth = 0
    cur = ""
    for ch in body:
        if ch in "(<[{":
            depth += 1
        elif ch in ")>]}":
            depth -= 1
        if ch == "," and depth == 0:
            cur = cur.strip()
            if cur:
                out.append(cur)
            cur = ""
        else:
            cur += ch
    if cur.strip():
        out.append(cur.strip())
    names = []
    for v in out:
        mm = re.match(r"^([A-Z]\w*)\s*(\(.*\))?$", v, re.S)
        if not mm:
            raise TranslatorError("cannot read enum variant %r" % v[:60])
        names.append(mm.group(1))
    if len(set(names)) != len(names) or len(names) < 10:
        raise TranslatorError("implausible variant list")
    return names


def costs(repo, names):
    src = strip_comments(open(os.path.join(repo, "minijinja", "src", "vm", "fuel.rs")).read())
    m = re.search(r"fn\s+fuel_for_instruction\s*\(\s*(\w+)\s*:\s*&Instruction\s*\)\s*->\s*(\w+)\s*\{", src)
    if not m:
        raise TranslatorError("fn fuel_for_instruction(<x>: &Instruction) -> <int> not found")
    arg = m.group(1)
    fbody = src[m.end():match_brace(src, m.end() - 1)].strip()
    mm = re.match(r"^match\s+%s\s*\{" % re.escape(arg), fbody)
    if not mm:
        raise TranslatorError("body of fuel_for_instruction is not a single match on its argument")
    end = match_brace(fbody, mm.end() - 1)
    if fbody[end + 1:].strip():
        raise TranslatorError("code after the match in fuel_for_instruction")
    arms_src = re.sub(r"#\[[^\]]*\]", "", fbody[mm.end():end])
    arms = [a.strip() for a in arms_src.split(",") if a.strip()]
    # re-join pieces split inside parentheses
    joined, cur = [], ""
    for a in arms:
        cur = (cur + "," + a) if cur else a
        if cur.count("(") == cur.count(")"):
            joined.append(cur)
            cur = ""
    if cur:
        raise TranslatorError("unbalanced parentheses in match arms")
    table, default = {}, None
    for a in joined:
        if "=>" not in a:
            raise TranslatorError("arm without =>: %r" % a[:60])
        pat, val = a.rsplit("=>", 1)
        val = val.strip()
        if not re.match(r"^\d+$", val):
            raise TranslatorError("cost is not an integer literal: %r" % val[:40])
        pat = pat.strip()
        if pat == "_":
            if default is not None:
                raise TranslatorError("two catch-all arms")
            default = int(val)
            continue
        if default is not None:
            raise TranslatorError("arm after the catch-all")
        for alt in pat.split("|"):
            alt = alt.strip()
            am = re.match(r"^Instruction::(\w+)\s*(\(\s*(\.\.|_(\s*,\s*_)*)\s*\))?$", alt)
            if not am:
                raise TranslatorError("pattern outside the whitelist: %r" % alt[:60])
            n = am.group(1)
            if n not in names:
                raise TranslatorError("arm names unknown variant %s" % n)
            if n in table:
                raise TranslatorError("variant %s named twice" % n)
            table[n] = int(val)
    if default is None and len(table) != len(names):
        raise TranslatorError("match is not exhaustive and has no catch-all")
    return {n: table.get(n, default) for n in names}


def generate(repo, out_path):
    """Writes the Gallina table (only when it changed).  Returns dict(names=[..], cost={name: c})."""
    names = variants(repo)
    cost = costs(repo, names)
    lines = ["(* GENERATED by tools/fuel_table.py from minijinja/src/vm/fuel.rs::fuel_for_instruction and",
             "   compiler/instructions.rs::Instruction - do not edit; regenerated by every run of ./check C13. *)",
             "From MJ Require Import Common.Base.",
             "",
             "(* (opcode id = position of the variant in `enum Instruction`, fuel charged for it) *)",
             "Definition fuel_table : list (Z * Z) :=",
             "  [ " + ";\n    ".join("(%d, %d)  (* %s *)" % (i, cost[n], n) for i, n in enumerate(names)) + " ].",
             ""]
    txt = "\n".join(lines)
    old = open(out_path).read() if os.path.exists(out_path) else None
    if old != txt:
        open(out_path, "w").write(txt)
    return {"names": names, "cost": cost}


if __name__ == "__main__":
    import sys
    r = generate(sys.argv[1] if len(sys.argv) > 1 else "/repo", sys.argv[2] if len(sys.argv) > 2 else "/dev/stdout")
