#!/usr/bin/env python3
"""Assembles MANIFEST.json from tools/manifest/<ID>.json (one file per claimed property)
and tools/manifest/_not_applicable.json."""
import json, os
R = os.path.dirname(os.path.dirname(os.path.abspath(__file__)))
d = os.path.join(R, "tools", "manifest")
checks = []
# only properties the integrator has accepted (builders drop their entry files here while still working)
integrated = set(json.load(open(os.path.join(d, "_integrated.json"))))
for f in sorted(os.listdir(d)):
    if f.startswith("_") or not f.endswith(".json"):
        continue
    e = json.load(open(os.path.join(d, f)))
    pid = e["property_id"]
    if pid not in integrated:
        continue
    e.setdefault("quick_cmd", "./check %s --tier quick" % pid)
    e.setdefault("thorough_cmd", "./check %s --tier thorough" % pid)
    e.setdefault("evidence_file", "evidence/%s.json" % pid)
    e.setdefault("replay_cmd_template", "./check %s --replay {path}" % pid)
    e.setdefault("engine", "coq-model+correspondence")
    checks.append(e)
na = json.load(open(os.path.join(d, "_not_applicable.json")))
claimed = {c["property_id"] for c in checks}
na = [x for x in na if x["property_id"] not in claimed]
hooks = json.load(open(os.path.join(d, "_hooks.json")))
m = {
    "version": 1,
    "setup_cmd": "python3 tools/setup.py",
    "hooks": hooks,
    "engines": [{"name": "coq-model+correspondence", "path": "coq/ harness/ extract/ tools/",
                 "serves_properties": sorted(claimed),
                 "kind_free_text": "Coq 8.16.1 theorems about hand-written Gallina models of the code; models extracted to OCaml (and re-evaluated by the kernel on a sample) and compared with the implementation through a Rust harness linked against /repo; spec oracle on the implementation for failing-input search"}],
    "checks": checks,
    "not_applicable": na,
    "notes": "See DESIGN.md. known_findings.json lists recorded findings and fixed defects.",
}
json.dump(m, open(os.path.join(R, "MANIFEST.json"), "w"), indent=1)
# known_findings.json = merge of known/<ID>.json (the checks read the per-property files)
kn, fx = [], []
kd = os.path.join(R, "known")
for f in sorted(os.listdir(kd)) if os.path.isdir(kd) else []:
    if f.endswith(".json") and f[:-5] in integrated:
        k = json.load(open(os.path.join(kd, f)))
        pid = f[:-5]
        kn += [dict(x, property=pid) for x in k.get("known", [])]
        fx += [dict(x, property=pid) for x in k.get("fixed", [])]
json.dump({"known": kn, "fixed": fx}, open(os.path.join(R, "known_findings.json"), "w"), indent=1)
print("claimed:", sorted(claimed), "not_applicable:", [x["property_id"] for x in na])
