"""Encoding of proggen ASTs and contexts into the integer lists decoded by coq/theories/Lang/Codec.v."""

FIXED = {"range": 1, "caller": 2, "loop": 3}
ATTRS = {"index": 1, "index0": 2, "revindex": 3, "revindex0": 4, "length": 5, "first": 6, "last": 7}
FILTERS = {"length": 1, "upper": 2, "lower": 3, "trim": 4, "capitalize": 5, "string": 6, "abs": 7, "default": 8,
           "first": 9, "last": 10, "safe": 11, "escape": 12,
           "replace": 13, "join": 14, "format": 15, "list": 16, "items": 17}
TESTS = {"defined": 1, "undefined": 2, "odd": 3, "even": 4, "none": 5, "mapping": 6}
BINOPS = {"+": 0, "-": 1, "*": 2, "//": 3, "%": 4, "~": 5}
CMPOPS = {"==": 0, "!=": 1, "<": 2, "<=": 3, ">": 4, ">=": 5, "in": 6, "notin": 7}


class Names:
    def __init__(self):
        self.ids = dict(FIXED)
        self.rev = {v: k for k, v in FIXED.items()}

    def id(self, n):
        if n not in self.ids:
            i = 100 + len(self.ids)
            self.ids[n] = i
            self.rev[i] = n
        return self.ids[n]


def attr_id(name):
    """Lang/Syntax.v::attr_str: the loop attributes have fixed numbers, any other (ASCII) attribute name is
    1000 + sum c_i * 128^i"""
    if name in ATTRS:
        return ATTRS[name]
    return 1000 + sum(ord(c) << (7 * i) for i, c in enumerate(name))


def attr_name(i):
    for k, v in ATTRS.items():
        if v == i:
            return k
    i -= 1000
    out = ""
    while i > 0:
        out += chr(i % 128)
        i //= 128
    return out


def target(t, N):
    """assignment target: a name, or a pair of names (unpacking)"""
    return [0, N.id(t)] if isinstance(t, str) else [1, N.id(t[0]), N.id(t[1])]


def s_enc(s):
    return [len(s)] + [ord(c) for c in s]


def expr(e, N):
    t = e[0]
    if t == "int": return [0, e[1]]
    if t == "str": return [1] + s_enc(e[1])
    if t == "bool": return [2, 1 if e[1] else 0]
    if t == "none": return [3]
    if t == "var": return [4, N.id(e[1])]
    if t == "list": return [5, len(e[1])] + sum((expr(x, N) for x in e[1]), [])
    if t == "neg": return [6] + expr(e[1], N)
    if t == "not": return [7] + expr(e[1], N)
    if t == "bin": return [8, BINOPS[e[1]]] + expr(e[2], N) + expr(e[3], N)
    if t == "cmp": return [9] + expr(e[1], N) + [len(e[2])] + sum(([CMPOPS[o]] + expr(r, N) for o, r in e[2]), [])
    if t == "and": return [10] + expr(e[1], N) + expr(e[2], N)
    if t == "or": return [11] + expr(e[1], N) + expr(e[2], N)
    if t == "ifexpr": return [12] + expr(e[1], N) + expr(e[2], N) + ([0] if e[3] is None else [1] + expr(e[3], N))
    if t == "item": return [13] + expr(e[1], N) + expr(e[2], N)
    if t == "attr": return [14] + expr(e[1], N) + [attr_id(e[2])]
    if t == "filter": return [15, FILTERS[e[1]]] + expr(e[2], N) + [len(e[3])] + sum((expr(a, N) for a in e[3]), [])
    if t == "test": return [16, TESTS[e[1]]] + expr(e[2], N) + [len(e[3])] + sum((expr(a, N) for a in e[3]), []) + [1 if e[4] else 0]
    if t == "call":
        return [17, N.id(e[1]), len(e[2])] + sum((expr(a, N) for a in e[2]), []) + [len(e[3])] + sum(([N.id(k)] + expr(v, N) for k, v in e[3]), [])
    if t == "map": return [18, len(e[1])] + sum((expr(k, N) + expr(v, N) for k, v in e[1]), [])
    raise ValueError(t)


def body(b, N):
    return [len(b)] + sum((stmt(s, N) for s in b), [])


def stmt(s, N):
    t = s[0]
    if t == "raw": return [0] + s_enc(s[1])
    if t == "emit": return [1] + expr(s[1], N)
    if t == "if":
        out = [2, len(s[1])]
        for c, b in s[1]:
            out += expr(c, N) + body(b, N)
        return out + ([0] if s[2] is None else [1] + body(s[2], N))
    if t == "for":
        out = [3] + target(s[1], N)
        out += expr(s[2], N) + ([0] if s[3] is None else [1] + expr(s[3], N)) + body(s[4], N)
        return out + ([0] if s[5] is None else [1] + body(s[5], N)) + [1 if s[6] else 0]
    if t == "set": return [4] + target(s[1], N) + expr(s[2], N)
    if t == "setblock": return [5, N.id(s[1])] + body(s[2], N) + ([0] if not s[3] else [1, FILTERS[s[3]]])
    if t == "with": return [6, len(s[1])] + sum((target(n, N) + expr(e, N) for n, e in s[1]), []) + body(s[2], N)
    if t == "macro":
        return [7, N.id(s[1]), len(s[2])] + [N.id(p) for p in s[2]] + [len(s[3])] + sum(([N.id(p)] + expr(d, N) for p, d in s[3]), []) + body(s[4], N)
    if t == "callblock": return [8, N.id(s[1]), len(s[2])] + sum((expr(a, N) for a in s[2]), []) + body(s[3], N)
    if t == "filterblock": return [9, FILTERS[s[1]]] + body(s[2], N)
    if t == "autoescape": return [10] + expr(s[1], N) + body(s[2], N)
    if t == "break": return [11]
    if t == "continue": return [12]
    raise ValueError(t)


def value(v):
    if v is None: return [1]
    if isinstance(v, bool): return [2, 1 if v else 0]
    if isinstance(v, int): return [3, v]
    if isinstance(v, str): return [4] + s_enc(v)
    if isinstance(v, list): return [5, len(v)] + sum((value(x) for x in v), [])
    if isinstance(v, dict): return [6, len(v)] + sum((value(k) + value(x) for k, x in v.items()), [])
    raise ValueError(v)


MODES = {"lenient": 0, "strict": 1, "semistrict": 2, "chainable": 3}


def strip_trailing_newline(prog):
    """lexer.rs: one trailing newline of the template source is removed (keep_trailing_newline off)"""
    if prog and prog[-1][0] == "raw":
        t = prog[-1][1]
        if t.endswith("\r\n"):
            t = t[:-2]
        elif t.endswith("\n") or t.endswith("\r"):
            t = t[:-1]
        return prog[:-1] + ([("raw", t)] if t else [])
    return prog


def request(prog, ctx, mode="lenient", escape=False, names=None):
    N = names or Names()
    prog = strip_trailing_newline(prog)
    out = [MODES[mode], 1 if escape else 0, len(ctx)]
    for k in sorted(ctx):
        out += [N.id(k)] + value(ctx[k])
    return out + body(prog, N), N
