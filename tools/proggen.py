#!/usr/bin/env python3
"""Typed generator of core-fragment templates (DESIGN.md §1.7).

AST (plain tuples, first item = tag):
 expressions
   ("int", n) ("str", s) ("bool", b) ("none",) ("var", name) ("list", [e..]) ("neg", e) ("not", e)
   ("bin", op, a, b)           op in + - * // % ~
   ("cmp", a, [(op, e)..])     op in == != < <= > >= in notin
   ("and", a, b) ("or", a, b) ("ifexpr", c, t, f|None)
   ("item", e, idx) ("attr", e, name) ("filter", name, e, [args]) ("test", name, e, [args], negated)
   ("call", name, [args], [(kw, e)..])          call of a macro / global function by name
   ("map", [(key_expr, value_expr)..])          map literal {k: v, ..}
 statements
   ("raw", text) ("emit", e) ("if", [(cond, body)..], else_body|None)
   ("for", target(str | [str,str]), iter, filter|None, body, else_body|None, recursive)
   ("set", target, e) ("setblock", name, body, filter_name|None) ("with", [(target, e)..], body)
   target = name (str) | [name, name] (unpacking assignment, as in ("for", ..))
   ("macro", name, [params], [(param, default)..], body) ("callblock", name, [args], body)
   ("filterblock", filter_name, body) ("autoescape", value_expr, body) ("break",) ("continue",)
   ("include", template_name) ("do", call_expr)

Every random choice comes from the SplitMix `rng` passed in.
"""

KW = {"true", "false", "none", "loop", "in", "if", "else", "not", "and", "or", "is"}


def q(s):
    return '"' + s.replace("\\", "\\\\").replace('"', '\\"') + '"'


def expr_src(e):
    t = e[0]
    if t == "int":
        return str(e[1]) if e[1] >= 0 else "(%d)" % e[1]
    if t == "str":
        return q(e[1])
    if t == "bool":
        return "true" if e[1] else "false"
    if t == "none":
        return "none"
    if t == "var":
        return e[1]
    if t == "list":
        return "[" + ", ".join(expr_src(x) for x in e[1]) + "]"
    if t == "neg":
        return "(-(" + expr_src(e[1]) + "))"
    if t == "not":
        return "(not " + expr_src(e[1]) + ")"
    if t == "bin":
        return "(" + expr_src(e[2]) + " " + e[1] + " " + expr_src(e[3]) + ")"
    if t == "cmp":
        s = expr_src(e[1])
        for op, r in e[2]:
            s += " " + ("not in" if op == "notin" else op) + " " + expr_src(r)
        return "(" + s + ")"
    if t == "and":
        return "(" + expr_src(e[1]) + " and " + expr_src(e[2]) + ")"
    if t == "or":
        return "(" + expr_src(e[1]) + " or " + expr_src(e[2]) + ")"
    if t == "ifexpr":
        return "(" + expr_src(e[2]) + " if " + expr_src(e[1]) + ((" else " + expr_src(e[3])) if e[3] is not None else "") + ")"
    if t == "item":
        return expr_src(e[1]) + "[" + expr_src(e[2]) + "]"
    if t == "attr":
        return expr_src(e[1]) + "." + e[2]
    if t == "filter":
        return expr_src(e[2]) + "|" + e[1] + (("(" + ", ".join(expr_src(a) for a in e[3]) + ")") if e[3] else "")
    if t == "test":
        return "(" + expr_src(e[2]) + (" is not " if e[4] else " is ") + e[1] + (("(" + ", ".join(expr_src(a) for a in e[3]) + ")") if e[3] else "") + ")"
    if t == "call":
        args = [expr_src(a) for a in e[2]] + [k + "=" + expr_src(v) for k, v in e[3]]
        return e[1] + "(" + ", ".join(args) + ")"
    if t == "map":
        return "{" + ", ".join(expr_src(k) + ": " + expr_src(v) for k, v in e[1]) + "}"
    raise ValueError(t)


def target_src(t, parens=False):
    if isinstance(t, str):
        return t
    return ("(" + ", ".join(t) + ")") if parens else ", ".join(t)


def body_src(body):
    return "".join(stmt_src(s) for s in body)


def stmt_src(s):
    t = s[0]
    if t == "raw":
        return s[1]
    if t == "emit":
        return "{{ " + expr_src(s[1]) + " }}"
    if t == "if":
        out = ""
        for i, (c, b) in enumerate(s[1]):
            out += "{% " + ("if " if i == 0 else "elif ") + expr_src(c) + " %}" + body_src(b)
        if s[2] is not None:
            out += "{% else %}" + body_src(s[2])
        return out + "{% endif %}"
    if t == "for":
        tgt = s[1] if isinstance(s[1], str) else ", ".join(s[1])
        out = "{% for " + tgt + " in " + expr_src(s[2])
        if s[3] is not None:
            out += " if " + expr_src(s[3])
        if s[6]:
            out += " recursive"
        out += " %}" + body_src(s[4])
        if s[5] is not None:
            out += "{% else %}" + body_src(s[5])
        return out + "{% endfor %}"
    if t == "set":
        return "{% set " + target_src(s[1]) + " = " + expr_src(s[2]) + " %}"
    if t == "setblock":
        return "{% set " + s[1] + ((" | " + s[3]) if s[3] else "") + " %}" + body_src(s[2]) + "{% endset %}"
    if t == "with":
        return "{% with " + ", ".join(target_src(n, True) + " = " + expr_src(e) for n, e in s[1]) + " %}" + body_src(s[2]) + "{% endwith %}"
    if t == "macro":
        dflt = dict(s[3])
        params = [p + ((" = " + expr_src(dflt[p])) if p in dflt else "") for p in s[2]]
        return "{% macro " + s[1] + "(" + ", ".join(params) + ") %}" + body_src(s[4]) + "{% endmacro %}"
    if t == "callblock":
        return "{% call " + s[1] + "(" + ", ".join(expr_src(a) for a in s[2]) + ") %}" + body_src(s[3]) + "{% endcall %}"
    if t == "filterblock":
        return "{% filter " + s[1] + " %}" + body_src(s[2]) + "{% endfilter %}"
    if t == "autoescape":
        return "{% autoescape " + expr_src(s[1]) + " %}" + body_src(s[2]) + "{% endautoescape %}"
    if t == "break":
        return "{% break %}"
    if t == "continue":
        return "{% continue %}"
    if t == "include":
        return "{% include " + q(s[1]) + " %}"
    if t == "do":
        return "{% do " + expr_src(s[1]) + " %}"
    raise ValueError(t)


class Gen:
    """Typed random generator.  `features` switches constructs on/off."""

    def __init__(self, rng, features=None, max_depth=4):
        self.rng = rng
        self.f = {"break": True, "macro": True, "autoescape": False, "include": False, "filters": True,
                  "setblock": True, "callblock": True, "recursive": False, "malformed": 0, "undefined": 0,
                  "strings_with_meta": False, "maps": True, "unpack": True}
        if features:
            self.f.update(features)
        self.max_depth = max_depth
        self.counter = 0
        self.macros = []      # (name, nparams, has_caller)

    def fresh(self, prefix="v"):
        self.counter += 1
        return "%s%d" % (prefix, self.counter)

    # ---- expressions -------------------------------------------------------------------
    def vars_of(self, env, kind):
        return [n for n, k in env.items() if k == kind]

    # kinds of map variables: "map:<key>=<kind>,.." (the kinds of the values under the string keys)
    def maps_of(self, env):
        out = []
        for n, k in env.items():
            if isinstance(k, str) and k.startswith("map:"):
                keys = dict(p.split("=") for p in k[4:].split(",") if p)
                out.append((n, keys))
        return out

    def map_lookup(self, env, kind):
        """m.key / m['key'] of a map variable whose value under that key has the kind, or None"""
        r = self.rng
        cands = [(n, key) for n, keys in self.maps_of(env) for key, k in keys.items() if k == kind]
        if not self.f["maps"] or not cands:
            return None
        n, key = r.choice(cands)
        return ("attr", ("var", n), key) if r.chance(1, 2) else ("item", ("var", n), ("str", key))

    def map_expr(self, env, d):
        """(expression of kind map, {key: kind} of its string keys)"""
        r = self.rng
        ms = self.maps_of(env)
        if ms and r.chance(1, 2):
            n, keys = r.choice(ms)
            return ("var", n), keys
        pairs, keys = [], {}
        for _ in range(r.below(4)):
            key = r.choice(["a", "b", "c", "k", 1, 2])
            c = r.below(4)
            if c == 0: v, k = self.int_expr(env, 0), "int"
            elif c == 1: v, k = self.str_expr(env, 0), "str"
            elif c == 2: v, k = ("list", [self.int_expr(env, 0) for _ in range(r.below(3))]), "list"
            else: v, k = self.int_expr(env, min(d, 1)), "int"
            pairs.append((("str", key) if isinstance(key, str) else ("int", key), v))
            if isinstance(key, str):
                keys[key] = k                     # duplicate keys: the last value wins
        return ("map", pairs), keys

    def int_expr(self, env, d, in_loop=False):
        r = self.rng
        if self.f["maps"] and r.chance(1, 10):
            e = self.map_lookup(env, "int")
            if e is not None:
                return e
            if d > 0 and r.chance(1, 2):
                return ("filter", "length", self.map_expr(env, d - 1)[0], [])
        if d <= 0 or r.chance(1, 3):
            vs = self.vars_of(env, "int")
            if vs and r.chance(1, 2):
                return ("var", r.choice(vs))
            if in_loop and r.chance(1, 3):
                return ("attr", ("var", "loop"), r.choice(["index", "index0", "revindex", "revindex0", "length"]))
            if self.f["undefined"] and r.chance(self.f["undefined"], 100):
                return ("var", "undef" + str(r.below(3)))
            return ("int", r.choice([0, 1, 2, 3, 5, 7, 10, 42, -1, -3]))
        c = r.below(8)
        if c == 0:
            return ("bin", r.choice(["+", "-", "*"]), self.int_expr(env, d - 1, in_loop), self.int_expr(env, d - 1, in_loop))
        if c == 1:
            return ("bin", r.choice(["//", "%"]), self.int_expr(env, d - 1, in_loop), ("int", r.choice([1, 2, 3, 7, -2])))
        if c == 2:
            return ("neg", self.int_expr(env, d - 1, in_loop))
        if c == 3:
            return ("filter", "length", self.list_expr(env, d - 1), [])
        if c == 4:
            return ("ifexpr", self.bool_expr(env, d - 1, in_loop), self.int_expr(env, d - 1, in_loop), self.int_expr(env, d - 1, in_loop))
        if c == 5 and self.f["filters"]:
            return ("filter", "abs", self.int_expr(env, d - 1, in_loop), [])
        if c == 6:
            ls = self.vars_of(env, "list")
            if ls:
                return ("filter", "default", ("item", ("var", r.choice(ls)), ("int", r.choice([0, 1, -1, 5]))), [("int", 9)])
        return ("bin", "+", self.int_expr(env, d - 1, in_loop), ("int", 1))

    def str_expr(self, env, d):
        r = self.rng
        if self.f["maps"] and r.chance(1, 10):
            e = self.map_lookup(env, "str")
            if e is not None:
                return e
            if d > 0 and r.chance(1, 2):       # the printed form of a map / of a list
                return ("filter", "string", self.map_expr(env, d - 1)[0] if r.chance(2, 3) else self.list_expr(env, d - 1), [])
        if d <= 0 or r.chance(1, 3):
            vs = self.vars_of(env, "str")
            if vs and r.chance(1, 2):
                return ("var", r.choice(vs))
            pool = ["a", "bc", "", "X y", "q"]
            if self.f["strings_with_meta"]:
                pool += ["<b>", "a&b", "\"q\"", "it's", "<"]
            return ("str", r.choice(pool))
        c = r.below(5)
        if c == 0:
            return ("bin", "~", self.str_expr(env, d - 1), self.any_scalar(env, d - 1))
        if c == 1 and self.f["filters"]:
            return ("filter", r.choice(["upper", "lower", "trim", "capitalize"]), self.str_expr(env, d - 1), [])
        if c == 2 and self.f["filters"]:
            return ("filter", "string", self.int_expr(env, d - 1), [])
        if c == 3:
            return ("ifexpr", self.bool_expr(env, d - 1), self.str_expr(env, d - 1), self.str_expr(env, d - 1))
        return ("bin", "~", self.str_expr(env, d - 1), self.str_expr(env, d - 1))

    def bool_expr(self, env, d, in_loop=False):
        r = self.rng
        if self.f["maps"] and d > 0 and r.chance(1, 10):
            me, keys = self.map_expr(env, d - 1)
            c = r.below(6)
            key = ("str", r.choice(list(keys) + ["a", "zz"])) if r.chance(3, 4) else ("int", r.choice([1, 2, 3]))
            if c == 0:
                return ("cmp", key, [(r.choice(["in", "notin"]), me)])
            if c == 1:
                return ("test", "mapping", r.choice([me, self.list_expr(env, 0), self.int_expr(env, 0)]), [], r.chance(1, 4))
            if c == 2:
                return ("cmp", me, [(r.choice(["==", "!="]), self.map_expr(env, d - 1)[0])])
            if c == 3:
                return ("test", "defined", ("item", me, key) if r.chance(1, 2) or key[0] != "str" else ("attr", me, key[1]), [], r.chance(1, 4))
            if c == 4:
                return ("not", me)
            return ("cmp", ("filter", "length", me, []), [(r.choice(["==", ">", "<"]), ("int", r.below(3)))])
        if d <= 0 or r.chance(1, 4):
            vs = self.vars_of(env, "bool")
            if vs and r.chance(1, 2):
                return ("var", r.choice(vs))
            if in_loop and r.chance(1, 2):
                return ("attr", ("var", "loop"), r.choice(["first", "last"]))
            return ("bool", r.chance(1, 2))
        c = r.below(9)
        if c == 0:
            return ("cmp", self.int_expr(env, d - 1, in_loop), [(r.choice(["==", "!=", "<", "<=", ">", ">="]), self.int_expr(env, d - 1, in_loop))])
        if c == 1:
            return ("cmp", self.int_expr(env, d - 1, in_loop), [(r.choice(["<", "<=", "=="]), self.int_expr(env, d - 1, in_loop)),
                                                               (r.choice(["<", ">", "!="]), self.int_expr(env, d - 1, in_loop))])
        if c == 2:
            return ("not", self.bool_expr(env, d - 1, in_loop))
        if c == 3:
            return ("and", self.bool_expr(env, d - 1, in_loop), self.bool_expr(env, d - 1, in_loop))
        if c == 4:
            return ("or", self.bool_expr(env, d - 1, in_loop), self.bool_expr(env, d - 1, in_loop))
        if c == 5:
            return ("cmp", self.int_expr(env, d - 1, in_loop), [(r.choice(["in", "notin"]), self.list_expr(env, d - 1))])
        if c == 6:
            names = list(env) + ["undef0"]
            return ("test", r.choice(["defined", "undefined"]), ("var", r.choice(names)), [], r.chance(1, 4))
        if c == 7:
            return ("test", r.choice(["odd", "even"]), self.int_expr(env, d - 1, in_loop), [], False)
        return ("cmp", self.str_expr(env, d - 1), [("==", self.str_expr(env, d - 1))])

    def list_expr(self, env, d):
        r = self.rng
        if self.f["maps"] and r.chance(1, 10):
            e = self.map_lookup(env, "list")
            if e is not None:
                return e
        vs = self.vars_of(env, "list")
        c = r.below(4)
        if vs and c == 0:
            return ("var", r.choice(vs))
        if c == 1:
            return ("call", "range", [("int", r.below(5))], [])
        return ("list", [self.int_expr(env, 0) for _ in range(r.below(4))])

    def any_scalar(self, env, d, in_loop=False):
        if self.f["maps"] and self.rng.chance(1, 10):
            # whole collections are printed too: a map / a list / the keys of a map / a missing key
            c = self.rng.below(5)
            me, keys = self.map_expr(env, d)
            if c == 0: return me
            if c == 1: return self.list_expr(env, d)
            if c == 2: return ("filter", "list", me, [])
            if c == 3: return ("filter", "join", me, [("str", ",")])
            return ("filter", "default", ("attr", me, self.rng.choice(list(keys) + ["zz"])), [("str", "-")])
        c = self.rng.below(3)
        if c == 0:
            return self.int_expr(env, d, in_loop)
        if c == 1:
            return self.str_expr(env, d)
        return self.bool_expr(env, d, in_loop)

    # ---- statements ----------------------------------------------------------------------
    def body(self, env, d, in_loop, n=None):
        r = self.rng
        n = (1 + r.below(3)) if n is None else n
        env = dict(env)
        out = []
        for _ in range(n):
            out.append(self.stmt(env, d, in_loop))
        return out

    def stmt(self, env, d, in_loop):
        r = self.rng
        if d <= 0:
            c = r.below(3)
            if c == 0:
                return ("raw", r.choice(["t", " ", "ab", "-", ".\n"]))
            return ("emit", self.any_scalar(env, 1, in_loop))
        if self.f["maps"] and r.chance(1, 12):
            # a loop over the keys of a map (the item is the key: a string), or over its [key, value] pairs
            me, keys = self.map_expr(env, 1)
            k = self.fresh("k")
            env2 = dict(env)
            env2[k] = "str"
            els = self.body(env, d - 1, in_loop) if r.chance(1, 4) else None
            if self.f["unpack"] and r.chance(1, 2):
                v = self.fresh("x")
                env2[v] = "other"
                body = [("emit", ("var", k)), ("raw", "="), ("emit", ("var", v)), ("raw", ";")] + self.body(env2, d - 1, True, n=1)
                return ("for", [k, v], ("filter", "items", me, []), None, body, els, False)
            body = [("emit", ("var", k)), ("raw", ":"), ("emit", ("item", me, ("var", k))), ("raw", ";")] + self.body(env2, d - 1, True, n=1)
            flt = ("cmp", ("var", k), [("!=", ("str", r.choice(list(keys) + ["a"])))]) if r.chance(1, 4) else None
            return ("for", k, me, flt, body, els, False)
        if self.f["unpack"] and r.chance(1, 14):
            # unpacking assignment: the right-hand side is evaluated completely before the targets are bound
            ints = self.vars_of(env, "int")
            c = r.below(9)
            if c == 0 and len(ints) >= 2:
                a, b = r.choice(ints), r.choice(ints)
                rhs = ("list", [("var", b), ("bin", "+", ("var", a), ("var", b))])      # the running pair
            else:
                a, b = self.fresh("u"), self.fresh("u")
                if c == 1 and ints: a = r.choice(ints)
                n = 2 if not self.f["malformed"] and r.chance(9, 10) else r.choice([1, 2, 2, 3])
                rhs = ("list", [self.int_expr(env, 1, in_loop) for _ in range(n)])
                if c == 2: rhs = ("map", [(("str", "p"), ("int", 1)), (("str", "q"), ("int", 2))])     # unpacks into the keys
                if c == 3: rhs = r.choice([("int", 5), ("str", "xy"), ("var", "undef0"), ("none",)])    # not unpackable
            if a == b:
                b = self.fresh("u")
            if r.chance(1, 2):
                env2 = dict(env)
                env2[a] = env2[b] = "other" if c in (2, 3) else "int"
                return ("with", [([a, b], rhs)] + ([(self.fresh("w"), ("var", a))] if r.chance(1, 3) else []), self.body(env2, d - 1, in_loop))
            env[a] = env[b] = "other" if c in (2, 3) else "int"
            return ("set", [a, b], rhs)
        c = r.below(16)
        if c == 0:
            return ("raw", r.choice(["t", " ", "ab", "-", ".\n"]))
        if c in (1, 2):
            return ("emit", self.any_scalar(env, 2, in_loop))
        if c == 3:
            arms = [(self.bool_expr(env, 2, in_loop), self.body(env, d - 1, in_loop)) for _ in range(1 + r.below(2))]
            els = self.body(env, d - 1, in_loop) if r.chance(1, 2) else None
            return ("if", arms, els)
        if c in (4, 5):
            v = self.fresh("i")
            env2 = dict(env)
            env2[v] = "int"
            flt = self.bool_expr(env2, 1) if r.chance(1, 4) else None
            els = self.body(env, d - 1, in_loop) if r.chance(1, 4) else None
            return ("for", v, self.list_expr(env, 1), flt, self.body(env2, d - 1, True), els, False)
        if c == 6:
            v = self.fresh("s")
            # a third of the assignments re-bind a name that already exists (context variable, outer
            # set, loop or macro parameter): shadowing and closure capture only show up then
            olds = [n for n, k in env.items() if k in ("int", "str", "bool")]
            if olds and r.chance(1, 3):
                v = r.choice(olds)          # same kind as before, so that the program stays well typed
                k = env[v]
                e = self.int_expr(env, 2, in_loop) if k == "int" else (self.str_expr(env, 2) if k == "str" else self.bool_expr(env, 2, in_loop))
                return ("set", v, e)
            e = self.any_scalar(env, 2, in_loop)
            env[v] = "int" if e[0] in ("int", "neg", "bin") and (e[0] != "bin" or e[1] != "~") else "other"
            return ("set", v, e)
        if c == 7:
            v = self.fresh("w")
            env2 = dict(env)
            env2[v] = "int"
            return ("with", [(v, self.int_expr(env, 1, in_loop))], self.body(env2, d - 1, in_loop))
        if c == 8 and self.f["setblock"]:
            v = self.fresh("b")
            b = self.body(env, d - 1, in_loop)
            env[v] = "str"
            return ("setblock", v, b, r.choice([None, None, "upper"]) if self.f["filters"] else None)
        if c == 9 and self.f["filters"]:
            return ("filterblock", r.choice(["upper", "lower", "trim"]), self.body(env, d - 1, in_loop))
        if c == 10 and self.f["break"] and in_loop:
            inner = ("break",) if r.chance(1, 2) else ("continue",)
            return ("if", [(self.bool_expr(env, 1, in_loop), [inner])], None) if r.chance(3, 4) else inner
        if c == 11 and self.f["macro"]:
            name = self.fresh("m")
            params = [self.fresh("p") for _ in range(r.below(3))]
            env2 = dict(env)
            for p in params:
                env2[p] = "int"
            dflt = [(params[-1], self.int_expr(env, 0))] if params and r.chance(1, 2) else []
            uses_caller = self.f["callblock"] and r.chance(1, 3)
            b = self.body(env2, d - 1, False)
            if uses_caller:
                b.append(("emit", ("call", "caller", [], [])))
            self.macros.append((name, len(params), uses_caller, len(dflt)))
            env[name] = "macro"
            return ("macro", name, params, dflt, b)
        if c == 12 and self.macros:
            ms = [m for m in self.macros if env.get(m[0]) == "macro"]
            if ms:
                name, np, uses_caller, nd = r.choice(ms)
                nargs = np - (r.below(nd + 1))
                args = [self.int_expr(env, 1, in_loop) for _ in range(nargs)]
                if uses_caller:
                    return ("callblock", name, args, self.body(env, d - 1, False))
                return ("emit", ("call", name, args, []))
        if c == 13 and self.f["autoescape"]:
            return ("autoescape", r.choice([("bool", True), ("bool", False), ("str", "html"), ("str", "none")]), self.body(env, d - 1, in_loop))
        if c == 14 and self.f["include"]:
            return ("include", "inc%d.txt" % r.below(2))
        return ("emit", self.any_scalar(env, 2, in_loop))

    def template(self, ctx_kinds):
        """ctx_kinds: {name: kind}; returns list of statements."""
        env = dict(ctx_kinds)
        return self.body(env, self.max_depth, False, n=2 + self.rng.below(4))


def default_context(rng):
    """A context of ints, strings, bools, lists and maps (string keys -> ints / strings / lists / one nested
    map), plus its kinds.  The kind of a map is "map:<key>=<kind of the value>,.."."""
    ctx = {"n": rng.choice([0, 1, 3, 7]), "m": rng.choice([-2, 2, 10]), "s": rng.choice(["", "ab", "Q"]),
           "t": rng.choice([True, False]), "l": [rng.below(5) for _ in range(rng.below(4))],
           "k": [1, 2, 3][: rng.below(4)]}
    kinds = {"n": "int", "m": "int", "s": "str", "t": "bool", "l": "list", "k": "list"}
    d, dk = {}, []
    for key, kind, val in (("b", "str", rng.choice(["x", "it's", "<i>", "a\"b", ""])), ("a", "int", rng.choice([0, 4, -7])),
                           ("l", "list", [rng.below(3) for _ in range(rng.below(3))]), ("c", "int", rng.below(100))):
        if rng.chance(3, 4):
            d[key] = val
            dk.append(key + "=" + kind)
    ctx["d"] = d
    kinds["d"] = "map:" + ",".join(dk)
    e = rng.choice([{}, {"x": 1, "y": 2}, {"k": {"a": 1, "z": "w"}, "j": 5}, {"y": "n", "x": [1, "s"]}])
    ctx["e"] = e
    kinds["e"] = "map:" + ",".join(k + "=" + ("int" if isinstance(v, int) else "str" if isinstance(v, str) else "other") for k, v in e.items())
    return ctx, kinds


# ---- shrinking (delta debugging on the AST) --------------------------------------------------
def _sub_bodies(s):
    """(index path within stmt tuple, body list) pairs"""
    t = s[0]
    if t == "if":
        return [b for _, b in s[1]] + ([s[2]] if s[2] is not None else [])
    if t == "for":
        return [s[4]] + ([s[5]] if s[5] is not None else [])
    if t in ("setblock", "with", "filterblock", "autoescape"):
        return [s[2]]
    if t == "macro":
        return [s[4]]
    if t == "callblock":
        return [s[3]]
    return []


def _replace_body(s, old, new):
    t = s[0]
    if t == "if":
        arms = [(c, new if b is old else b) for c, b in s[1]]
        els = new if s[2] is old else s[2]
        return ("if", arms, els)
    if t == "for":
        return ("for", s[1], s[2], s[3], new if s[4] is old else s[4], new if s[5] is old else s[5], s[6])
    if t in ("setblock",):
        return (t, s[1], new, s[3])
    if t in ("with", "filterblock", "autoescape"):
        return (t, s[1], new)
    if t == "macro":
        return ("macro", s[1], s[2], s[3], new)
    if t == "callblock":
        return ("callblock", s[1], s[2], new)
    return s


def variants(body):
    """smaller variants of a statement list"""
    for i in range(len(body)):
        yield body[:i] + body[i + 1:]                       # drop a statement
    for i, s in enumerate(body):
        for b in _sub_bodies(s):
            yield body[:i] + list(b) + body[i + 1:]          # replace a construct by one of its bodies
            for v in variants(b):
                yield body[:i] + [_replace_body(s, b, v)] + body[i + 1:]
        if s[0] == "for" and s[3] is not None:
            yield body[:i] + [("for", s[1], s[2], None, s[4], s[5], s[6])] + body[i + 1:]
        if s[0] == "if" and len(s[1]) > 1:
            yield body[:i] + [("if", s[1][:1], s[2])] + body[i + 1:]
            yield body[:i] + [("if", s[1][1:], s[2])] + body[i + 1:]


def shrink(body, still_fails, budget=300):
    """greedy delta debugging: keeps applying the first smaller variant on which `still_fails` holds"""
    cur = body
    n = 0
    progress = True
    while progress and n < budget:
        progress = False
        for v in variants(cur):
            n += 1
            if n > budget:
                break
            try:
                if still_fails(v):
                    cur = v
                    progress = True
                    break
            except Exception:
                pass
    return cur


# ---- structured family: macro / call-block closures and scoping ---------------------------------
def closure_family():
    """Exhaustive small combinations around what a macro (or call block) body can see:
    an outer name bound at template level / in a with / in a loop, before or after the macro
    declaration; the body re-binds it (plainly, inside an if-branch that is or is not taken, inside a
    loop, inside a with) and reads it afterwards; the macro is called before/after a later outer re-bind.
    Returns (body, ctx) pairs."""
    X = "x"
    out = []
    rd = ("emit", ("var", X))
    inner_sets = {
        "none": [],
        "plain": [("set", X, ("int", 1))],
        "if_taken": [("if", [(("var", "c"), [("set", X, ("int", 1))])], None)],
        "if_else": [("if", [(("var", "c"), [("raw", "-")])], [("set", X, ("int", 2))])],
        "elif": [("if", [(("bool", False), [("raw", "-")]), (("var", "c"), [("set", X, ("int", 3))])], None)],
        "for": [("for", "q", ("list", [("int", 1)]), None, [("set", X, ("int", 4))], None, False)],
        "with": [("with", [("w", ("int", 0))], [("set", X, ("int", 5))])],
        "setblock": [("setblock", X, [("raw", "sb")], None)],
    }
    outer_binds = {
        "ctxonly": [],                                             # x comes from the render context
        "set_before": [("set", X, ("int", 5))],
        "with": None, "loop": None,                                # wrappers, handled below
    }
    for ob in ("ctxonly", "set_before", "with", "loop", "set_after"):
        for name, ins in inner_sets.items():
            for cval in (True, False):
                for callblock in (False, True):
                    body = list(ins) + [("raw", "["), rd, ("raw", "]")]
                    if callblock:
                        decl = ("macro", "m", ["c"], [], [("raw", "<"), ("emit", ("call", "caller", [], [])), ("raw", ">")])
                        use = [("callblock", "m", [("bool", cval)], [("set", "c", ("bool", cval))] + body)]
                    else:
                        decl = ("macro", "m", ["c"], [], body)
                        use = [("emit", ("call", "m", [("bool", cval)], []))]
                    tail = [("raw", "|"), rd]
                    if ob == "ctxonly":
                        prog = [decl] + use + tail
                    elif ob == "set_before":
                        prog = [("set", X, ("int", 5)), decl] + use + [("set", X, ("int", 6))] + use + tail
                    elif ob == "set_after":
                        prog = [decl, ("set", X, ("int", 7))] + use + tail
                    elif ob == "with":
                        prog = [("with", [(X, ("int", 8))], [decl] + use + tail)] + tail
                    else:
                        prog = [("for", X, ("list", [("int", 9), ("int", 10)]), None, [decl] + use + tail, None, False)] + tail
                    for ctx in ({"x": 42, "c": True}, {"c": False}):
                        out.append((prog, ctx))
    return out
