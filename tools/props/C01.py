#!/usr/bin/env python3
"""C01 - loading and rendering a template never crashes the host process (DESIGN.md §3 C01; PARTIAL).

(a) Coq: parser recursion is bounded and every loop of the parser that nests what it parsed one level deeper
    per iteration is charged against the nesting limit (call graph + loop table regenerated from parser.rs on
    every run and checked by verified checkers), the nesting counters bound the height of every accepted
    expression (model of the accounting), the fixed `range` length arithmetic never leaves i128, slices never
    panic (C09 model), accepted instruction streams never underflow (C05 checker).
(b) crash monitor (exploration, not proof): boundary sweep of every built-in filter / test / function /
    operator, nesting generators around and far beyond the recursion and nesting limits, mutated fixtures;
    every request runs in a child process (harness bin `prog`) on a 2 MiB thread, debug and release; every
    returned error is formatted with {}, {:#}, {:?} and display_debug_info().  The request list is sharded
    over parallel child processes; a crash costs one restart, a hang the 20 s watchdog of one shard.
(c) stack meter (harness bin `c01`): bytes of native stack used by parse / code generation / AST drop /
    render at the limits, debug and release (evidence: how far the accepted nesting is from 2 MiB)."""
import os, sys, collections, glob, re, concurrent.futures, threading
sys.path.insert(0, os.path.dirname(os.path.dirname(os.path.abspath(__file__))))
from vlib import *
import parser_graph

SMALL = ["0", "1", "-1", "2", "3", "7", "1.5", "-2.5", "''", "'abc'", "'a b,c'", "'<b>'", "[]", "[1,2,3]", "['b','a']",
         "[[1,2],[3,4]]", "{}", "{'a':1,'b':2}", "none", "true", "false", "u", "range(3)", "(1,2)"]
BIG = ["9223372036854775807", "-9223372036854775807", "9223372036854775808", "18446744073709551615", "4611686018427387904",
       "170141183460469231731687303715884105727", "340282366920938463463374607431768211455", "99999999999999", "100000001",
       "1e308", "-1e308", "1e-320", "-9223372036854775808", "2147483648"]
ALL = SMALL + BIG
X4 = ["'abc'", "[1,2,3]", "7", "u"]
X8 = X4 + ["{'a':1,'b':2}", "1.5", "none", "range(3)"]
R10 = ["0", "-1", "2", "'a'", "[]", "none", "true", "4611686018427387904", "9223372036854775807", "340282366920938463463374607431768211455"]
OPS = ["+", "-", "*", "/", "//", "%", "**", "~", "<", "==", "in", "and", "or"]
KWARGS = ["attribute", "default", "width", "first", "blank", "indent", "reverse", "case_sensitive", "by", "start", "length", "end", "leeway", "n", "html", "min", "max",
          "key", "value", "fill_with", "killwords", "count", "boolean"]
CTX = {"x": {"a": [1, 2]}, "a": False, "l": [1], "m": "s"}
WATCHDOG_MS = 20000
STACK_BUDGET = 2 * 1024 * 1024


def builtin_names(repo):
    """names of the built-in filters, tests and global functions, read from defaults.rs (bodies of build_builtin_filters /
    build_builtin_tests / build_globals, older trees: get_*); raises when a list comes out implausibly short - a sweep
    over the wrong names tests nothing"""
    src = open(os.path.join(repo, "minijinja/src/defaults.rs")).read()

    def body(*fn_names):
        for fn in fn_names:
            m = re.search(r"fn\s+%s\s*\(" % fn, src)
            if m:
                b = src.find("{", m.end())
                e = parser_graph.match_brace(src, b)
                names = re.findall(r'rv\.insert\(\s*"([A-Za-z_]+)"', src[b:e])
                if names:
                    return sorted(set(names))
        return []

    filters = body("build_builtin_filters", "get_builtin_filters")
    tests = body("build_builtin_tests", "get_builtin_tests")
    funcs = body("build_globals", "get_globals")
    if len(filters) < 30 or len(tests) < 15 or len(funcs) < 3 or "divisibleby" not in tests or "upper" not in filters:
        raise RuntimeError("cannot read the built-in names from defaults.rs: %d filters, %d tests, %d functions" % (len(filters), len(tests), len(funcs)))
    contrib_filters = ["pluralize", "filesizeformat", "truncate", "wordcount", "wordwrap", "striptags", "random", "datetimeformat", "dateformat", "timeformat"]
    return filters + contrib_filters, tests, sorted(set(funcs + ["range", "dict", "namespace", "cycler", "joiner", "debug", "lipsum", "randrange"]))


DEEP_DATA = [
    "{% set ns = namespace(x=[]) %}{% for i in range(100000) %}{% set ns.x = [ns.x] %}{% endfor %}{{ ns.x|length }}",
    "{% set ns = namespace(x=[]) %}{% for i in range(100000) %}{% set ns.x = [ns.x] %}{% endfor %}{{ ns.x }}",
    "{% set ns = namespace(x={}) %}{% for i in range(100000) %}{% set ns.x = {'a': ns.x} %}{% endfor %}{{ ns.x|tojson|length }}",
    "{% set ns = namespace(x='') %}{% for i in range(100000) %}{% set ns.x = ns.x ~ 'a' %}{% endfor %}{{ ns.x|length }}",
    "{% set ns = namespace(x=[]) %}{% for i in range(3000) %}{% set ns.x = [ns.x] %}{% endfor %}{{ ns.x == ns.x }}{{ ns.x < ns.x }}{{ [ns.x]|sort|length }}{{ {ns.x: 1}|length }}",
    "{% set ns = namespace(x=[]) %}{% for i in range(3000) %}{% set ns.x = ns.x + [i] %}{% endfor %}{{ ns.x|length }}",
    "{% set ns = namespace(x=[]) %}{% for i in range(2000) %}{% set ns.x = [ns.x] %}{% endfor %}{{ ns.x|tojson|length }}{{ ns.x|string|length }}",
]


def sweep_templates(repo, rng, thorough):
    filters, tests, funcs = builtin_names(repo)
    out = []
    for f in filters:
        for x in ALL:
            out.append("{{ %s|%s }}" % (x, f))
        for x in X8:
            for a in ALL:
                out.append("{{ %s|%s(%s) }}" % (x, f, a))
        for x in X4:
            for a in R10:
                for b in R10:
                    out.append("{{ %s|%s(%s, %s) }}" % (x, f, a, b))
        if thorough:
            for x in X4:
                for a in R10:
                    for b in R10:
                        for c in R10[:5]:
                            out.append("{{ %s|%s(%s, %s, %s) }}" % (x, f, a, b, c))
        for kwn in KWARGS:
            for a in R10 + ["18446744073709551615"]:
                out.append("{{ %s|%s(%s=%s) }}" % (X4[len(out) % 3], f, kwn, a))
    for t in tests:
        for x in ALL:
            out.append("{{ %s is %s }}" % (x, t))
            for a in R10:
                out.append("{{ %s is %s(%s) }}" % (x, t, a))
    for f in funcs:
        out.append("{{ %s() }}" % f)
        for a in ALL:
            out.append("{{ %s(%s) }}" % (f, a))
            for b in R10:
                out.append("{{ %s(%s, %s) }}" % (f, a, b))
                for c in R10[:6]:
                    out.append("{{ %s(%s, %s, %s)|list|length }}" % (f, a, b, c))
    for a in ALL:
        for b in ALL:
            for op in OPS:
                out.append("{{ %s %s %s }}" % (a, op, b))
        out.append("{{ -%s }}" % a)
        out.append("{{ not %s }}" % a)
        out.append("{{ [1,2,3][%s] }}" % a)
        out.append("{{ 'abc'[%s:] }}{{ 'abc'[:%s] }}{{ 'abc'[::%s] }}" % (a, a, a))
        out.append("{%% for i in %s %%}{{ i }}{%% endfor %%}" % a)
        out.append("{%% for i, j in %s %%}{{ i }}{%% endfor %%}" % a)
        out.append("{%% for i in [1,2] %%}{{ loop.cycle(%s) }}{{ loop.changed(%s) }}{%% endfor %%}" % (a, a))
        out.append("{%% set ns = namespace(v=%s) %%}{%% set ns.w = %s %%}{{ ns.v }}{{ ns.w }}{{ ns }}" % (a, a))
        out.append("{%% autoescape %s %%}{{ '<' }}{%% endautoescape %%}" % a)
        out.append("{%% include %s %%}" % a)
        out.append("{%% extends %s %%}" % a)
        out.append("{%% import %s as m %%}{{ m }}" % a)
        out.append("{%% import 'other.txt' as %s %%}{%% from 'other.txt' import %s %%}{%% from 'other.txt' import x as %s %%}" % (a, a, a))
        out.append("{{ '%%s %%d'|format(%s, %s) }}" % (a, a))
        out.append("{{ '{:>' ~ %s ~ '}'|format(1) }}" % a)
        out.append("{{ (%s, %s)|min }}{{ [%s, u]|max }}{{ [%s, [%s]]|sort }}" % (a, a, a, a, a))
        out.append("{{ 2|chain(%s)|min }}{{ 2|chain(%s)|sort }}{{ u|chain(%s)|unique|list }}" % (a, a, a))
    out += ["{% for i in [1,2] %}{{ loop.cycle() }}{% endfor %}", "{{ loop }}", "{{ super() }}", "{{ caller() }}", "{{ self.x() }}",
            "{% for i in [1] %}{{ loop(1) }}{% endfor %}", "{% for i in [[1]] recursive %}{{ loop(2) }}{% endfor %}",
            "{{ 2|chain(2)|min }}", "{{ 2|chain(2)|max }}", "{{ 2|chain(2)|sort }}", "{{ 2|chain(2)|unique|list }}", "{{ 2|chain(2)|list|dictsort }}",
            "{{ 2|chain(2)|groupby('a') }}", "{{ [2|chain(2)|first, 2|chain(2)|first] == [1, 2] }}", "{{ 2|chain(2)|first < 2|chain(2)|first }}",
            "{{ () * 9223372036854775807 }}", "{{ [] * 9223372036854775807 }}", "{{ ((1,2) * 4000000)|length }}", "{{ ([1,2] * 4000000)|length }}",
            "{{ range(5, -9223372036854775807, -4611686018427387904)|list }}", "{{ range(9223372036854775807, -9223372036854775808, -9223372036854775808)|list }}",
            "{{ range(-9223372036854775808, 9223372036854775807, 9223372036854775807)|list }}", "{{ range(9223372036854775807, -1, -1) }}",
            "{{ 'a\nb\nc'|indent(33333334) |length }}", "{{ 'a\nb\nc'|indent(33333333)|length }}", "{{ [[1]]|tojson(1024)|length }}", "{{ [[1]]|tojson(1025)|length }}"]
    out += ["{% import 'other.txt' as -b %}", "{% import 'other.txt' as b % c %}", "{% import 'other.txt' as b if c %}", "{% import 'other.txt' as b.c %}",
            "{% import 'other.txt' as (b) %}", "{% import 'other.txt' as b, c %}", "{% import 'other.txt' as loop %}", "{% from 'other.txt' import -b %}",
            "{% for -i in l %}{% endfor %}", "{% for i.a in l %}{% endfor %}", "{% for i() in l %}{% endfor %}", "{% set -x = 1 %}", "{% set x() = 1 %}", "{% set x[0] = 1 %}",
            "{% with -x = 1 %}{% endwith %}", "{% with x.a = 1 %}{% endwith %}", "{% macro m(-a) %}{% endmacro %}", "{% macro m(a.b) %}{% endmacro %}", "{% macro -m() %}{% endmacro %}",
            "{% call(-a) m() %}{% endcall %}", "{% call(a.b) m() %}{% endcall %}", "{% block -b %}{% endblock %}", "{% set x | -upper %}{% endset %}"]
    # recursion at run time must end in the recursion-limit error, not in the guard page
    out += ["{% macro m(n) %}{{ m(n) }}{% endmacro %}{{ m(1) }}", "{% macro m(n) %}{% call m(n) %}{% endcall %}{% endmacro %}{{ m(1) }}", "{% include 'main' %}", "{% extends 'main' %}",
            "{% import 'main' as m %}", "{% from 'main' import x %}", "{% block b %}{{ self.b() }}{% endblock %}", "{% block b %}{{ super() }}{{ self.b() }}{% endblock %}",
            "{% for i in [1] recursive %}{{ loop([1]) }}{% endfor %}", "{% for i in [1] recursive %}{% for j in [1] recursive %}{{ loop([1]) }}{% endfor %}{% endfor %}",
            "{% macro a() %}{{ b() }}{% endmacro %}{% macro b() %}{{ a() }}{% endmacro %}{{ a() }}", "{% macro m() %}{{ caller() }}{% endmacro %}{% call m() %}{% include 'main' %}{% endcall %}",
            "{% set f %}{% include 'main' %}{% endset %}", "{% filter upper %}{% include 'main' %}{% endfilter %}", "{% macro m(n) %}{{ [m(n)]|map('string')|list }}{% endmacro %}{{ m(1) }}",
            "{% macro m(n) %}{{ n|map(m)|list }}{% endmacro %}{{ m([[[[[[[[[[[[[[[[[[[[[[[[[[[[[[[[[[[[[[[[[[[[[[[[[[[[[[[[[[[[[[1]]]]]]]]]]]]]]]]]]]]]]]]]]]]]]]]]]]]]]]]]]]]]]]]]]]]]]]]]]]]]]]) }}"]
    out += DEEP_DATA
    return out


CHAINS = [
    ("filter", lambda n: "{{ 1" + "|abs" * n + " }}"), ("attr", lambda n: "{{ x" + ".a" * n + " }}"), ("item", lambda n: "{{ x" + "[0]" * n + " }}"),
    ("dotint", lambda n: "{{ x" + ".0" * n + " }}"), ("slice", lambda n: "{{ m" + "[0:1]" * n + " }}"), ("callchain", lambda n: "{{ f" + "()" * n + " }}"),
    ("method", lambda n: "{{ x" + ".a(1)" * n + " }}"), ("filterarg", lambda n: "{{ x" + "|default(1)" * n + " }}"),
    ("add", lambda n: "{{ 1" + " + 1" * n + " }}"), ("addvar", lambda n: "{{ a" + " + 1" * n + " }}"), ("sub", lambda n: "{{ a" + " - 1" * n + " }}"),
    ("mul", lambda n: "{{ a" + " * 1" * n + " }}"), ("floordiv", lambda n: "{{ a" + " // 1" * n + " }}"), ("pow", lambda n: "{{ a" + " ** 1" * n + " }}"),
    ("concat", lambda n: "{{ 'a'" + " ~ 'b'" * n + " }}"), ("concatvar", lambda n: "{{ m" + " ~ m" * n + " }}"),
    ("and", lambda n: "{{ 1" + " and 1" * n + " }}"), ("or", lambda n: "{{ a" + " or a" * n + " }}"),
    ("test", lambda n: "{{ x" + " is defined" * n + " }}"), ("nottest", lambda n: "{{ x" + " is not defined" * n + " }}"),
    ("testarg", lambda n: "{{ 1" + " is eq 1" * n + " }}"), ("isand", lambda n: "{{ x is " + "defined and x is " * n + "defined }}"),
    ("ifnoelse", lambda n: "{{ 1" + " if a" * n + " }}"), ("compare", lambda n: "{{ 1" + " < 2" * n + " }}"),
    ("setattr", lambda n: "{% set ns = namespace() %}{% set ns" + ".a" * n + " = 1 %}"), ("settarget", lambda n: "{% set x" + ".a" * n + " = 1 %}"),
    ("filterblock", lambda n: "{% filter " + "|".join(["upper"] * max(n, 1)) + " %}x{% endfilter %}"),
    ("setblockfilter", lambda n: "{% set z | " + "|".join(["upper"] * max(n, 1)) + " %}x{% endset %}{{ z }}"),
    ("notin", lambda n: "{{ " + "(" * min(n, 70) + "1" + " not in l)" * min(n, 70) + " }}"),
    ("settuple", lambda n: "{% set x" + ".a" * n + ", y = 1, 2 %}"),
    ("forfilter", lambda n: "{% for i in l" + "|list" * n + " %}{{ i }}{% endfor %}"), ("ifcond", lambda n: "{% if a" + " or a" * n + " %}x{% endif %}"),
]
NESTS = [
    ("paren", lambda n: "{{ " + "(" * n + "1" + ")" * n + " }}"), ("list", lambda n: "{{ " + "[" * n + "1" + "]" * n + " }}"),
    ("neg", lambda n: "{{ " + "-" * n + "1 }}"), ("not", lambda n: "{{ " + "not " * n + "1 }}"),
    ("ifelse", lambda n: "{{ " + "1 if a else " * n + "2 }}"), ("addparen", lambda n: "{{ " + "1 + (" * n + "1" + ")" * n + " }}"),
    ("call", lambda n: "{{ " + "f(" * n + "1" + ")" * n + " }}"), ("kwarg", lambda n: "{{ " + "f(k=" * n + "1" + ")" * n + " }}"),
    ("splat", lambda n: "{{ " + "f(*" * n + "l" + ")" * n + " }}"), ("subscript", lambda n: "{{ " + "x[" * n + "0" + "]" * n + " }}"),
    ("slicearg", lambda n: "{{ " + "m[:" * n + "1" + "]" * n + " }}"), ("dict", lambda n: "{{ " + "{'a':" * n + "1" + "}" * n + " }}"),
    ("dictkey", lambda n: "{{ " + "{" * n + "1" + ":1}" * n + " }}"), ("filterarg", lambda n: "{{ x" + "|default(x" * n + ")" * n + " }}"),
    ("testarg", lambda n: "{{ " + "1 is eq(" * n + "1" + ")" * n + " }}"), ("testbare", lambda n: "{{ 1" + " is eq -" * n + "1 }}"),
    ("tuple", lambda n: "{{ " + "(" * n + "1" + ",)" * n + " }}"),
    ("if", lambda n: "{% if a %}" * n + "x" + "{% endif %}" * n), ("elif", lambda n: "{% if a %}x" + "{% elif a %}y" * n + "{% endif %}"),
    ("else", lambda n: "{% if a %}x{% else %}" * n + "y" + "{% endif %}" * n),
    ("for", lambda n: "{% for i in l %}" * n + "x" + "{% endfor %}" * n), ("forelse", lambda n: "{% for i in [] %}{% else %}" * n + "x" + "{% endfor %}" * n),
    ("with", lambda n: "{% with q=1 %}" * n + "x" + "{% endwith %}" * n), ("filterblock", lambda n: "{% filter upper %}" * n + "x" + "{% endfilter %}" * n),
    ("setblock", lambda n: "{% set z %}" * n + "x" + "{% endset %}" * n), ("autoescape", lambda n: "{% autoescape true %}" * n + "x" + "{% endautoescape %}" * n),
    ("unpack", lambda n: "{% for " + "(" * n + "a" + ",)" * n + " in l %}{% endfor %}"),
    ("macro", lambda n: "{% macro m() %}" * min(n, 150) + "x" + "{% endmacro %}" * min(n, 150)),
    ("callblock", lambda n: "{% call m() %}" * n + "x" + "{% endcall %}" * n),
    ("block", lambda n: "{% block b %}" + "{% if a %}" * n + "{% endif %}" * n + "{% endblock %}"),
    ("raw", lambda n: "{% raw %}" + "{{" * n + "{% endraw %}"), ("comment", lambda n: "{#" + "{#" * n + "#}"), ("openvar", lambda n: "{{" * n), ("openblock", lambda n: "{%" * n),
    ("escapes", lambda n: "{{ '" + "\\\\" * n + "' }}"), ("commas", lambda n: "{{ " + "1," * n + " }}"), ("items", lambda n: "{{ [" + "x.a," * n + "] |length }}"),
    ("manyexprs", lambda n: "{{ x.a }}" * n), ("strings", lambda n: "{{ " + "'a' " * n + " }}"),
]


def nesting_templates(thorough):
    """(label, template): chains around the nesting limit (500) and far beyond; recursion around MAX_RECURSION
    (150, i.e. 75 for constructs that cost two units) and far beyond; products of the two."""
    out = []
    chain_depths = [10, 100, 400, 497, 498, 499, 500, 501, 502, 1000, 2000, 20000] + ([100000] if thorough else [])
    nest_depths = [10, 50, 72, 73, 74, 75, 76, 100, 147, 148, 149, 150, 151, 200, 1000, 20000] + ([100000] if thorough else [])
    for name, g in CHAINS:
        for n in chain_depths:
            out.append(("chain:%s:%d" % (name, n), g(n)))
    for name, g in NESTS:
        for n in nest_depths:
            out.append(("nest:%s:%d" % (name, n), g(n)))
    # a chain at the bottom of / around / at every level of a recursion
    for d in (10, 40, 70, 73):
        for c in (100, 300, 420, 440, 460, 480, 495, 600):
            out.append(("mix:call-chain-inside:%d:%d" % (d, c), "{{ " + "f(" * d + "x" + ".a" * c + ")" * d + " }}"))
            out.append(("mix:call-chain-outside:%d:%d" % (d, c), "{{ " + "f(" * d + "1" + ")" * d + "|abs" * c + " }}"))
            out.append(("mix:list-chain-inside:%d:%d" % (d, c), "{{ " + "[" * d + "a" + " + 1" * c + "]" * d + " }}"))
            out.append(("mix:for-chain:%d:%d" % (d, c), "{% for i in l %}" * d + "{{ x" + "|abs" * c + " }}" + "{% endfor %}" * d))
        for c in (2, 5, 7, 10, 50):
            out.append(("mix:paren-chain-each-level:%d:%d" % (d, c), "{{ " + "(" * d + "1" + (")" + " + 1" * c) * d + " }}"))
            out.append(("mix:call-chain-each-level:%d:%d" % (d, c), "{{ " + "f(" * d + "1" + (")" + "|abs" * c) * d + " }}"))
            out.append(("mix:sub-chain-each-level:%d:%d" % (d, c), "{{ " + "x[" * d + "0" + ("]" + ".a" * c) * d + " }}"))
    for d in (50, 100, 140, 148):
        for e in (1, 10, 36, 37, 74):
            out.append(("mix:stmt-expr:%d:%d" % (d, e), "{% for i in l %}" * d + "{{ " + "f(" * e + "1" + ")" * e + " }}" + "{% endfor %}" * d))
            out.append(("mix:if-list:%d:%d" % (d, e), "{% if a %}" * d + "{{ " + "[" * e + "1" + "]" * e + " }}" + "{% endif %}" * d))
            out.append(("mix:with-filterarg:%d:%d" % (d, e), "{% with q=1 %}" * d + "{{ x" + "|default(x" * e + ")" * e + " }}" + "{% endwith %}" * d))
    # siblings must not add up: wide but shallow
    out.append(("wide:list-of-chains", "{{ [" + ", ".join(["x" + ".a" * 300] * 200) + "]|length }}"))
    out.append(("wide:sum-of-chains", "{{ " + " ~ ".join(["m" + "|upper" * 200] * 250) + " }}"))
    out.append(("wide:args-of-chains", "{{ f(" + ", ".join(["x" + "[0]" * 400] * 50) + ") }}"))
    return out


def pipeline_templates(repo, rng, n):
    """seeded random combinations: a value through 1-3 filters with boundary arguments (positional and keyword),
    a test or an operator on top, sometimes inside a for loop / set / if; arguments that mean legal but heavy
    work (10^8, 2^31 items) are left to the single-filter sweep"""
    filters, tests, funcs = builtin_names(repo)
    # calibrate on the implementation: which names exist and how many positional arguments they take
    probe = [("{{ %s|%s(%s) }}" % (x, f, ", ".join(["1"] * k)), f, k) for f in filters for k in range(4) for x in ("'abc'", "[1,2,3]")]
    res = run_parallel("prog", [{"templates": {"main": t}, "main": "main", "ctx": CTX, "ops": ["render"]} for t, _, _ in probe], True, workers=14, chunk=64)
    arity = {}
    for (t, f, k), r in zip(probe, res):
        code = r.get("render", {}).get("err") if isinstance(r, dict) else None
        if code not in (6, 8):  # neither TooManyArguments nor UnknownFilter
            arity[f] = max(arity.get(f, 0), k)
    filters = sorted(arity) or filters
    pool = [a for a in ALL if a not in ("100000001", "2147483648")]
    kw = KWARGS
    out = []
    for _ in range(n):
        e = rng.choice(pool)
        for _ in range(1 + rng.below(3)):
            f = rng.choice(filters)
            k = rng.below(arity.get(f, 2) + 2)
            args = [rng.choice(pool) for _ in range(k if k <= arity.get(f, 2) else 0)]
            if rng.chance(1, 5):
                args.append("%s=%s" % (rng.choice(kw), rng.choice(pool)))
            e = "%s|%s%s" % (e, f, "(" + ", ".join(args) + ")" if args or rng.chance(1, 4) else "")
        k = rng.below(8)
        if k == 0:
            e = "%s is %s" % (e, rng.choice(tests))
        elif k == 1:
            e = "(%s) %s %s" % (e, rng.choice(OPS), rng.choice(pool))
        elif k == 2:
            e = "%s(%s)" % (rng.choice(funcs), e)
        w = rng.below(6)
        if w == 0:
            out.append("{%% for i in %s %%}{{ i }}{{ loop.index }}{{ loop.previtem }}{{ loop.cycle(i, 1) }}{%% endfor %%}" % e)
        elif w == 1:
            out.append("{%% set v = %s %%}{{ v }}{{ v|length }}{{ v == v }}{{ [v, v]|sort }}" % e)
        elif w == 2:
            out.append("{%% if %s %%}a{%% else %%}b{%% endif %%}" % e)
        else:
            out.append("{{ %s }}" % e)
    return out


# ---------------------------------------------------------------------------------------------
# boundary families of the other properties' input spaces (a panic there is a C01 violation too)
# ---------------------------------------------------------------------------------------------
WS = ["\t", "\n", "\x0b", "\x0c", "\r", " ", "\x85", "\xa0", "\u1680", "\u2000", "\u2001", "\u2002", "\u2003", "\u2004", "\u2005", "\u2006", "\u2007", "\u2008",
      "\u2009", "\u200a", "\u2028", "\u2029", "\u202f", "\u205f", "\u3000"]              # every Unicode White_Space character
ODDTEXT = ["\r\n", "\u00e9", "\u20ac", "a\u0301", "\U0001d11e", "\ufeff", "\x00", "\u200b", "\u180e", "\ud7ff", "\U0010ffff", "\x1c", "\x1f", "-", "+", "{", "#"]
I63 = ["9223372036854775807", "-9223372036854775808", "9223372036854775808", "-9223372036854775809", "18446744073709551616", "170141183460469231731687303715884105727"]


def slice_family(thorough):
    """every container kind x start, stop in {omitted, -len-2 .. len+2, +-2^63 boundaries} x step in {omitted, +-1, +-2,
    +-len, 0, boundaries}; subscripts with the same indices"""
    conts = [("'abc'", 3), ("'a\u00e9\u20ac\U0001d11e'", 4), ("''", 0), ("[1,2,3]", 3), ("[]", 0), ("(1,2,3)", 3), ("()", 0), ("range(4)", 4), ("range(0)", 0),
             ("(range(10)|list)", 10), ("{'a':1,'b':2}", 2), ("u", 0), ("none", 0), ("x.a", 2), ("7", 0), ("(l|map('string'))", 1), ("(m|batch(1))", 1), ("('abc'|reverse)", 3)]
    out = []
    for c, n in conts:
        near = [str(i) for i in range(-n - 2, n + 3)]
        bounds = [""] + (near if n <= 4 or thorough else [str(i) for i in (-n - 2, -n - 1, -n, -n + 1, -1, 0, 1, n - 1, n, n + 1, n + 2)]) + I63[:4]
        steps = ["", "1", "-1", "2", "-2", "0"] + ([str(n), str(-n)] if n > 2 else []) + [str(n + 1), str(-n - 1), I63[0], I63[1], "-9223372036854775807"]
        for a in bounds:
            for b in bounds:
                for st in steps:
                    out.append("{{ %s[%s:%s%s] }}" % (c, a, b, (":" + st) if st or (len(out) % 7 == 0) else ""))
        for a in near + I63 + ["1.0", "-1.5", "'a'", "none", "true", "[]", "u"]:
            out.append("{{ %s[%s] }}{{ %s[%s] is defined }}" % (c, a, c, a))
            if a.lstrip("-").isdigit() and not a.startswith("-"):
                out.append("{{ %s.%s }}" % (c, a))
        out.append("{%% for i in %s[::-1] %%}{{ i }}{%% endfor %%}{{ %s[%s|length::-1] }}{{ %s[%s|length + 1:0:-2] }}" % (c, c, c, c, c))
    return out


def lexer_family(thorough):
    """every tag kind x whitespace-control marker on each side x text before / after the tag from {every Unicode
    White_Space char, CR LF, multi-byte letters, combining marks, 4-byte chars, BOM, NUL, ..} x whitespace settings;
    entries are (template, extra request fields)"""
    full = WS + ODDTEXT
    small = ["", " ", "\n", "\xa0x", " \u3000", "\n\u2003\u2003"]
    pairs = [(b, a) for b in full for a in small] + [(b, a) for b in small for a in full]
    tags = [lambda l, r: "{{%s m %s}}" % (l, r), lambda l, r: "{%%%s if a %s%%}y{%%%s endif %s%%}" % (l, r, l, r), lambda l, r: "{%%%s set q = 1 %s%%}" % (l, r),
            lambda l, r: "{#%s c %s#}" % (l, r), lambda l, r: "{%%%s raw %s%%}{{ z{%%%s endraw %s%%}" % (l, r, l, r),
            lambda l, r: "{%%%s for i in l %s%%}{{%s i %s}}{%%%s endfor %s%%}" % (l, r, l, r, l, r)]
    marks = ["", "-", "+"]
    settings = [None, {"trim_blocks": True}, {"lstrip_blocks": True}, {"trim_blocks": True, "lstrip_blocks": True, "keep_trailing_newline": True}]
    out = []
    k = 0
    for ti, tag in enumerate(tags):
        for l in marks:
            for r in marks:
                for b, a in pairs:
                    k += 1
                    # quick: each (tag, markers, text pair) under one of the settings in turn; thorough: all of them
                    for st in (settings if thorough else [settings[k % 4]]):
                        t = "p" + b + tag(l, r) + a + "q" + (b if k % 3 == 0 else "")
                        out.append((t, {"settings": st} if st else {}))
    return out


def line_syntax_family():
    """line statements / line comments (custom syntax; run through the c01 bin) with the same odd text around them"""
    full = WS + ODDTEXT
    out = []
    sy = {"line_statement_prefix": "#", "line_comment_prefix": "##"}
    for w in full:
        for body in ("# if a", "# for i in l", "## c", "#- if a", "# if a -", "#"):
            for st in (None, {"trim_blocks": True, "lstrip_blocks": True}):
                for t in ("p\n%s%s%s\nq\n# end%s\n" % (w, body, w, "if" if "if" in body else "for"), "%s%s\n{{ m }}%s## t%s\n# endif" % (w, body, w, w),
                          "p%s\n%s\n%sq" % (w, body, w), "{{ m -}}%s\n%s %s\n# endfor%s" % (w, body, w, w)):
                    out.append((t, {"syntax": sy, "settings": st or {}}))
    for sy2 in ({"block": ["\u00ab", "\u00bb"], "variable": ["\u2039", "\u203a"], "comment": ["\u2026", "\u2026"]}, {"block": ["<%", "%>"], "variable": ["${", "}"], "comment": ["<!--", "-->"]},
                {"line_statement_prefix": "\u00a7", "line_comment_prefix": "\u00a7\u00a7"}):
        b, e = sy2.get("block", ["{%", "%}"])
        v, ve = sy2.get("variable", ["{{", "}}"])
        for w in full:
            for mk in ("", "-", "+"):
                out.append(("p%s%s%s if a %s%s%s%s%s m %s%s%s%s endif %s" % (w, b, mk, mk, e, w, v, mk, mk, ve, w, b, e), {"syntax": sy2, "settings": {}}))
                out.append(("\u00a7 if a%s\n%sx\n\u00a7 endif" % (w, w), {"syntax": sy2, "settings": {"trim_blocks": True}}))
    return out


def arith_family():
    nums = ["0", "1", "-1", "2", "3", "-0.0", "0.5", "1e19", "-1e19", "9007199254740992", "9007199254740993", "9223372036854775807", "-9223372036854775808", "9223372036854775808",
            "18446744073709551615", "18446744073709551616", "170141183460469231731687303715884105727", "(-170141183460469231731687303715884105727 - 1)",
            "170141183460469231731687303715884105728", "340282366920938463463374607431768211455", "(1e308 * 10)", "(-1e308 * 10)", "((1e308 * 10) - (1e308 * 10))", "1e-320", "127", "64"]
    out = []
    for a in nums:
        for b in nums:
            for op in ["+", "-", "*", "/", "//", "%", "**", "<", "=="]:
                out.append("{{ %s %s %s }}" % (a, op, b))
        out.append("{{ -%s }}{{ %s|abs }}{{ %s|int }}{{ %s|float }}{{ %s|round }}{{ %s|round(2, 'floor') }}{{ %s|string }}{{ %s|tojson }}{{ %s|bool }}{{ [%s]|sum }}{{ [%s, 1]|min }}" % ((a,) * 11))
        for f in ("round", "int", "float", "abs", "filesizeformat", "format"):
            for b in nums[:18]:
                out.append("{{ %s|%s(%s) }}" % (a, f, b))
        out.append("{{ range(%s)|length }}{{ 'a' * %s }}{{ [1] * %s }}{{ 'abc'[%s] }}{{ 'abc'|center(%s) }}{{ '%%s'|format(%s) }}" % ((a,) * 6))
    return out


ODD = ["{1:2}", "{(1,2):3}", "{none:1}", "{1.5:2}", "{true:1,1:2}", "{[1]:2}", "{u:1}", "(1e308 * 10)", "(-1e308 * 10)", "((1e308 * 10) - (1e308 * 10))", "-0.0",
       "340282366920938463463374607431768211455", "[none,u,true]", "{'a':u}", "namespace(a=1)", "namespace", "range", "dict", "cycler(1,2)", "joiner()", "x", "'\\x00'",
       "'\ud7ff\U0010ffff'", "('\U0001d11e' * 3)", "(2|chain(2))", "[2|chain(2)|first]", "{'k': 2|chain(2)|first}", "(2|chain(2)|first)", "(l|map('nosuchfilter'))", "(l|map(attribute='a.b.c'))",
       "([1]|map('int')|map('string'))", "(x|items)", "(x|dictsort)", "[[[[[[[[[[[[[[[[[[[[1]]]]]]]]]]]]]]]]]]]]", "{'<':'>'}", "'\\'</script>'", "((1,2),(3,4))", "loop", "self", "debug"]


def odd_values_family(repo):
    """serialization / formatting / comparison of odd values through every filter and test"""
    filters, tests, funcs = builtin_names(repo)
    out = []
    for v in ODD:
        for f in filters:
            out.append("{{ %s|%s }}" % (v, f))
        for t in tests:
            out.append("{{ %s is %s }}" % (v, t))
        out.append("{{ %s }}{{ %s|tojson(2) }}{{ %s|urlencode }}{{ %s|pprint }}{{ [%s, %s]|sort }}{{ %s == %s }}{{ {%s: 1} }}{{ %s in [%s] }}{%% for i in %s %%}{{ i }}{%% endfor %%}"
                   % ((v,) * 12))
        out.append("{%% for i in [1] %%}{{ %s|string ~ loop|string }}{{ loop|tojson }}{{ [loop, %s]|sort }}{%% endfor %%}{{ '%%s %%r'|format(%s, %s) }}{{ debug(%s) }}" % ((v,) * 5))
    return out


def multi_template_family():
    """deep / cyclic inheritance, include and import shapes; fuel and recursion limits at their boundaries
    (entries are (main template, extra request fields))"""
    out = []
    for d in (1, 10, 50, 100, 200, 500, 2000):
        ext = {"t%d" % i: "{%% extends 't%d' %%}{%% block b %%}%d{{ super() }}{%% endblock %%}" % (i + 1, i) for i in range(d)}
        ext["t%d" % d] = "[{% block b %}x{% endblock %}]"
        out.append(("{% extends 't0' %}{% block b %}m{{ super() }}{% endblock %}", {"templates": ext}))
        inc = {"t%d" % i: "%d{%% include 't%d' %%}" % (i, i + 1) for i in range(d)}
        inc["t%d" % d] = "x"
        out.append(("{% include 't0' %}", {"templates": inc}))
        imp = {"t%d" % i: "{%% import 't%d' as n %%}{%% macro f() %%}%d{{ n.f() }}{%% endmacro %%}" % (i + 1, i) for i in range(d)}
        imp["t%d" % d] = "{% macro f() %}x{% endmacro %}"
        out.append(("{% import 't0' as n %}{{ n.f() }}", {"templates": imp}))
        cyc = {"t%d" % i: "{%% extends 't%d' %%}" % ((i + 1) % d) for i in range(d)}
        out.append(("{% extends 't0' %}", {"templates": cyc}))
        cyc2 = {"t%d" % i: "{%% include 't%d' %%}" % ((i + 1) % d) for i in range(d)}
        out.append(("{% include 't0' %}", {"templates": cyc2}))
        out.append(("{% extends 't0' %}" * 2, {"templates": ext}))
        out.append(("{% for i in range(3) %}{% include ['nope', 't0'] ignore missing %}{% endfor %}", {"templates": inc}))
    bodies = ["{{ m }}", "{% for i in range(50) %}{{ i }}{% endfor %}", "{% macro f(n) %}{{ n }}{% endmacro %}{{ f(1) }}{% include 'other.txt' %}", "{% set q %}{{ m|upper }}{% endset %}{{ q }}",
              "{% for i in [[1,[2]]] recursive %}{{ loop(i) if i is iterable else i }}{% endfor %}", "{% block b %}{{ self.b is defined }}{% endblock %}"]
    for b in bodies:
        for fuel in ("0", "1", "2", "7", "9223372036854775806", "9223372036854775807", "9223372036854775808", "18446744073709551614", "18446744073709551615"):
            out.append((b, {"fuel": fuel}))
            out.append((b, {"fuel": fuel, "ops": ["fuel_levels", "render"]}))
        # only templates that do not recurse without bound: a huge limit is the embedder's own choice of stack
        for lim in (0, 1, 2, 5, 2 ** 31, 2 ** 32 - 1, 2 ** 32, 2 ** 63 - 1, 2 ** 63, 2 ** 64 - 1):
            out.append((b, {"recursion_limit": lim}))
        for ub in ("strict", "semistrict", "chainable"):
            out.append((b + "{{ nope.a.b }}{{ nope[0] }}{{ nope|length }}{% for i in nope %}{% endfor %}", {"undefined": ub}))
    return out


CYCLES = [
    ("self", "{% set ns = namespace() %}{% set ns.me = ns %}{% set n2 = namespace() %}{% set n2.me = n2 %}"),
    ("two", "{% set ns = namespace() %}{% set nb = namespace(o=ns) %}{% set ns.o = nb %}{% set n2 = namespace() %}{% set nc = namespace(o=n2) %}{% set n2.o = nc %}"),
    ("list", "{% set ns = namespace(k=1) %}{% set ns.l = [1, ns] %}{% set n2 = namespace(k=1) %}{% set n2.l = [1, n2] %}"),
    ("map", "{% set ns = namespace() %}{% set ns.d = {'k': ns, 'j': [ns]} %}{% set n2 = namespace() %}{% set n2.d = {'k': n2, 'j': [n2]} %}"),
    ("tuple", "{% set ns = namespace() %}{% set ns.t = (ns, (ns,)) %}{% set n2 = namespace() %}{% set n2.t = (n2, (n2,)) %}"),
    ("lazy", "{% set ns = namespace() %}{% set ns.l = [ns]|map('string') %}{% set n2 = namespace() %}{% set n2.l = [n2]|batch(1) %}"),
    ("merge", "{% set ns = namespace() %}{% set ns.l = [ns] + [ns] %}{% set n2 = namespace() %}{% set n2.l = ([n2]|chain([n2])) %}"),
]


def split_exprs(tpls, prefix=""):
    """one template per `{{ .. }}`: an unknown filter or an error in the first expression must not mask the others"""
    out = []
    for t in tpls:
        pre = prefix if prefix and t.startswith(prefix) else ""
        body = t[len(pre):]
        parts = re.findall(r"\{\{ .*? \}\}", body, re.S)
        if len(parts) > 1 and "".join(parts) == body:
            out += [pre + p for p in parts]
        else:
            out.append(t)
    return out


def cyclic_family(repo):
    """values that contain themselves (through namespace attributes: directly, through a second namespace, a list,
    a map, a tuple, a lazy iterable) fed to every filter, test, operator, to printing, serialization, comparison"""
    filters, tests, funcs = builtin_names(repo)
    out = []
    for name, pre in CYCLES:
        for v in ("ns", "[ns]", "{'a': ns}"):
            for f in filters:
                out.append("%s{{ %s|%s }}" % (pre, v, f))
                if v == "ns":
                    out.append("%s{{ [1]|%s(ns) }}{{ ns|%s(ns) }}{{ ns|%s(attribute='me') }}" % (pre, f, f, f))
            for t in tests:
                out.append("%s{{ %s is %s }}{{ %s is %s(n2) }}" % (pre, v, t, v, t))
            for op in OPS:
                out.append("%s{{ %s %s n2 }}" % (pre, v, op))
                out.append("%s{{ %s %s 1 }}{{ 'a' %s %s }}" % (pre, v, op, op, v))
        out += [pre + t for t in (
            "{{ ns }}", "{{ [ns, n2] }}", "{{ ns|tojson }}", "{{ ns|tojson(2) }}", "{{ ns|string|length }}", "{{ ns == ns }}{{ ns == n2 }}{{ ns != n2 }}", "{{ ns < n2 }}{{ ns <= ns }}",
            "{{ [ns, n2]|sort|length }}", "{{ [n2, ns, n2]|unique|list|length }}", "{{ {ns: 1, n2: 2}|length }}", "{{ {ns: 1}[ns] }}", "{{ ns in [n2] }}{{ ns in {n2: 1} }}{{ n2 not in (ns,) }}",
            "{{ [ns, n2]|min }}", "{{ [ns, n2]|max|length }}", "{{ [[ns], [n2]]|sort|length }}", "{{ [{'a': ns}, {'a': n2}]|sort(attribute='a')|length }}", "{{ [ns, n2]|groupby('k')|length }}",
            "{{ ns|urlencode }}", "{{ ns|pprint }}", "{{ debug() }}", "{{ debug(ns) }}", "{{ ns ~ n2 }}", "{{ '%s %r'|format(ns, n2) }}", "{{ ns|dictsort }}", "{{ dict(ns) }}", "{{ dict(a=ns)|tojson }}",
            "{{ ns|items|list }}", "{{ ns|list }}", "{% for k in ns %}{{ k }}{{ ns[k] }}{% endfor %}", "{% for k, v in ns|items %}{{ v }}{% endfor %}", "{{ ns|e }}", "{{ ns|safe }}", "{{ ns|length }}",
            "{% if ns %}a{% endif %}{% if ns == n2 %}b{% endif %}", "{% set q %}{{ ns }}{% endset %}{{ q|length }}", "{% filter upper %}{{ ns }}{% endfilter %}", "{{ ns|attr('me') }}", "{{ ns.me.me.me.me is defined }}",
            "{% macro m(a) %}{{ a }}{% endmacro %}{{ m(ns) }}{{ m(a=n2) }}", "{% with z = ns %}{{ z }}{% endwith %}", "{% include 'other.txt' %}{{ ns }}", "{{ [ns]|map('string')|list }}", "{{ [ns]|map('tojson')|list }}",
            "{{ [ns, n2]|join(', ') }}", "{{ [ns]|select|list }}", "{{ [ns, n2]|selectattr('me', 'eq', ns)|list }}", "{{ ns|default(n2) }}", "{{ namespace(a=ns) }}", "{{ cycler(ns, n2).next() }}", "{{ [ns] * 3 }}",
            "{{ range(3)|map('string')|map('replace', '1', ns)|list }}", "{% for a in [ns, n2] %}{{ loop.changed(a) }}{{ loop.cycle(ns, n2) }}{{ loop.previtem }}{% endfor %}", "{% set ns.me = none %}{{ ns }}",
            # everything that hashes (IndexMap maps of the preserve_order build hash their keys; lookups hash the needle)
            "{{ {ns: 1}|length }}", "{{ {ns: 1, n2: 2, 'a': 3}|length }}", "{{ ns in {'a': 1, 'b': 2} }}", "{{ {'a': 1, 'b': 2}[ns] }}", "{{ {'a': 1, 'b': 2, 'c': 3}[[ns]] is defined }}", "{% set d = {(ns, 1): 'x', (n2, 2): 'y'} %}{{ d|length }}",
            "{{ dict({ns: 1}) }}", "{{ dict({ns: 1}, b=n2)|length }}", "{{ {[ns]: 1, [n2]: 2}|length }}", "{{ {{'k': ns}: 1, 'z': 2}|length }}", "{{ {ns: 1}[ns] }}", "{{ {ns: 1, n2: 2}[n2] }}", "{{ {ns: 1}|items|list|length }}",
            "{{ {ns: 1, n2: 2}|dictsort|length }}", "{{ {ns: 1, 'a': 2}|tojson }}", "{{ {ns: 1, 'a': 2}|list|length }}", "{{ x[ns] is defined }}", "{{ ns in x }}", "{{ {ns: 1, 'a': 2} == {n2: 1, 'a': 2} }}", "{{ [ns, n2, ns]|unique|list|length }}",
            "{{ [[ns], [n2], [ns]]|unique|list|length }}", "{{ [{'a': ns}, {'a': n2}]|unique(attribute='a')|list|length }}", "{{ [ns, n2]|groupby('me')|length }}", "{{ [{'a': ns, 'b': 1}, {'a': n2, 'b': 2}]|groupby('a')|length }}",
            "{{ [{'a': ns}]|map(attribute='a')|unique|list|length }}", "{{ namespace(**{'a': ns}).a is defined }}", "{{ {ns: 1}|urlencode }}", "{{ {'a': 1, 'b': 2}|attr(ns) is defined }}", "{{ [ns, n2]|sum(start={ns: 1}) is defined }}",
            "{% for k, v in {ns: 1, n2: 2}|items %}{{ loop.index }}{% endfor %}", "{% set m = {ns: 1, 'a': 2} %}{{ m[ns] }}{{ m['a'] }}{{ m|length }}", "{{ {ns: {n2: {ns: 1}}}|length }}", "{{ [1, 2]|map('string')|map('replace', '1', ns)|unique|list|length }}")]
    res = []
    for name, pre in CYCLES:
        res += split_exprs([t for t in out if t.startswith(pre)], pre)
    return res


WNUMS = ["0", "1", "2", "255", "256", "32767", "32768", "65535", "65536", "2147483647", "2147483648", "4294967295", "4294967296", "9223372036854775807", "9223372036854775808",
         "18446744073709551615", "18446744073709551616", "1000000000000", "100000000000000", "99999999999999999999999999"]


def width_family():
    """template-controlled numbers that become an allocation size or a formatting parameter: printf-style format strings
    with width / precision / flags at the boundaries x conversions x argument kinds, and every other place that takes a
    width or a count"""
    out = []
    convs = ["d", "i", "u", "o", "x", "X", "e", "E", "f", "F", "g", "G", "c", "s", "r", "a", "%", "b", "n", ""]
    args = ["1", "-1.5", "'ab'", "none", "340282366920938463463374607431768211455", "[1]", "true"]
    for w in WNUMS:
        for fl in ["", "0", "-", "+", " ", "#", "0-", "+0#", "ll", "*"]:
            for cv in convs:
                k = len(out)
                out.append("{{ '%%%s%s%s'|format(%s) }}" % (fl, w, cv, args[k % len(args)]))
                if fl in ("", "0", "-"):
                    out.append("{{ '%%%s.%s%s'|format(%s) }}{{ '%%%s%s.%s%s|'|format(%s) }}" % (fl, w, cv, args[(k + 1) % len(args)], fl, WNUMS[k % 6], w, cv, args[(k + 2) % len(args)]))
        for a in args:
            out.append("{{ '%%%sd %%.%sf %%%s.%ss %%-%sx|'|format(%s, %s, %s, %s) }}" % (w, w, w, w, w, a, a, a, a))
            out.append("{{ ('%%' ~ %s ~ 'd')|format(%s) }}{{ ('%%.' ~ %s ~ 'e')|format(%s) }}{{ '%%(k)%ss'|format(k=%s) }}{{ '%%%s$s'|format(%s) }}" % (w, a, w, a, w, a, w, a))
            out.append("{{ '%%s'|safe|format(%s) }}{{ '%%%sd'|safe|format(%s) }}{{ '%%.%sf'|safe|format(%s) }}" % (a, w, a, w, a))
        n = w
        out += [t.replace("N", n) for t in (
            "{{ ('x' * N)|length }}", "{{ ([1] * N)|length }}", "{{ ((1,) * N)|length }}", "{{ (N * 'ab')|length }}", "{{ range(N)|list|length }}", "{{ range(0, N)|length }}", "{{ range(0, N, N)|list }}",
            "{{ range(N, 0, -1)|length }}", "{{ range(-N, N)|length }}", "{{ 'abc'|center(N)|length }}", "{{ 'abc'|center(width=N)|length }}", "{{ 'a\nb'|indent(N)|length }}", "{{ 'a\nb'|indent(width=N, first=true, blank=true)|length }}",
            "{{ 'abc def'|truncate(N) }}", "{{ 'abc def'|truncate(length=N, leeway=N, end='') }}", "{{ 'abc def'|truncate(3, true, '', N) }}", "{{ 'abc def ghi'|wordwrap(N) }}", "{{ 'abc def ghi'|wordwrap(width=N) }}",
            "{{ [1,2,3]|batch(N)|list|length }}", "{{ [1,2,3]|batch(N, 0)|list|length }}", "{{ [1,2,3]|slice(N)|list|length }}", "{{ [1,2,3]|slice(N, 0)|list|length }}", "{{ 1.5|round(N) }}", "{{ 1.5|round(precision=N) }}",
            "{{ 12345.678|round(N, 'floor') }}{{ 1|round(N, 'ceil') }}", "{{ x|tojson(N)|length }}", "{{ x|tojson(indent=N)|length }}", "{{ lipsum(N)|length }}", "{{ lipsum(n=1, min=N, max=N)|length }}", "{{ lipsum(1, false, N, N)|length }}",
            "{{ x|pprint(N) }}", "{{ 'abc'[N:] }}{{ 'abc'[:N] }}{{ 'abc'[::N] }}{{ 'abc'[N] }}", "{{ 'a,b,c'|split(',', N) }}", "{{ 'abab'|replace('a', 'b', N) }}", "{{ N|filesizeformat }}{{ N|filesizeformat(true) }}",
            "{{ 'abc'|wordcount }}{{ N|string|length }}{{ N|abs }}{{ N|int }}{{ N|float }}", "{{ [1,2,3]|random }}{{ randrange(N) }}{{ randrange(0, N) }}", "{{ joiner(N)() }}{{ cycler(N).next() }}",
            "{{ 'abc'|urlize(N) }}", "{{ [1,2,3]|first(N) }}{{ [1,2,3]|last(N) }}", "{{ [1,2,3]|sum(start=N) }}{{ [N, N]|sum }}", "{% for i in range(N) %}{% break %}{% endfor %}", "{{ 2 ** N }}{{ 1 ** N }}{{ 0 ** N }}{{ (-1) ** N }}",
            "{{ 1|pluralize(N) }}{{ N|pluralize }}", "{{ '%s'|format(N) }}{{ '%d'|format(N) }}{{ '%x'|format(N) }}{{ '%e'|format(N) }}{{ '%c'|format(N) }}", "{{ 'a'|datetimeformat(N) }}{{ N|datetimeformat }}{{ N|dateformat }}{{ N|timeformat }}",
            "{% for i in [1,2,3] %}{{ loop.cycle(N) }}{% endfor %}", "{{ [1,2,3]|map('center', N)|map('length')|list }}")]
    return split_exprs(out)


def loop_control_family():
    """break / continue inside every kind of body (call block, nested call blocks, macro, filter / set / with / autoescape /
    if / block / inner loop) x enclosing loops x macros that invoke caller() 0, 1, 2 times or from their own loop"""
    wraps = {"wrap": "{% macro wrap() %}[{{ caller() }}]{% endmacro %}", "wrap2": "{% macro wrap2() %}[{{ caller() }}{{ caller() }}]{% endmacro %}",
             "nocall": "{% macro nocall() %}[]{% endmacro %}", "loopwrap": "{% macro loopwrap() %}{% for j in [1,2] %}({{ caller() }}){% endfor %}{% endmacro %}",
             "argwrap": "{% macro argwrap() %}{{ caller(1) }}{% endmacro %}"}
    loops = ["{% for x in [1,2,3] %}BODY{% endfor %}", "{% for x in [1,2,3] %}{% for y in [1,2] %}BODY{% endfor %}|{% endfor %}", "{% for x in [1,2,3] recursive %}BODY{% endfor %}",
             "{% for x in [1,2,3] if x %}BODY{% else %}e{% endfor %}", "{% for x in [] %}{% else %}BODY{% endfor %}", "{% for x in [[1,2],[3]] recursive %}{% if x is iterable %}{{ loop(x) }}{% else %}BODY{% endif %}{% endfor %}",
             "BODY", "{% macro outer() %}{% for x in [1,2,3] %}BODY{% endfor %}{% endmacro %}{{ outer() }}", "{% for x in [1,2,3] %}{% set ns = namespace(l=loop) %}BODY{{ ns.l.index }}{% endfor %}"]
    bodies = ["{% call W() %}{{ x }}{% if x == 2 %}CTRL{% endif %}{% endcall %}", "{% call W() %}CTRL{% endcall %}", "{% call W() %}{% call W() %}{{ x }}CTRL{% endcall %}{% endcall %}",
              "{% call(a) W() %}{{ a }}CTRL{% endcall %}", "{% macro inner() %}CTRL{% endmacro %}{{ inner() }}", "{% filter upper %}a{% if x == 2 %}CTRL{% endif %}b{% endfilter %}", "{% set q %}a{% if x != 1 %}CTRL{% endif %}{% endset %}{{ q }}",
              "{% with a=1 %}CTRL{% endwith %}", "{% autoescape true %}CTRL{% endautoescape %}", "{% if x %}{% if x > 1 %}CTRL{% endif %}{% endif %}{{ x }}", "{% call W() %}{% for z in [1,2] %}{{ z }}CTRL{% endfor %}{% endcall %}",
              "{% call W() %}{% for z in [1,2] %}{{ z }}{% endfor %}CTRL{% endcall %}", "{% block b %}CTRL{% endblock %}", "{% set q %}{% call W() %}CTRL{% endcall %}{% endset %}{{ q }}", "{% call W() %}a{% endcall %}CTRL",
              "{% filter upper %}{% call W() %}{% with a=1 %}{% if x == 2 %}CTRL{% endif %}{% endwith %}{% endcall %}{% endfilter %}", "{{ x }}{% include 'other.txt' %}CTRL", "{% call W() %}{% include 'brk' %}{% endcall %}"]
    out = []
    for wn, w in wraps.items():
        for lp in loops:
            for b in bodies:
                for c in ("{% break %}", "{% continue %}"):
                    out.append((w + lp.replace("BODY", b.replace("W", wn).replace("CTRL", c)), {"templates": {"brk": c}}))
    return out


def escaped_objects_family():
    """special objects (loop, caller, super, self, macros, imported modules, cycler / joiner, namespaces) stored in a namespace
    and used AFTER the construct that created them ended: every attribute and every call"""
    out = []
    pre = "{% set ns = namespace() %}"
    makers = []
    for it in ("[1,2,3]", "[]", "'abc'", "range(3)", "{'a':1,'b':2}", "x.a", "[[1,[2]],[3]]", "u", "range(100000)"):
        makers.append(pre + "{%% for q in %s %%}{%% set ns.l = loop %%}{%% endfor %%}" % it)
        makers.append(pre + "{%% for q in %s %%}{%% set ns.l = loop %%}{%% break %%}{%% endfor %%}" % it)
        makers.append(pre + "{%% for q in %s recursive %%}{%% set ns.l = loop %%}{%% if q is iterable and q is not string %%}{{ loop(q) }}{%% endif %%}{%% endfor %%}" % it)
        makers.append(pre + "{%% for q in %s if q %%}{%% if loop.first %%}{%% set ns.l = loop %%}{%% endif %%}{%% else %%}{%% endfor %%}" % it)
        makers.append(pre + "{%% for p in [1,2] %%}{%% for q in %s %%}{%% if loop.last %%}{%% set ns.l = loop %%}{%% endif %%}{%% endfor %%}{%% set ns.o = loop %%}{%% endfor %%}" % it)
    makers.append(pre + "{% macro mk() %}{% for q in [1,2] %}{% set ns.l = loop %}{% endfor %}{% endmacro %}{{ mk() }}")
    makers.append(pre + "{% for q in [1,2] %}{% set ns.l = loop %}{% endfor %}{% for z in [1] %}{% set ns.o = loop %}")  # used inside another loop
    attrs = ["index0", "index", "length", "revindex", "revindex0", "first", "last", "depth", "depth0", "previtem", "nextitem", "nosuch"]
    uses = ["{{ ns.l.%s }}" % a for a in attrs] + ["{{ ns.l.cycle(1, 2) }}", "{{ ns.l.cycle() }}", "{{ ns.l.changed(1) }}", "{{ ns.l.changed() }}", "{{ ns.l([1, 2]) }}", "{{ ns.l([[1]]) }}", "{{ ns.l() }}",
                                                       "{{ ns.l.nosuch() }}", "{{ ns.l }}", "{{ ns.l|string }}", "{{ ns.l|tojson }}", "{{ ns.l|list }}", "{{ ns.l|length }}", "{{ ns.l == ns.l }}{{ ns.l < ns.l }}",
                                                       "{{ ns.l|items|list }}", "{{ ns.l|pprint }}", "{% for i in ns.l %}{{ i }}{% endfor %}", "{{ [ns.l, ns.l]|sort }}", "{{ ns.o.revindex0 }}{{ ns.o.last }}{{ ns.o.nextitem }}",
                                                       "{% for w in [5,6] %}{{ ns.l.revindex0 }}{{ ns.l.cycle(w) }}{{ ns.l.changed(w) }}{{ loop.index }}{% endfor %}", "{{ ns.l['revindex'] }}{{ ns.l|attr('last') }}",
                                                       "{% macro use(l) %}{{ l.revindex }}{{ l.last }}{{ l([1]) }}{% endmacro %}{{ use(ns.l) }}"]
    for mk in makers:
        tail = "{% endfor %}" if mk.count("{% for") > mk.count("{% endfor") else ""
        for u in uses:
            out.append(mk + u + tail)
    others = [
        # caller / macros / call blocks
        "{% macro w() %}{% set ns.c = caller %}<{{ caller() }}>{% endmacro %}{% for q in [1,2] %}{% call w() %}b{{ q }}{{ loop.index }}{% endcall %}{% endfor %}USE",
        "{% macro w() %}{% set ns.c = caller %}{% endmacro %}{% call(a, b=2) w() %}{{ a }}{{ b }}{% endcall %}USE",
        "{% macro w(a, b=[]) %}{% set ns.c = w %}{% set ns.v = varargs %}{% set ns.k = kwargs %}{{ a }}{% endmacro %}{{ w(1) }}USE",
        "{% for q in [1] %}{% macro lm(a) %}{{ a }}{{ q }}{{ loop.index }}{% endmacro %}{% set ns.c = lm %}{% endfor %}USE",
        "{% with z = 5 %}{% macro wm(a) %}{{ a }}{{ z }}{% endmacro %}{% set ns.c = wm %}{% endwith %}USE",
        # super / self / blocks
        "{% extends 'base' %}{% block b %}{% set ns = namespace() %}{% set ns.c = super %}{{ super() }}{% set ns.s = self %}{{ ns.c() }}{{ ns.s.b is defined }}{% endblock %}",
        "{% block b %}{% set ns.c = self.b %}{% set ns.s = self %}x{% endblock %}USE",
        # modules
        "{% import 'mod' as mod %}{% set ns.c = mod.f %}{% set ns.m = mod %}USE{{ ns.m }}{{ ns.m.v }}{{ ns.m.f(1) }}{{ ns.m|tojson }}{{ ns.m|items|list }}",
        "{% from 'mod' import f, v %}{% set ns.c = f %}{% set ns.m = v %}USE",
        # cycler / joiner / namespace / dict / range / functions
        "{% set ns.c = cycler(1, 2).next %}USE", "{% set ns.c = joiner(', ') %}USE{{ ns.c() }}{{ ns.c() }}", "{% set ns.c = namespace %}USE", "{% set ns.c = range %}USE", "{% set ns.c = debug %}USE",
        "{% set ns.c = loop %}USE", "{% set ns.c = caller %}USE", "{% set ns.c = super %}USE", "{% set ns.c = self %}USE", "{% set ns.c = varargs %}USE", "{% set ns.c = ns %}USE",
    ]
    call_uses = ["{{ ns.c() }}", "{{ ns.c(1) }}", "{{ ns.c(1, 2, 3) }}", "{{ ns.c(a=1) }}", "{{ ns.c(*[1, 2]) }}", "{{ ns.c(**{'a': 1}) }}", "{{ ns.c }}", "{{ ns.c|string }}", "{{ ns.c|tojson }}", "{{ ns.c.name }}{{ ns.c.arguments }}{{ ns.c.caller }}",
                 "{{ [1, 2]|map(ns.c)|list }}", "{% call ns.c() %}x{% endcall %}", "{% for q in [1, 2] %}{{ ns.c(q) }}{{ loop.index }}{% endfor %}", "{{ ns.c is callable }}{{ ns.c == ns.c }}{{ ns.v }}{{ ns.k }}"]
    extra = {"templates": {"base": "[{% block b %}base{% endblock %}]", "mod": "{% set v = 1 %}{% macro f(a) %}{{ a }}{{ v }}{{ caller is defined }}{% endmacro %}"}}
    for o in others:
        if "USE" in o:
            for u in call_uses:
                out.append((pre + o.replace("USE", u), extra))
        else:
            out.append((o, extra))
    return out


FMT_CHARS = ["\u00e9", "\u20ac", "\U0001d11e", "a\u0301", "\u00a0", "\ufeff", "\u2028", "\u00df", "\u0130", "\ud7ff"]


def format_text_family():
    """non-ASCII / multi-byte text at every position of a format string: mapping keys, literal text, after %, between flags,
    width, precision and conversion, unclosed keys; printf style through the `format` filter, printf and str.format style
    through minijinja::formatting::format called directly (entries: (template, extra) or ("", extra with format_only))"""
    out, direct = [], []
    for c in FMT_CHARS:
        pr = ["%(@)s", "%(a@b)s", "%(@", "%(@)", "%(@)@", "@%s@", "%@s", "%5@", "%.@f", "%s@", "%@", "%-@d", "%%@%", "%l@", "%5.3@", "%(k)s@%(k)s", "%0@5d", "%+@", "%#@x", "%(@)5.2f",
              "@", "@%", "%(@@)r", "%c@", "@%c"]
        for f in pr:
            fs = f.replace("@", c)
            lit = fs.replace("\\", "\\\\").replace("'", "\\'")
            out.append("{{ '%s'|format({'%s': 1, 'k': '%s', 'a%sb': 2}) }}" % (lit, c, c, c))
            out.append("{{ '%s'|format('%s', 1.5) }}" % (lit, c))
            out.append("{{ '%s'|safe|format('%s') }}" % (lit, c))
            direct.append(("", {"format_only": fs, "style": "printf", "args": [{c: 1, "k": c, "a%sb" % c: 2}]}))
            direct.append(("", {"format_only": fs, "style": "printf", "args": [c, 1.5]}))
        st = ["{@}", "{a[@]}", "{a[@}", "{a[@]", "{0[@]}", "{a.@}", "{@.a}", "{:@<5}", "{:@>5}", "{:@^5d}", "{:@}", "{:5@}", "{:.@f}", "{:<@}", "{!@}", "{a!r:@}", "@{}@", "{{@}}", "{@", "}@", "{:@=+5}", "{:,@}", "{:_@}",
              "{:5.3@}", "{a[@][@]}", "{:@@<5}"]
        for f in st:
            fs = f.replace("@", c)
            for args in ([{"a": {c: 1}}], [c, 1.5], [[c], {"a": [1]}], [1, {c: c}]):
                direct.append(("", {"format_only": fs, "style": "str", "args": args}))
    return out, direct


def format_cap(repo):
    """MAX_FORMAT_NUMBER of formatting.rs, evaluated; raises when it cannot be read (the cap-aware family would probe nothing)"""
    src = open(os.path.join(repo, "minijinja/src/formatting.rs")).read()
    m = re.search(r"const\s+MAX_FORMAT_NUMBER\s*:\s*usize\s*=\s*([^;]+);", src)
    if not m:
        raise RuntimeError("formatting.rs has no MAX_FORMAT_NUMBER: the cap-aware format family cannot find the cap")
    e = m.group(1)
    for k, v in (("i16::MAX", "32767"), ("u16::MAX", "65535"), ("i32::MAX", "2147483647"), ("u32::MAX", "4294967295"), ("as usize", ""), ("_", "")):
        e = e.replace(k, v)
    if not re.fullmatch(r"[0-9+\-*/() ]+", e):
        raise RuntimeError("cannot evaluate MAX_FORMAT_NUMBER = %s" % m.group(1))
    return int(eval(e.replace("/", "//")))


def format_cap_family(repo):
    """widths and precisions AT the cap of the code (read from formatting.rs on every run): cap-3 .. cap+1, 32766..32768,
    65533..65536 x every conversion x floats with exponents -324..308 (subnormal, 1e-5, 0.001, 0.5, 1e15, 1e300, inf, nan,
    -0.0) and integers of every width; printf style through the filter, str.format style directly"""
    cap = format_cap(repo)
    nums = sorted({cap - 3, cap - 2, cap - 1, cap, cap + 1, 32766, 32767, 32768, 65533, 65534, 65535, 65536})
    floats = ["5e-324", "1e-320", "2.2250738585072014e-308", "1e-300", "1e-100", "1e-5", "0.0001", "0.00012345", "0.001", "0.009", "0.5", "1.5", "123456.789", "1e15", "1e16", "1e100", "1e300",
              "1.7976931348623157e308", "(1e308 * 10)", "((1e308 * 10) - (1e308 * 10))", "-0.0", "-0.001"]
    ints = ["0", "1", "-1", "255", "65535", "2147483647", "9223372036854775807", "18446744073709551615", "170141183460469231731687303715884105727", "340282366920938463463374607431768211455", "true", "'ab'", "none"]
    out, direct = [], []
    for n in nums:
        for cv in ["e", "E", "f", "F", "g", "G", "s", "r", "d", "x", "c", "o", "i", "a"]:
            for a in floats + (ints if cv not in ("e", "E", "F", "G") else ints[:3]):
                out.append("{{ '%%.%d%s'|format(%s)|length }}" % (n, cv, a))
                if cv in ("g", "G", "s", "e", "f", "d"):
                    out.append("{{ '%%%d.%d%s'|format(%s)|length }}" % (n, n, cv, a))
                    out.append("{{ '%%0%d.%d%s'|format(%s)|length }}" % (3, n - 1, cv, a))
                    out.append("{{ '%%#-%d%s'|format(%s)|length }}" % (n, cv, a))
        jf = [5e-324, 1e-320, 1e-300, 1e-5, 0.0001, 0.00012345, 0.001, 0.009, 0.5, 1.5, 123456.789, 1e15, 1e16, 1e300, -0.0, -0.001]
        ji = [0, 1, -1, 255, 2 ** 63 - 1, 2 ** 64 - 1, True, "ab", None]
        for spec in ["{:.%d}", "{:.%dg}", "{:.%dG}", "{:.%de}", "{:.%df}", "{:.%d%%}", "{:%d.%d}", "{:#.%dg}", "{:0%d.%dg}", "{:,.%df}", "{:%d}", "{:>%d}", "{:*^%d}", "{:+.%de}", "{:.%ds}", "{:%dd}", "{:%dx}", "{:#%db}", "{:.%dn}"]:
            fs = spec.replace("%%", "\0").replace("%d", str(n)).replace("\0", "%")
            for a in jf + ji:
                direct.append(("", {"format_only": fs, "style": "str", "args": [a]}))
    return out, direct


def numeric_args_family(repo):
    """every test and filter with numeric arguments x {0, -1, MIN, MAX, floats} on numeric subjects"""
    filters, tests, funcs = builtin_names(repo)
    subj = ["0", "5", "-5", "1.5", "-0.0", "9223372036854775807", "(-9223372036854775807 - 1)", "18446744073709551615", "170141183460469231731687303715884105727",
            "(-170141183460469231731687303715884105727 - 1)", "340282366920938463463374607431768211455", "(1e308 * 10)", "((1e308 * 10) - (1e308 * 10))", "true", "'5'"]
    args = ["0", "-1", "1", "2", "0.0", "-0.0", "0.5", "-1.5", "9223372036854775807", "(-9223372036854775807 - 1)", "18446744073709551615", "(-170141183460469231731687303715884105727 - 1)",
            "340282366920938463463374607431768211455", "(1e308 * 10)", "((1e308 * 10) - (1e308 * 10))", "1e-320", "false", "none"]
    out = []
    for x in subj:
        for a in args:
            for t in tests:
                out.append("{{ %s is %s(%s) }}" % (x, t, a))
            for f in filters:
                out.append("{{ %s|%s(%s) }}" % (x, f, a))
            for op in ("%", "//", "/", "**", "*", "-", "+"):
                out.append("{{ %s %s %s }}" % (x, op, a))
    return out


def misplaced_calls_family():
    """super() / self.x() / loop() / caller() / varargs at the top level, in macros, blocks, loops, call blocks and set
    statements of INCLUDED, IMPORTED and EXTENDED templates, used from the top level / a block / an overriding block of a
    child / a macro / a loop / a call block / a set block of the including template: every combination of where the use
    sits x where the special call sits; an error or output is fine, a panic is not"""
    calls = ["super()", "self.body()", "self.nosuch()", "self.other()", "loop(1)", "loop.index", "caller()", "caller(1)", "varargs", "self", "super", "loop"]
    places = {"top": "T:{{ C }}", "set": "{% set z = C %}{{ z }}", "macro": "{% macro m() %}m:{{ C }}{% endmacro %}{{ m() }}", "block": "{% block other %}o:{{ C }}{% endblock %}",
              "sameblock": "{% block body %}b:{{ C }}{% endblock %}", "loop": "{% for q in [1] %}{{ C }}{% endfor %}", "callblock": "{% macro cm() %}{{ caller() }}{% endmacro %}{% call cm() %}{{ C }}{% endcall %}",
              "if": "{% if true %}{{ C }}{% endif %}{% filter upper %}{{ C }}{% endfilter %}", "macroarg": "{% macro m(a=C) %}{{ a }}{% endmacro %}{{ m() }}{{ m(C) }}"}
    uses = {"include": "{% include 'tgt' %}", "includelist": "{% include ['nope', 'tgt'] ignore missing %}", "import": "{% import 'tgt' as t %}{{ t.m() }}{{ t }}", "from": "{% from 'tgt' import m %}{{ m() }}",
            "importcall": "{% import 'tgt' as t %}{% call t.m() %}x{% endcall %}"}
    sites = {"top": "USE", "block": "{% block body %}[USE]{% endblock %}", "override": "{% extends 'base' %}{% block body %}{{ super() }}[USE]{% endblock %}",
             "override2": "{% extends 'mid' %}{% block body %}{{ super() }}[USE]{% endblock %}", "macro": "{% macro w() %}USE{% endmacro %}{{ w() }}", "loop": "{% for i in [1, 2] %}USE{% endfor %}",
             "recloop": "{% for i in [[1]] recursive %}USE{% endfor %}", "callblock": "{% macro c() %}{{ caller() }}{% endmacro %}{% call c() %}USE{% endcall %}", "setblock": "{% set s %}USE{% endset %}{{ s }}",
             "blockinloop": "{% for i in [1] %}{% block body %}USE{% endblock %}{% endfor %}", "setsuper": "{% block body %}{% set x %}USE{% endset %}{{ x }}{% endblock %}",
             "blockmacro": "{% block body %}{% macro w() %}USE{% endmacro %}{{ w() }}{% endblock %}"}
    out = []
    base = {"base": "<{% block body %}base{% endblock %}{% block other %}bo{% endblock %}>", "mid": "{% extends 'base' %}{% block body %}mid{{ super() }}{% endblock %}"}
    for c in calls:
        for pn, pl in places.items():
            tgt = pl.replace("C", c)
            tpls = dict(base)
            tpls["tgt"] = tgt
            for un, u in uses.items():
                for sn, st in sites.items():
                    out.append((st.replace("USE", u), {"templates": tpls}))
            # the target as a parent, as a child of base, and as a parent whose child includes it again
            out.append(("{% extends 'tgt' %}{% block body %}c{{ super() }}{% endblock %}{% block other %}d{{ super() }}{% endblock %}", {"templates": tpls}))
            out.append(("{% include 'child' %}", {"templates": dict(tpls, child="{% extends 'base' %}{% block body %}" + tgt.replace("{% block body %}", "{% block inner %}") + "{% endblock %}")}))
            out.append(("{% extends 'tgt' %}{% block body %}{% include 'tgt' %}{% endblock %}", {"templates": tpls}))
    return out


def seed_regression_family():
    """the shortest replay class of every crash class this check has ever reported or been shown (fixed defects and
    recorded seeded changes): deterministic, never sampled, run FIRST in the quick tier without a budget"""
    out = []
    # bad escapes incl. surrogate pairs (high-high, low-high, lone, at the ends, in includes / map keys / set)
    sur = ["\\ud800\\ud800", "\\ud83d\\ud83d", "\\udc00\\ud800", "\\udca9\\ud83d", "\\udbff\\udbff", "\\udc00\\udc00", "\\ud800", "\\udfff", "\\ud83d\\udca9", "\\ud800\\udc00", "\\udbff\\udfff", "\\ud800a",
           "a\\udc00", "\\ud800\\u0041", "\\ud800\\ud800\\udc00", "\\u", "\\u12", "\\uZZZZ", "\\x", "\\xZ1", "\\U0001F4A9", "\\udbff\\ue000", "\\ud7ff\\udc00", "\\", "\\q", "\\ud800\\"]
    for e in sur:
        out += ["{{ '%s' }}" % e, "{{ \"%s\" }}" % e, "{%% set x = '%s' %%}{{ x|length }}" % e, "{%% include '%s' %%}" % e, "{{ {\"k\": \"%s\"} }}" % e, "{{ '%s'|upper ~ '%s' }}" % (e, e)]
    # growth loops: chain / + / ~ / nesting through a namespace, then length, sum, index, iteration, printing, drop
    for n in (3000, 6000, 12000):
        for step in ("ns.items|chain([i])", "ns.items + [i]", "ns.items|chain([i], [i])"):
            if n > 3000 and step != "ns.items|chain([i])":
                continue  # the other forms copy what they have so far: quadratic, legal, slow
            pre = "{%% set ns = namespace(items=[]) %%}{%% for i in range(%d) %%}{%% set ns.items = %s %%}{%% endfor %%}" % (n, step)
            out += [pre + "{{ ns.items|length }} {{ ns.items|sum }} {{ ns.items[%d] }}" % (n // 2), pre + "{% for x in ns.items %}{% endfor %}{{ ns.items|last }}", pre + "{{ ns.items|list|length }}{{ ns.items|string|length }}"]
    # slices (A), whitespace control before non-ASCII blanks (B), loop controls in call blocks (A3), escaped loop objects (B3),
    # cyclic hashing (B4), block cursor (A5), format caps (B5), break + for-else (A6), include + super (B6), folding (A7), indent (B7)
    out += ["{{ 'abc'[5::-1] }}", "{{ [][0::-1] }}", "{{ (range(10)|list)[10::-1] }}", "{{ (1,2,3)[3::-1] }}", "{{ range(4)[4::-1] }}", "{{ x.a[x.a|length::-2] }}",
            "{{ m -}}\u00a0a", "{% if m -%}\u00a0a{% endif %}", "{#- c -#}\u3000a", "{{ m -}}\u0085a", "{{ m -}} \u2003\u2003a", "{% for i in [1, 2] -%}\r\n\u00a0 {{ i }}{% endfor %}",
            "{% macro wrap() %}[{{ caller() }}]{% endmacro %}{% for q in [1,2,3] %}{% call wrap() %}{{ q }}{% if q == 2 %}{% break %}{% endif %}{% endcall %}{% endfor %}",
            "{% macro wrap() %}[{{ caller() }}]{% endmacro %}{% for q in [1,2,3] %}{% call wrap() %}{% continue %}{% endcall %}{% endfor %}",
            "{% set ns = namespace() %}{% for q in [1,2,3] %}{% set ns.l = loop %}{% endfor %}{{ ns.l.revindex0 }}|{{ ns.l.revindex }}|{{ ns.l.last }}|{{ ns.l.length }}",
            "{% set ns = namespace() %}{% set ns.me = ns %}{{ ns }}{{ {ns: 1}|length }}{{ ns in {'a': 1, 'b': 2} }}{{ {'a': 1, 'b': 2}[ns] }}{{ [ns, ns]|unique|list|length }}{{ ns|tojson }}",
            "{{ '%.65534g'|format(0.001)|length }}", "{{ '%.65533G'|format(0.00012345)|length }}", "{{ '%.32767g'|format(0.001)|length }}", "{{ '%.32766e'|format(1.5)|length }}", "{{ '%99999999999999d'|format(1) }}", "{{ '%(\u00e9)s'|format({'\u00e9': 1}) }}",
            "{% for q in [1,2,3] %}{{ q }}{% if q == 2 %}{% break %}{% endif %}{% else %}empty{% endfor %}", "{% for q in [] %}{{ q }}{% break %}{% else %}empty{% endfor %}",
            "{% for y in [1,2] %}{% set v %}{% for q in [1,2] %}{{ q }}{% break %}{% else %}-{% endfor %}{% endset %}[{{ v }}]{% endfor %}",
            "{{ -(-9223372036854775808) }}", "{{ - -9223372036854775808 }}", "{{ -(-9223372036854775807 - 1) }}", "{% if -(-9223372036854775808) > 0 %}yes{% endif %}", "{{ [1, 2, 3][:-(-9223372036854775808)] }}",
            "{% set q = -9223372036854775808 %}{{ -q }}", "{{ ''|indent(18446744073709551615) }}", "{{ u|indent(width=18446744073709551615) }}", "{{ '\n'|indent(9223372036854775808, true) }}",
            "{{ '\r\n'|indent(9223372036854775808, blank=true) }}", "{% set q %}{% endset %}{{ q|indent(18446744073709551615) }}", "{{ 'x'|indent(18446744073709551615) }}",
            "{{ 5 is divisibleby(0) }}", "{{ 2|chain(2)|min }}", "{% for i in [1,2] %}{{ loop.cycle() }}{% endfor %}", "{{ [1,2,3] * 9223372036854775807 }}", "{{ range(9223372036854775807, -1, -1) }}",
            "{{ 'abc'|slice(4611686018427387904) }}", "{{ [1,2,3]|batch(4611686018427387904, 0) }}", "{{ {'a':1}|tojson(9223372036854775807) }}", "{% import 'other.txt' as -b %}"]
    multi = [("{% extends 'parent' %}{% set ns = namespace(seen=false) %}{% block body %}{% if ns.seen %}{{ [1, 2, 3]|batch(0) }}{% else %}{% set ns.seen = true %}[{{ super() }}]{% endif %}{% endblock %}",
              {"templates": {"parent": "{% block body %}<{{ self.body() }}>{% endblock %}"}}),
             ("{% block body %}[{% include 'inc' %}]{% endblock %}", {"templates": {"inc": "inc:{{ super() }}"}}),
             ("{% extends 'b' %}{% block body %}{% set z = super() %}{% include 'inc' %}{% endblock %}", {"templates": {"inc": "{% set y = super() %}{{ y }}", "b": "{% block body %}b{% endblock %}"}})]
    # nesting heights that add up over finished chains (A2)
    e = "x"
    for _ in range(8):
        e = "(" + e + ")" + "".join(op * 400 for op in [".a", " ** 1", " * 1", " ~ 1", " + 1", " and 1", " or 1", " if 1"])
    out.append("{{ " + e + " }}")
    return out + multi


def load_factor():
    """>= 1: how much longer things take because the machine is busy (load average per core); watchdogs and time budgets scale with it"""
    try:
        return max(1.0, os.getloadavg()[0] / max(1, os.cpu_count() or 1))
    except OSError:
        return 1.0


def mutated_fixtures(repo, rng, n):
    srcs = []
    for f in sorted(glob.glob(os.path.join(repo, "minijinja/tests/inputs/*.txt")) + glob.glob(os.path.join(repo, "minijinja/tests/parser-inputs/*.txt"))
                    + glob.glob(os.path.join(repo, "minijinja/tests/lexer-inputs/*.txt")) + glob.glob(os.path.join(repo, "fuzz/seeds/*"))):
        try:
            t = open(f, encoding="utf8", errors="replace").read()
        except Exception:
            continue
        parts = t.split("\n---\n", 1)
        srcs.append(parts[1] if len(parts) == 2 else t)
    toks = ["{{", "}}", "{%", "%}", "{#", "#}", "-%}", "{%-", "|", "(", ")", "[", "]", "'", '"', "\\", "\n", "\r", "€", "\x00", " if ", " else ", " for ", " in ",
            "endfor", "endif", "block", "macro", "call", "set", "9223372036854775808", "**", "//", "~", "loop", "super()", "raw", "endraw", "퟿", "\U0001d11e",
            "-%}", "-}}", "-#}", "{{-", "{#-", "+%}", "{%+", "-%}\xa0", "-}}\u3000", "-#}\u2003", "\xa0{%-", "[::-1]", "[5::-1]", "[:-9223372036854775808:-1]"] + WS + ODDTEXT
    out = []
    if not srcs:
        return out
    for _ in range(n):
        s = srcs[rng.below(len(srcs))]
        for _ in range(1 + rng.below(4)):
            k = rng.below(4)
            p = rng.below(len(s) + 1)
            if k == 0 and s:
                q = min(len(s), p + 1 + rng.below(8))
                s = s[:p] + s[q:]
            elif k == 1:
                s = s[:p] + toks[rng.below(len(toks))] + s[p:]
            elif k == 2 and s:
                q = rng.below(len(s) + 1)
                a, b = min(p, q), max(p, q)
                s = s[:a] + s[a:b] * 2 + s[b:]
            else:
                s = s[:p] + chr(rng.choice([0, 9, 10, 13, 32, 123, 125, 37, 35, 45, 43, 8364, 65533, 0x85, 0xa0, 0x2003, 0x2028, 0x3000, 0xfeff, 0x301, 0x1d11e])) + s[p:]
        out.append(s)
    return out


# ---------------------------------------------------------------------------------------------
# parallel runner (vlib.run_json is sequential): contiguous chunks, one child process per chunk (restarted
# after the request it died on), results in request order
# ---------------------------------------------------------------------------------------------
def answered(r):
    """the request came back with a value or an error value"""
    if not isinstance(r, dict):
        return False
    rr = r.get("render", r.get("fuel_levels", r))
    return isinstance(rr, dict) and ("ok" in rr or "err" in rr) or "parse" in r or "parse_ok" in r


class Budget:
    """stops a pass early: after `max_bad` requests that did not come back with a value (each costs a process restart, a
    hang a whole watchdog period) or after `seconds`; what was not run is reported as skipped, never as passed"""

    def __init__(self, seconds=None, max_bad=None):
        self.seconds, self.max_bad, self.bad, self.t0, self.lock = seconds, max_bad, 0, time.time(), threading.Lock()

    def note(self, results):
        with self.lock:
            # a caught panic costs nothing (the child goes on), a dead or hanging child does
            self.bad += sum(1 for r in results if not answered(r) and not (isinstance(r, dict) and "panic" in r))

    def spent(self):
        return (self.max_bad is not None and self.bad >= self.max_bad) or (self.seconds is not None and time.time() - self.t0 >= self.seconds)


def _run_chunk(cmd, reqs, env, budget=None):
    results = []
    i, n = 0, len(reqs)
    while i < n:
        if budget is not None and budget.spent():
            results.extend([None] * (n - i))  # skipped
            break
        inp = "\n".join(json.dumps(r) for r in reqs[i:]) + "\n"
        rc, o, e = sh(cmd, inp=inp, timeout=1800, env=env)
        got = []
        for l in [l for l in o.split("\n") if l.strip()][: n - i]:
            try:
                got.append(json.loads(l))
            except Exception:
                got.append({"garbled": l[:200]})
        i += len(got)
        if not (got and isinstance(got[-1], dict) and got[-1].get("hang")) and i < n:
            e = e or ""
            got.append({"crash": rc, "stderr": e[:300] + (" ... " + e[-300:] if len(e) > 300 else "")})
            i += 1
        results.extend(got)
        if budget is not None:
            budget.note(got)
    return results


def run_parallel(binname, reqs, rel, workers, chunk, memlimit=True, vlimit_kb=8000000, watchdog_ms=None, budget=None, alt=False):
    """results in request order; None = not run because the budget of the pass was spent"""
    env = dict(ENV)
    env["MJVERIF_WATCHDOG_MS"] = str(watchdog_ms or WATCHDOG_MS)
    cmd = ["bash", "-c", ("ulimit -v %d; " % vlimit_kb if memlimit else "") + "exec " + (alt_bin if alt else bin_path)(binname, rel)]
    chunks = [reqs[i:i + chunk] for i in range(0, len(reqs), chunk)]
    with concurrent.futures.ThreadPoolExecutor(max_workers=workers) as ex:
        parts = list(ex.map(lambda c: _run_chunk(cmd, c, env, budget), chunks))
    return [r for p in parts for r in p]


# second feature set: the code paths the default harness build does not compile (IndexMap maps that HASH their keys,
# unicode identifiers, the v_htmlescape speedup, the optional filters of minijinja-contrib); own cargo target directory
ALT_FEATURES = ["preserve_order", "minijinja/unicode", "minijinja/speedups", "minijinja-contrib/wordcount", "minijinja-contrib/wordwrap", "minijinja-contrib/unicode_wordwrap",
                "minijinja-contrib/rand", "minijinja-contrib/html_entities", "minijinja-contrib/datetime", "minijinja-contrib/pycompat"]


def alt_target_dir():
    import vlib as _v
    return os.path.join(CACHE, "target-c01x" + _v._TAG)


def alt_bin(name, release):
    return os.path.join(alt_target_dir(), "release" if release else "debug", name)


def cargo_build_alt(bins, release):
    h = harness_dir()
    env = dict(ENV)
    env["CARGO_TARGET_DIR"] = alt_target_dir()
    with Lock("cargo" + os.path.basename(alt_target_dir())):
        lock_dst = os.path.join(h, "Cargo.lock")
        if not os.path.exists(lock_dst):
            sh(["cp", os.path.join(REPO, "Cargo.lock"), lock_dst])
        cmd = ["cargo", "build", "--offline", "--quiet", "--features", ",".join(ALT_FEATURES)] + (["--release"] if release else [])
        for b in bins:
            cmd += ["--bin", b]
        rc, o, e = sh(cmd, cwd=h, timeout=3000, env=env)
        return rc == 0, o + e


def crash_kind(r):
    if not isinstance(r, dict):
        return "abort"
    if "panic" in r:
        return "panic"
    if r.get("hang"):
        return "hang"
    err = r.get("stderr", "")
    if "stack overflow" in err or "overflowed its stack" in err:
        return "stack"
    if "memory allocation of" in err:
        return "alloc"
    return "abort"


def known_matches(entry, template, profile, kind):
    m = entry.get("match", {})
    if "regex" not in m or not re.search(m["regex"], template, re.S):
        return False
    if m.get("profile", "any") not in ("any", profile.split("+")[0]):
        return False
    kinds = m.get("kind", "any").split("|")
    if "abort" in kinds:
        kinds += ["stack", "alloc"]  # ways a process dies
    return "any" in kinds or kind in kinds


# ---------------------------------------------------------------------------------------------
# range(): implementation (functions::range called directly, debug + release) vs extracted Coq model vs
# the Python oracle of RangeSpec.v, on boundary and seeded isize arguments
# ---------------------------------------------------------------------------------------------
def range_cases(chk):
    I = 2 ** 63
    pool = [0, 1, -1, 2, -2, 3, -3, 7, 10, -10, 99999, 100000, 100001, -99999, -100000, -100001, 2 ** 31, -2 ** 31, 2 ** 62, -2 ** 62, 2 ** 62 + 1,
            I - 1, I - 2, -(I - 1), -I, -I + 2, I - 100001, -I + 100000]
    cases = []
    for lo in pool:
        cases.append([lo, 0, 0, 0, 0])
        for up in pool:
            cases.append([lo, 1, up, 0, 0])
            for st in pool:
                cases.append([lo, 1, up, 1, st])
    rng = chk.rng
    for _ in range(60000 if chk.thorough else 6000):
        lo = rng.choice(pool) + rng.below(7) - 3 if rng.chance(1, 2) else rng.below(2 * I) - I
        k = rng.below(4)
        delta = [rng.below(50), rng.below(200001), rng.below(2 * I), rng.below(2 ** 40)][k] * (1 if rng.chance(1, 2) else -1)
        st = [rng.below(9) - 4, rng.choice(pool), rng.below(2 * I) - I, (rng.below(2 ** 33) + 1) * (1 if rng.chance(1, 2) else -1)][rng.below(4)]
        up = lo + delta
        # a step that makes the length small enough to be accepted now and then
        if rng.chance(1, 2) and delta != 0:
            st = delta // (rng.below(1000) + 1) or st
        clamp = lambda z: max(-I, min(I - 1, z))
        cases.append([clamp(lo), 1, clamp(up), 1 if rng.chance(5, 6) else 0, clamp(st)])
    return cases


def range_correspondence(chk):
    okm, mlog = build_models("C01")
    okc = cargo_build(["c01_range"], release=False)[0] and cargo_build(["c01_range"], release=True)[0]
    if not (okm and okc):
        chk.violation("C01 range model / harness does not build", {"theorem_or_correspondence": "build C01/Runner.v, harness/src/bin/c01_range.rs", "log": mlog[-1200:]}, True)
        return {"cases": 0}
    cases = range_cases(chk)
    r = corr(chk, "run", "c01_range", "range", cases)
    spec = run_model("C01", "range-spec", cases)
    old = run_model("C01", "range-old", cases)
    describe = lambda c: "{{ range(%s)|list }}" % ", ".join(str(x) for x in ([c[0]] + ([c[2]] if c[1] else []) + ([c[4]] if c[3] else [])))
    bad = []
    for i, c in enumerate(cases):
        for rel in (False, True):
            if r["impl"][rel][i] != spec[i]:
                bad.append((i, "release" if rel else "debug", r["impl"][rel][i]))
    for i, prof, out in bad[:3]:
        chk.violation("range() differs from Python's range / crashes", {"template": describe(cases[i]), "case": cases[i], "profile": prof, "observed": out, "expected": spec[i]})
    model_vs_spec = [i for i in range(len(cases)) if r["model"][i] != spec[i]]
    if not bad and (r["mismatches"] or model_vs_spec or not r.get("kernel_ok", False)):
        i = (r["mismatches"][0][0] if r["mismatches"] else (model_vs_spec[0] if model_vs_spec else 0))
        chk.violation("C01 range model and code disagree", {"theorem_or_correspondence": "range_python / correspondence c01_range", "case": cases[i], "model": r["model"][i], "spec": spec[i],
                                                            "impl_debug": r["impl"][False][i], "kernel_ok": r.get("kernel_ok")}, True)
    accepted = sum(1 for o in spec if o and o[0] == 0 and o[1] > 0)
    return {"cases": len(cases), "impl_vs_model": len(r["mismatches"]), "model_vs_spec": len(model_vs_spec), "impl_vs_spec": len(bad), "non_empty_ranges": accepted,
            "errors": sum(1 for o in spec if o and o[0] == 1), "old_code_would_trap": sum(1 for o in old if o == [2]),
            "kernel_crosscheck": {"cases": r.get("kernel_checked", 0), "agree": r.get("kernel_ok", False)}, "sample": [describe(cases[i]) for i in (5, len(cases) // 2, len(cases) - 1)]}


# ---------------------------------------------------------------------------------------------
def stack_meter(chk, nest, limit):
    """(a) bytes of native stack at the limits (debug and release); informational - an accepted template that
    needs more than the 2 MiB budget is what the crash monitor reports as a stack overflow;
    (b) height of the real AST (nodes on the longest path, measured on the serialized tree) of every accepted
    template of the nesting generators: must not exceed the bound of theorem parser_height_bounded plus the
    root node and one unguarded statement-level node (`a, b` of a set, the target list of a for)."""
    shapes = []
    for name, g in NESTS[:30]:
        for n in (74, 149):
            shapes.append(("nest:%s:%d" % (name, n), g(n)))
    for name, g in CHAINS:
        shapes.append(("chain:%s:%d" % (name, 498), g(498)))
    out = {}
    for rel in (False, True):
        res = run_parallel("c01", [{"template": t, "ctx": CTX, "stack_kib": 16384} for _, t in shapes], rel, workers=14, chunk=4, memlimit=False)
        worst = {}
        for (label, _), r in zip(shapes, res):
            if not isinstance(r, dict) or "parse" not in r:
                continue
            accepted = bool(r.get("load_ok"))
            for phase in ("parse", "compile", "drop_ast", "load", "undeclared", "render", "drop_env"):
                if phase in r and (accepted or phase == "parse"):
                    if r[phase] > worst.get(phase, (0, ""))[0]:
                        worst[phase] = (r[phase], label)
        out["release" if rel else "debug"] = {k: {"bytes": v[0], "template": v[1]} for k, v in worst.items()}
    sel = [(l, t) for l, t in nest if len(t) < 60000]
    res = run_parallel("c01", [{"template": t, "height_only": True, "stack_kib": 65536} for _, t in sel], True, workers=14, chunk=32, memlimit=False)
    heights = [(r["ast_height"], l, t) for (l, t), r in zip(sel, res) if isinstance(r, dict) and r.get("parse_ok") and "ast_height" in r]
    heights.sort(key=lambda x: (-x[0], x[1]))
    bound = limit + 3
    out["ast_height"] = {"templates": len(sel), "accepted": len(heights), "max": heights[0][0] if heights else 0, "max_template": heights[0][1] if heights else "",
                         "bound": bound, "lost": len(sel) - sum(1 for r in res if isinstance(r, dict) and "parse_ok" in r)}
    for h, l, t in heights[:2]:
        if h > bound:
            chk.violation("the parser accepted an expression that nests deeper than the nesting limit allows (model of the accounting and code disagree)",
                          {"theorem_or_correspondence": "parser_height_bounded vs measured AST height", "regenerate": l, "template_head": t[:300], "template_len": len(t), "ast_height": h, "bound": bound}, True)
    return out, len(shapes) * 2 + len(sel)


def main():
    chk = Check("C01", "other")
    chk.cov["trusted_base"] = TRUSTED_COMMON + [
        "tools/parser_graph.py (translator parser.rs -> GenParserGraph.v: functions by brace matching, calls of the form self.name( / Self::name(, guards = calls inside with_recursion_guard!(...), nesting loops = loop/while bodies that assign a new ast::Expr node to the variable they read (charged = the body calls self.nest())); recursion or nesting through any other syntax would escape it - the nesting generators are the safety net",
        "Print Assumptions: all C01 theorems closed under the global context"]
    chk.assumptions = ["PARTIAL by nature: theorems cover parser recursion (bounded nesting of calls), the nesting accounting of the parser (height of every accepted expression bounded by the nesting limit, on a model of the accounting), range length arithmetic, slice arithmetic/indexing (C09 model), scope/capture/operand stack underflow on accepted streams (C05 checker); how many bytes of native stack one level costs, native stack depth of other recursion (Value Display/Drop of deep data built at run time), allocation sizes, formatting.rs and third-party crates are only observed by the crash monitor",
                       "a hang (no answer within the 20 s watchdog) is reported like a crash: the monitor cannot tell an endless loop from slow work; legal but heavy work (arguments of 10^8 / 2^31 items) is only exercised one filter at a time, and a request that misses the watchdog is repeated alone with a longer one before it counts"]
    info = parser_graph.generate(REPO, os.path.join(COQ, "theories", "C01", "GenParserGraph.v"))
    proofs_ok = chk.run_proofs()
    okc, clog = cargo_build(["prog", "c01"], release=False)
    okr, clog2 = cargo_build(["prog", "c01"], release=True)
    if not (okc and okr):
        chk.violation("harness does not build against the current tree", {"theorem_or_correspondence": "build harness/src/bin/prog.rs", "log": (clog + clog2)[-1500:]}, True)
        chk.finish()
    alt_profiles = (False, True) if chk.thorough or chk.replay else (False,)  # quick: the debug build (all checks on) of the second feature set
    for rel in alt_profiles:
        oka, aloga = cargo_build_alt(["prog", "c01"], rel)
        if not oka:
            chk.violation("harness does not build against the current tree with the second feature set", {"theorem_or_correspondence": "build harness bins with " + ",".join(ALT_FEATURES), "log": aloga[-1500:]}, True)
            chk.finish()
    # ---- templates ----
    line_groups = []
    lowmem_groups = []
    if chk.replay:
        rp = json.load(open(chk.replay))["replay"]
        one = [(rp["template"], rp.get("request_extra") or {})] if "template" in rp else []
        if "regenerate" in rp:  # a template too long to store: label of the nesting generator
            one = [t for l, t in nesting_templates(True) if l == rp["regenerate"]]
        groups = [("replay", one)] if rp.get("bin", "prog") == "prog" else []
        line_groups = [("replay", one)] if rp.get("bin") == "c01" else []
        replay_alt = rp.get("features") == "second"
    else:
        inbox = []
        for f in sorted(glob.glob(os.path.join(CACHE, "crash-inbox", "*"))):
            try:
                inbox.append(json.load(open(f))["template"] if f.endswith(".json") else open(f, encoding="utf8", errors="replace").read())
            except Exception:
                pass
        nest = nesting_templates(chk.thorough)
        groups = [("inbox", inbox), ("sweep", sweep_templates(REPO, chk.rng, chk.thorough)), ("nesting", [t for _, t in nest]),
                  ("pipelines", pipeline_templates(REPO, chk.rng, 1200000 if chk.thorough else 12000)),
                  ("mutated", mutated_fixtures(REPO, chk.rng, 400000 if chk.thorough else 4000)),
                  ("slices", slice_family(chk.thorough)), ("lexer", lexer_family(chk.thorough)), ("arith", arith_family()), ("oddvalues", odd_values_family(REPO)),
                  ("multi", multi_template_family()), ("misplaced", misplaced_calls_family()),
                  ("loopcontrols", loop_control_family()), ("escaped", escaped_objects_family())]
        # nothing legitimate in these families needs gigabytes or seconds: a tight address-space limit and a short watchdog turn
        # what would be minutes of filling memory / pretty-printing an endless value on a tree without the bounds (14 shards
        # in parallel) into an immediate allocation failure / an early hang verdict
        lowmem_groups = [("widths", width_family()), ("cyclic", cyclic_family(REPO))]
        fmt_templates, fmt_direct = format_text_family()
        cap_templates, cap_direct = format_cap_family(REPO)
        groups += [("formattext", fmt_templates), ("formatcaps", cap_templates), ("numericargs", numeric_args_family(REPO))]
        line_groups = [("linesyntax", line_syntax_family()), ("formatdirect", fmt_direct), ("formatcapsdirect", cap_direct)]
        labels = {t: l for l, t in nest}
    if os.environ.get("C01_ONLY_REGRESSION") and not chk.replay:  # development switch: only the seed regression group
        groups, lowmem_groups, line_groups = [], [], []
    hist = collections.Counter()
    crashes = []
    crash_extra = {}
    total = 0
    distinct_ok = set()
    def entries(gs):
        return [(g, e, {}) if isinstance(e, str) else (g, e[0], e[1] or {}) for g, es in gs for e in es]

    def prog_req(i, t, extra):
        r = {"templates": {"main": t, "other.txt": "o"}, "main": "main", "ctx": CTX, "ops": ["render"], "debug": (i % 2 == 0)}
        for k, v in extra.items():
            if k == "templates":
                r["templates"].update(v)
            elif v is not None:
                r[k] = v
        return r

    def c01_req(i, t, extra):
        r = {"template": t, "ctx": CTX, "load_only": True, "stack_kib": 2048}
        r.update({k: v for k, v in extra.items() if v is not None})
        return r

    t_run = time.time()
    quick = not chk.thorough and not chk.replay
    if quick:
        # the strict families in the quick tier: a seeded slice (another seed, another slice); thorough runs all of them
        lowmem_groups = [(g, [e for k, e in enumerate(es) if k % 6 == chk.seed % 6]) for g, es in lowmem_groups]
    # pass: name, bin, groups, request maker, address-space limit (KiB), watchdog (ms), workers, chunk, budget per profile.
    # Budgets (quick tier only) keep the run short on a tree that has a crash class: each request that does not come back costs a
    # process restart, a hang a whole watchdog period; what a spent budget leaves out is counted as skipped.
    lf = load_factor()
    chk.notes["load_factor"] = round(lf, 2)
    wd_main = int(WATCHDOG_MS * min(lf, 4.0))
    regression = ("regression", "prog", [("seedregression", seed_regression_family())] if not chk.replay else [], prog_req, 8000000, wd_main, 14, 8, lambda: None)
    passes = [("main", "prog", groups, prog_req, 8000000, wd_main, 12 if quick else 14, 64, (lambda: Budget(max_bad=16)) if quick else (lambda: None)),
              ("line", "c01", line_groups, c01_req, 8000000, wd_main, 12 if quick else 14, 64, (lambda: Budget(max_bad=16)) if quick else (lambda: None))]
    done = []  # (binname, flat, order, reqs, rel, res, watchdog, alt)

    def run_pass(ps, alt=False):
        name, binname, gs, mk, vlimit, wd, workers, chunk, mkbudget = ps
        flat = entries(gs)
        # heavy requests (long templates) first so that the shards finish together
        order = sorted(range(len(flat)), key=lambda i: -(len(flat[i][1]) + sum(len(x) for x in flat[i][2].get("templates", {}).values())))
        reqs = [mk(i, flat[i][1], flat[i][2]) for i in order]
        for rel in (alt_profiles if alt else (False, True)):
            if reqs:
                res = run_parallel(binname, reqs, rel, workers=workers, chunk=chunk, vlimit_kb=vlimit, watchdog_ms=wd, budget=mkbudget(), alt=alt)
                done.append((binname, flat, order, reqs, rel, res, wd, alt))

    # the strict families run beside the others, one pass and one budget per family (a crash class in one of them must not
    # use up the budget of the other)
    wd_strict = int((2000 if quick else 5000) * min(lf, 4.0))
    strict = [("strict:" + g, "prog", [(g, es)], prog_req, 2000000, wd_strict, 4 if quick else 14, 4 if quick else 64,
               (lambda: Budget(seconds=10 * lf, max_bad=25)) if quick else (lambda: None)) for g, es in lowmem_groups]
    # second feature set: quick = the families whose code paths differ most (cyclic values: hashing; odd values; escaped objects; format
    # strings), thorough = everything again
    if chk.replay:
        alt_passes = []
    elif quick:
        full_cyclic = [("cyclic", cyclic_family(REPO))]
        pick = [(g, es) for g, es in groups if g in ("oddvalues", "escaped", "formattext", "multi", "misplaced", "numericargs")]
        # the optional minijinja-contrib features only exist in this build: their width / count / range boundaries
        nums = ["0", "1", "-1", "100000", "1000001", "253402207200", "253402300800", "1000000000000", "-1000000000000", "9223372036854775807", "-9223372036854775808", "18446744073709551615", "1e308", "-1e308"]
        contrib_group = []
        contrib_group.append(("contribfeatures", split_exprs([t.replace("N", n) for n in nums for t in (
            "{{ lipsum(N)|length }}", "{{ lipsum(1, min=N, max=N)|length }}", "{{ lipsum(n=2, min=1, max=N, html=true)|length }}", "{{ lipsum(1, min=N, max=1)|length }}", "{{ randrange(N) }}", "{{ randrange(N, 5) }}",
            "{{ randrange(-9223372036854775808, N) }}", "{{ N|dateformat }}", "{{ N|timeformat }}", "{{ N|datetimeformat }}", "{{ N|datetimeformat(format='iso') }}", "{{ [1, 2, 3]|random }}", "{{ 'abc def'|wordwrap(N) }}",
            "{{ 'abc def'|wordwrap(width=N, break_long_words=false) }}", "{{ 'abc def'|wordcount }}", "{{ 'abc def'|truncate(N) }}", "{{ N|filesizeformat }}", "{{ N|pluralize }}", "{{ '&#N;&amp;'|striptags }}", "{{ 'abc'.center(N)|length }}",
            "{{ 'abc'.ljust(N)|length }}", "{{ 'a,b'.split(',', N) }}", "{{ 'abc'.zfill(N)|length }}", "{{ '{:N}'.format(1)|length }}", "{{ '{:.Nf}'.format(1.5)|length }}", "{{ 'abc'.replace('b', 'c', N) }}", "{{ [1, 2].index(N) }}",
            "{{ 'abc'.find('b', N) }}", "{{ 'abc'.count('b', N, N) }}", "{{ {'a': 1}.get(N) }}", "{{ 'a\u00e9'.encode is defined }}", "{{ '\u00e9{a[\u00e9]}'.format(a={'\u00e9': 1}) }}")])))
        alt_passes = [("alt:regression", "prog", regression[2], prog_req, 8000000, wd_main, 14, 8, lambda: None),
                      ("alt:cyclic", "prog", full_cyclic, prog_req, 2000000, wd_strict, 4, 4, lambda: Budget(seconds=15 * lf, max_bad=25)),
                      ("alt:contrib", "prog", contrib_group, prog_req, 2000000, wd_strict, 4, 4, lambda: Budget(seconds=10 * lf, max_bad=25)),
                      ("alt:families", "prog", pick, prog_req, 8000000, WATCHDOG_MS, 12, 64, lambda: Budget(max_bad=16)),
                      ("alt:line", "c01", line_groups, c01_req, 8000000, WATCHDOG_MS, 12, 64, lambda: Budget(max_bad=16))]
    else:
        # everything again; of the two big random groups a quarter (they run in full under the default feature set)
        thin = lambda g: [(name, es[::4] if name in ("pipelines", "mutated") else es) for name, es in g]
        alt_passes = [(n.replace("strict", "alt-strict") if n.startswith("strict") else "alt:" + n, b, thin(g), m, v, w, wk, c, mb) for n, b, g, m, v, w, wk, c, mb in passes + strict]
    if chk.replay and replay_alt:
        run_pass(passes[0], alt=True)
        run_pass(passes[1], alt=True)
    else:
        run_pass(regression)  # first, alone, without a budget
        th = threading.Thread(target=lambda: [run_pass(ps) for ps in strict] + [run_pass(ps, alt=True) for ps in alt_passes if ps[4] == 2000000])
        th.start()
        run_pass(passes[0])
        run_pass(passes[1])
        for ps in alt_passes:
            if ps[4] != 2000000:
                run_pass(ps, alt=True)
        th.join()
    # a request that did not answer within the watchdog while the shards (and whatever else) load the machine gets a second
    # chance with twice the watchdog before it counts as a hang: at most 2 per pass and profile, all of them at once, now that
    # the machine is idle
    retry = [(d, k) for d in done for k in [k for k, r in enumerate(d[5]) if isinstance(r, dict) and r.get("hang")][:2]]

    def second_chance(dk):
        d, k = dk
        env2 = dict(ENV)
        env2["MJVERIF_WATCHDOG_MS"] = str(2 * d[6])
        r2 = _run_chunk(["bash", "-c", "ulimit -v 8000000; exec " + (alt_bin if d[7] else bin_path)(d[0], d[4])], [d[3][k]], env2)
        if r2 and not (isinstance(r2[0], dict) and r2[0].get("hang")):
            d[5][k] = r2[0]
            hist["answered_after_watchdog"] += 1

    if retry:
        with concurrent.futures.ThreadPoolExecutor(max_workers=len(retry)) as ex:
            list(ex.map(second_chance, retry))
    for binname, flat, order, reqs, rel, res, wd, alt in done:
        total += sum(1 for r in res if r is not None)
        for i, r in zip(order, res):
            gname, t, extra = flat[i]
            if r is None:
                hist[gname + "_skipped_budget_spent"] += 1
                continue
            rr = r.get("render", r.get("fuel_levels", r)) if isinstance(r, dict) else {}
            if not isinstance(rr, dict):
                rr = {}
            if "ok" in rr:
                hist[gname + "_ok"] += 1
                if not rel:
                    distinct_ok.add(t)
            elif "err" in rr:
                hist[gname + "_err_" + ERR_NAMES.get(rr["err"], str(rr["err"]))] += 1
            else:
                crashes.append((gname, t or json.dumps(extra, sort_keys=True), ("release" if rel else "debug") + ("+features" if alt else ""), crash_kind(r), json.dumps(r)[:700]))
                if extra or alt or binname != "prog":
                    crash_extra[(t or json.dumps(extra, sort_keys=True), gname)] = (extra, binname, alt)
    chk.notes["monitor_wall_s"] = round(time.time() - t_run, 1)
    meter = {}
    if not chk.replay:
        t_m = time.time()
        meter, n_meter = stack_meter(chk, nest, max(info["max_recursion"], info.get("max_nesting", 0)))
        total += n_meter
        chk.notes["meter_wall_s"] = round(time.time() - t_m, 1)
    if os.environ.get("C01_DUMP"):
        with open(os.environ["C01_DUMP"], "w") as f:
            for gname, t, prof, kind, detail in crashes:
                f.write(json.dumps([gname, (labels.get(t) if not chk.replay else None) or t[:300], prof, kind, detail[:400]]) + "\n")
    rc = {}
    if not chk.replay:
        t_r = time.time()
        rc = range_correspondence(chk)
        total += 2 * rc.get("cases", 0)
        chk.notes["range_wall_s"] = round(time.time() - t_r, 1)
        chk.cov["range_correspondence"] = rc
    # known findings: regex on the template + profile + kind of crash
    remaining = []
    for gname, t, prof, kind, detail in crashes:
        k = chk.match_known(lambda e: known_matches(e, t, prof, kind))
        if k:
            chk.known_finding(k["id"], k["what"])
            hist["known_" + k["id"] + "_" + prof] += 1
        else:
            remaining.append((gname, t, prof, kind, detail))
    chk.cov["explanation"] = ("Partial verification. Proved in Coq (see theorems): parser call nesting is bounded (call graph of %d functions / %d call edges, %d guarded, regenerated from parser.rs and checked by the verified checker: max rank %d, limit %d); every one of the %d parser loops that nest what they parsed one level deeper per iteration is charged against the nesting limit %d (loop table regenerated from parser.rs), and on the model of that accounting the height of every accepted expression is at most the limit; range length arithmetic stays inside i128 and yields isize elements; slices never panic; accepted instruction streams never underflow. "
                              "Observed (exploration): %d child-process renders (boundary sweep of every built-in filter/test/function/operator x argument pools incl. 2^62..2^128-1 counts, nesting generators: %d chain shapes and %d recursion shapes at depths 10..20000 around both limits plus products of the two, seeded random filter pipelines, mutated fixtures; boundary families of the other properties' input spaces: slices and subscripts of every container kind x start/stop/step around the length and at +-2^63, whitespace control of every tag kind x every Unicode White_Space / multi-byte / NUL / BOM text around it x whitespace settings, line statements and custom delimiters, arithmetic at the 2^53 / 2^63 / 2^64 / 2^127 / 2^128 / inf / nan boundaries, odd values through every filter and test, deep and cyclic extends / include / import chains, fuel and recursion limits at their boundaries, values that contain themselves through namespace attributes (directly, through a second namespace, list, map, tuple, lazy iterable) x every filter / test / operator / printing / serialization / comparison, printf-style format strings with width / precision / flags at the 2^15 / 2^16 / 2^31 / 2^32 / 2^63 / 2^64 / 10^14 boundaries x conversions x argument kinds and every other width- or count-taking filter, function and operator with the same numbers, break / continue inside every kind of body (call blocks, macros, filter / set / with blocks, inner loops) x enclosing loops x macros that invoke caller() never / once / twice / from their own loop, special objects (loop, caller, super, self, macros, modules, cycler / joiner) stored in a namespace and used after the construct that made them ended - every attribute and call), debug+release, 2 MiB threads, every error formatted in all forms; crashes seen: %d (known: %d). Stack meter (debug, bytes): %s."
                              % (info["functions"], info["edges"], info["guarded_edges"], info["max_rank"], info["max_recursion"], len(info.get("loops", [])), info.get("max_nesting", 0),
                                 total, len(CHAINS), len(NESTS), len(crashes), len(crashes) - len(remaining),
                                 ", ".join("%s %d" % (k, v["bytes"]) for k, v in sorted(meter.get("debug", {}).items()) if "bytes" in v) + "; tallest accepted AST of the generators: %s nodes (bound %s)" % (meter.get("ast_height", {}).get("max"), meter.get("ast_height", {}).get("bound"))))
    chk.cov["evaluations"] = total
    chk.cov["distinct_nontrivial"] = len(distinct_ok)
    chk.cov["rule"] = "non-trivial = distinct template that loads and renders successfully (the rest end in an error value, which is also an allowed outcome); see explanation for the generators"
    chk.cov["samples"] = [(lambda e: e if isinstance(e, str) else e[0])(g[1][len(g[1]) // 3])[:200] for g in groups + lowmem_groups + line_groups if g[1]]
    chk.cov["distribution"] = dict(hist)
    chk.cov["parser_graph"] = {k: info[k] for k in ("functions", "edges", "guarded_edges", "max_rank", "max_recursion", "unguarded_cycles", "max_nesting", "loops", "uncharged_loops") if k in info}
    chk.cov["stack_meter"] = meter
    seen = set()
    remaining.sort(key=lambda c: (len(c[1]), c[1], c[2]))  # the shortest crashing templates make the best replays
    for gname, t, prof, kind, detail in remaining:
        key = (gname, kind, t[:40])
        if key in seen or len(seen) >= 14 or sum(1 for k in seen if k[0] == gname) >= 3:
            continue  # a few (shortest) replays per generator so that one family does not crowd out another defect
        seen.add(key)
        rp = {"template": t, "template_len": len(t), "profile": prof, "observed": detail, "generator": gname}
        if (t, gname) in crash_extra:
            rp["request_extra"], rp["bin"], is_alt = crash_extra[(t, gname)]
            if is_alt:
                rp["features"] = "second"
            if "format_only" in rp["request_extra"]:
                rp["template"] = ""
        if len(t) > 20000 and not chk.replay and t in labels:
            rp = {"regenerate": labels[t], "template_head": t[:200], "template_len": len(t), "profile": prof, "observed": detail, "generator": gname}
        chk.violation("host process crash: " + kind, rp)
    if info["unguarded_cycles"]:
        chk.violation("the parser has a recursion cycle that does not pass the recursion guard", {"theorem_or_correspondence": "parser_graph_guarded", "cycles": info["unguarded_cycles"]}, True)
    if info.get("uncharged_loops"):
        chk.violation("the parser has a loop that nests expressions without charging the nesting limit", {"theorem_or_correspondence": "parser_loops_charged", "loops": info["uncharged_loops"]}, True)
    if not proofs_ok and not chk.violations:
        chk.violation("proof obligations of C01 do not check", {"theorem_or_correspondence": chk.proof["problems"]}, True)
    chk.finish()


if __name__ == "__main__":
    main()
