#!/usr/bin/env python3
"""C01 - loading and rendering a template never crashes the host process (DESIGN.md §3 C01; PARTIAL).

(a) Coq: parser recursion is bounded (call graph regenerated from parser.rs on every run and checked by
    a verified checker), slices never panic (C09 model), accepted instruction streams never underflow
    (C05 checker).
(b) crash monitor (exploration, not proof): boundary sweep of every built-in filter / test / function /
    operator, nesting generators around and far beyond the recursion limits, mutated fixtures; every
    request runs in a child process on a 2 MiB thread, debug and release; every returned error is
    formatted with {}, {:#}, {:?} and display_debug_info()."""
import os, sys, collections, glob, re
sys.path.insert(0, os.path.dirname(os.path.dirname(os.path.abspath(__file__))))
from vlib import *
import parser_graph

SMALL = ["0", "1", "-1", "2", "3", "7", "1.5", "-2.5", "''", "'abc'", "'a b,c'", "'<b>'", "[]", "[1,2,3]", "['b','a']",
         "[[1,2],[3,4]]", "{}", "{'a':1,'b':2}", "none", "true", "false", "u", "range(3)", "(1,2)"]
BIG = ["9223372036854775807", "-9223372036854775807", "9223372036854775808", "18446744073709551615", "4611686018427387904",
       "170141183460469231731687303715884105727", "340282366920938463463374607431768211455", "99999999999999", "100000001",
       "1e308", "-1e308", "1e-320", "-9223372036854775808", "2147483648"]
ALL = SMALL + BIG
X4 = ["'abc'", "[1,2,3]", "7", "u"]
X8 = X4 + ["{'a':1,'b':2}", "1.5", "none", "range(3)"]
R10 = ["0", "-1", "2", "'a'", "[]", "none", "true", "4611686018427387904", "9223372036854775807", "340282366920938463463374607431768211455"]
OPS = ["+", "-", "*", "/", "//", "%", "**", "~", "<", "==", "in", "and", "or"]


def builtin_names(repo):
    src = open(os.path.join(repo, "minijinja/src/defaults.rs")).read()
    names = re.findall(r'rv\.insert\(\s*"([A-Za-z_]+)"', src)
    fsrc = src.split("fn get_builtin_tests")[0] if "fn get_builtin_tests" in src else src
    filters = sorted(set(re.findall(r'rv\.insert\(\s*"([A-Za-z_]+)"', fsrc)))
    tsrc = src.split("fn get_builtin_tests")[1].split("fn get_globals")[0] if "fn get_builtin_tests" in src else ""
    tests = sorted(set(re.findall(r'rv\.insert\(\s*"([A-Za-z_]+)"', tsrc)))
    gsrc = src.split("fn get_globals")[1] if "fn get_globals" in src else ""
    funcs = sorted(set(re.findall(r'rv\.insert\(\s*"([A-Za-z_]+)"', gsrc)))
    contrib = ["pluralize", "filesizeformat", "truncate", "wordcount", "wordwrap", "striptags", "random", "datetimeformat"]
    return filters + contrib, tests, sorted(set(funcs + ["range", "dict", "namespace", "cycler", "joiner", "debug", "lipsum", "randrange"]))


def sweep_templates(repo, rng, thorough):
    filters, tests, funcs = builtin_names(repo)
    out = []
    for f in filters:
        for x in ALL:
            out.append("{{ %s|%s }}" % (x, f))
        for x in X8:
            for a in ALL:
                out.append("{{ %s|%s(%s) }}" % (x, f, a))
        for x in X4:
            for a in R10:
                for b in R10:
                    out.append("{{ %s|%s(%s, %s) }}" % (x, f, a, b))
        if thorough:
            for x in X4:
                for a in R10:
                    for b in R10:
                        for c in R10[:5]:
                            out.append("{{ %s|%s(%s, %s, %s) }}" % (x, f, a, b, c))
    for t in tests:
        for x in ALL:
            out.append("{{ %s is %s }}" % (x, t))
            for a in R10:
                out.append("{{ %s is %s(%s) }}" % (x, t, a))
    for f in funcs:
        out.append("{{ %s() }}" % f)
        for a in ALL:
            out.append("{{ %s(%s) }}" % (f, a))
            for b in R10:
                out.append("{{ %s(%s, %s) }}" % (f, a, b))
                for c in R10[:6]:
                    out.append("{{ %s(%s, %s, %s)|list|length }}" % (f, a, b, c))
    for a in ALL:
        for b in ALL:
            for op in OPS:
                out.append("{{ %s %s %s }}" % (a, op, b))
        out.append("{{ -%s }}" % a)
        out.append("{{ not %s }}" % a)
        out.append("{{ [1,2,3][%s] }}" % a)
        out.append("{{ 'abc'[%s:] }}{{ 'abc'[:%s] }}{{ 'abc'[::%s] }}" % (a, a, a))
        out.append("{%% for i in %s %%}{{ i }}{%% endfor %%}" % a)
        out.append("{%% for i, j in %s %%}{{ i }}{%% endfor %%}" % a)
        out.append("{%% for i in [1,2] %%}{{ loop.cycle(%s) }}{{ loop.changed(%s) }}{%% endfor %%}" % (a, a))
        out.append("{%% set ns = namespace(v=%s) %%}{%% set ns.w = %s %%}{{ ns.v }}{{ ns.w }}{{ ns }}" % (a, a))
        out.append("{%% autoescape %s %%}{{ '<' }}{%% endautoescape %%}" % a)
        out.append("{%% include %s %%}" % a)
        out.append("{%% extends %s %%}" % a)
        out.append("{%% import %s as m %%}{{ m }}" % a)
        out.append("{{ '%%s %%d'|format(%s, %s) }}" % (a, a))
        out.append("{{ '{:>' ~ %s ~ '}'|format(1) }}" % a)
    out += ["{% for i in [1,2] %}{{ loop.cycle() }}{% endfor %}", "{{ loop }}", "{{ super() }}", "{{ caller() }}", "{{ self.x() }}",
            "{% for i in [1] %}{{ loop(1) }}{% endfor %}", "{% for i in [[1]] recursive %}{{ loop(2) }}{% endfor %}",
            "{% set ns = namespace(x=[]) %}{% for i in range(100000) %}{% set ns.x = [ns.x] %}{% endfor %}{{ ns.x|length }}",
            "{% set ns = namespace(x=[]) %}{% for i in range(100000) %}{% set ns.x = [ns.x] %}{% endfor %}{{ ns.x }}",
            "{% set ns = namespace(x={}) %}{% for i in range(100000) %}{% set ns.x = {'a': ns.x} %}{% endfor %}{{ ns.x|tojson|length }}",
            "{% set ns = namespace(x=[]) %}{% for i in range(100000) %}{% set ns.x = ns.x + [i] %}{% endfor %}{{ ns.x|length }}",
            "{% set ns = namespace(x='') %}{% for i in range(100000) %}{% set ns.x = ns.x ~ 'a' %}{% endfor %}{{ ns.x|length }}",
            "{% set ns = namespace(x=[]) %}{% for i in range(3000) %}{% set ns.x = [ns.x] %}{% endfor %}{{ ns.x == ns.x }}{{ ns.x < ns.x }}{{ [ns.x]|sort|length }}{{ {ns.x: 1}|length }}"]
    return out


def nesting_templates(thorough):
    depths = [10, 100, 149, 150, 151, 200, 1000, 20000] + ([100000] if thorough else [])
    out = []
    for n in depths:
        out += [
            "{{ " + "(" * n + "1" + ")" * n + " }}",
            "{{ " + "[" * n + "1" + "]" * n + " }}",
            "{{ " + "-" * n + "1 }}", "{{ " + "not " * n + "1 }}",
            "{{ " + "1 if a else " * n + "2 }}",
            "{{ " + "1 + (" * n + "1" + ")" * n + " }}",
            "{{ " + "f(" * n + "1" + ")" * n + " }}",
            "{{ 1" + "|abs" * n + " }}", "{{ x" + ".a" * n + " }}", "{{ x" + "[0]" * n + " }}",
            "{{ " + "x[" * n + "0" + "]" * n + " }}",
            "{{ " + "{'a':" * n + "1" + "}" * n + " }}",
            "{{ 1" + " + 1" * n + " }}", "{{ 1" + " < 2" * min(n, 1000) + " }}", "{{ 'a'" + " ~ 'b'" * n + " }}",
            "{{ 1" + " and 1" * n + " }}",
            "{{ x" + "|default(x" * n + ")" * n + " }}",
            "{{ x is " + "defined and x is " * min(n, 2000) + "defined }}",
            "{% if a %}" * n + "x" + "{% endif %}" * n,
            "{% if a %}x" + "{% elif a %}y" * n + "{% endif %}",
            "{% for i in l %}" * n + "x" + "{% endfor %}" * n,
            "{% with q=1 %}" * n + "x" + "{% endwith %}" * n,
            "{% filter upper %}" * n + "x" + "{% endfilter %}" * n,
            "{% set z %}" * n + "x" + "{% endset %}" * n,
            "{% for " + "(" * n + "a" + ",)" * n + " in l %}{% endfor %}",
            "{% macro m() %}" * min(n, 150) + "x" + "{% endmacro %}" * min(n, 150),
            "{% call m() %}" * n + "x" + "{% endcall %}" * n,
            "{% block b %}" + "{% if a %}" * n + "{% endif %}" * n + "{% endblock %}",
            "{% raw %}" + "{{" * n + "{% endraw %}",
            "{#" + "{#" * n + "#}", "{{" * n, "{%" * n, "{{ '" + "\\\\" * n + "' }}", "{{ " + "1," * n + " }}",
        ]
    return out


def mutated_fixtures(repo, rng, n):
    srcs = []
    for f in sorted(glob.glob(os.path.join(repo, "minijinja/tests/inputs/*.txt")) + glob.glob(os.path.join(repo, "minijinja/tests/parser-inputs/*.txt"))
                    + glob.glob(os.path.join(repo, "minijinja/tests/lexer-inputs/*.txt")) + glob.glob(os.path.join(repo, "fuzz/seeds/*"))):
        try:
            t = open(f, encoding="utf8", errors="replace").read()
        except Exception:
            continue
        parts = t.split("\n---\n", 1)
        srcs.append(parts[1] if len(parts) == 2 else t)
    toks = ["{{", "}}", "{%", "%}", "{#", "#}", "-%}", "{%-", "|", "(", ")", "[", "]", "'", '"', "\\", "\n", "\r", "€", "\x00", " if ", " else ", " for ", " in ",
            "endfor", "endif", "block", "macro", "call", "set", "9223372036854775808", "**", "//", "~", "loop", "super()", "raw", "endraw", "퟿", "\U0001d11e"]
    out = []
    if not srcs:
        return out
    for _ in range(n):
        s = srcs[rng.below(len(srcs))]
        for _ in range(1 + rng.below(4)):
            k = rng.below(4)
            p = rng.below(len(s) + 1)
            if k == 0 and s:
                q = min(len(s), p + 1 + rng.below(8))
                s = s[:p] + s[q:]
            elif k == 1:
                s = s[:p] + toks[rng.below(len(toks))] + s[p:]
            elif k == 2 and s:
                q = rng.below(len(s) + 1)
                a, b = min(p, q), max(p, q)
                s = s[:a] + s[a:b] * 2 + s[b:]
            else:
                s = s[:p] + chr(rng.choice([0, 9, 10, 13, 32, 123, 125, 37, 35, 45, 43, 8364, 65533])) + s[p:]
        out.append(s)
    return out


def main():
    chk = Check("C01", "other")
    chk.cov["trusted_base"] = TRUSTED_COMMON + [
        "tools/parser_graph.py (translator parser.rs -> GenParserGraph.v: functions by brace matching, calls of the form self.name( / Self::name(, guards = calls inside with_recursion_guard!(...)); recursion through any other syntax would escape it - the nesting generators are the safety net",
        "Print Assumptions: all C01 theorems closed under the global context"]
    chk.assumptions = ["PARTIAL by nature: theorems cover parser recursion (bounded nesting), slice arithmetic/indexing (C09 model), scope/capture/operand stack underflow on accepted streams (C05 checker); native stack depth of other recursion (Value Display/Drop of deep data), allocation sizes, formatting.rs and third-party crates are only observed by the crash monitor"]
    info = parser_graph.generate(REPO, os.path.join(COQ, "theories", "C01", "GenParserGraph.v"))
    proofs_ok = chk.run_proofs()
    okc, clog = cargo_build(["prog"], release=False)
    okr, clog2 = cargo_build(["prog"], release=True)
    if not (okc and okr):
        chk.violation("harness does not build against the current tree", {"theorem_or_correspondence": "build harness/src/bin/prog.rs", "log": (clog + clog2)[-1500:]}, True)
        chk.finish()
    # ---- templates ----
    if chk.replay:
        rp = json.load(open(chk.replay))["replay"]
        groups = [("replay", [rp["template"]])]
    else:
        groups = [("sweep", sweep_templates(REPO, chk.rng, chk.thorough)), ("nesting", nesting_templates(chk.thorough)),
                  ("mutated", mutated_fixtures(REPO, chk.rng, 20000 if chk.thorough else 3000))]
    ctx = {"x": {"a": [1, 2]}, "a": False, "l": [1], "m": "s"}
    hist = collections.Counter()
    crashes = []
    total = 0
    distinct_ok = set()
    for gname, tpls in groups:
        reqs = [{"templates": {"main": t, "other.txt": "o"}, "main": "main", "ctx": ctx, "ops": ["render"], "debug": (i % 2 == 0)} for i, t in enumerate(tpls)]
        for rel in (False, True):
            env = dict(ENV)
            env["MJVERIF_WATCHDOG_MS"] = "20000"
            cmd = ["bash", "-c", "ulimit -v 8000000; exec " + bin_path("prog", rel)]
            res = run_json(cmd, reqs, env=env)
            total += len(res)
            for t, r in zip(tpls, res):
                rr = r.get("render", r) if isinstance(r, dict) else {}
                if "ok" in rr:
                    hist[gname + "_ok"] += 1
                    if not rel:
                        distinct_ok.add(t)
                elif "err" in rr:
                    hist[gname + "_err_" + ERR_NAMES.get(rr["err"], str(rr["err"]))] += 1
                else:
                    kind = "panic" if "panic" in r else ("hang" if r.get("hang") else "abort")
                    crashes.append((gname, t, "release" if rel else "debug", kind, json.dumps(r)[:300]))
    # known findings: identified by the exact template
    remaining = []
    for gname, t, prof, kind, detail in crashes:
        k = chk.match_known(lambda e: e["match"].get("template") == t)
        if k:
            chk.known_finding(k["id"], k["what"])
        else:
            remaining.append((gname, t, prof, kind, detail))
    chk.cov["explanation"] = ("Partial verification. Proved in Coq (see theorems): parser call nesting is bounded (call graph of %d functions / %d call edges, %d guarded, regenerated from parser.rs and checked by the verified checker: max rank %d, limit %d), slices never panic, accepted instruction streams never underflow. "
                              "Observed (exploration): %d child-process renders (boundary sweep of every built-in filter/test/function/operator x argument pools incl. 2^62..2^128-1 counts, nesting generators at depths 10..20000, mutated fixtures), debug+release, 2 MiB threads, every error formatted in all forms; crashes seen: %d (known: %d)."
                              % (info["functions"], info["edges"], info["guarded_edges"], info["max_rank"], info["max_recursion"], total, len(crashes), len(crashes) - len(remaining)))
    chk.cov["evaluations"] = total
    chk.cov["distinct_nontrivial"] = len(distinct_ok)
    chk.cov["rule"] = "non-trivial = distinct template that loads and renders successfully (the rest end in an error value, which is also an allowed outcome); see explanation for the generators"
    chk.cov["samples"] = [g[1][len(g[1]) // 3][:200] for g in groups if g[1]]
    chk.cov["distribution"] = dict(hist)
    chk.cov["parser_graph"] = {k: info[k] for k in ("functions", "edges", "guarded_edges", "max_rank", "max_recursion", "unguarded_cycles")}
    seen = set()
    for gname, t, prof, kind, detail in remaining:
        key = (gname, kind, t[:40])
        if key in seen or len(seen) >= 6:
            continue
        seen.add(key)
        chk.violation("host process crash: " + kind, {"template": t if len(t) < 3000 else t[:200] + "...<%d chars>..." % len(t) + t[-100:], "template_len": len(t), "profile": prof, "observed": detail, "generator": gname})
    if not chk.violations:
        if info["unguarded_cycles"]:
            chk.violation("the parser has a recursion cycle that does not pass the recursion guard", {"theorem_or_correspondence": "parser_graph_guarded", "cycles": info["unguarded_cycles"]}, True)
        elif not proofs_ok:
            chk.violation("proof obligations of C01 do not check", {"theorem_or_correspondence": chk.proof["problems"]}, True)
    chk.finish()


if __name__ == "__main__":
    main()
