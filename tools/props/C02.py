#!/usr/bin/env python3
"""C02 - HTML auto-escaping is sound: unsafe data is escaped exactly once (DESIGN.md §3 C02).

Four parts, all on templates named *.html / *.xml / *.htm (default_auto_escape_callback):
  A  typed random core-fragment programs whose raw text has no HTML metacharacter and which use no
     safe-marking construct, over contexts full of < > " ' & / : (1) the engine must render them exactly
     like the reference interpreter run with esc = true (Lang/Interp.v, the object of the Coq theorems);
     (2) DIRECT ORACLE on the engine's own output: it contains none of < > " ' .
  A' the same oracle with "wild" contexts (metacharacter strings and lists of them in every variable, so
     that they flow through arithmetic, comparisons, loops, macro arguments ...) - engine only.
  B  no double escaping: a generated body rendered through a capture (set-block, macro call, call block,
     filter block, include, block / super() / self.block(), nested captures, macro argument, import) prints
     byte for byte what the body renders to.
  C  sweep of EVERY filter registered by defaults.rs and minijinja-contrib (names read from the tree under
     check), applied to unsafe / captured-safe / list / dict operands with metacharacter arguments, alone and
     in pairs, printed under auto-escape: no raw metacharacter unless a filter documented to return markup
     (safe, escape, e, tojson) is involved.
"""
import os, re, sys, collections
sys.path.insert(0, os.path.dirname(os.path.dirname(os.path.abspath(__file__))))
from vlib import *
import proggen, langenc

META = '<>"\''
EVIL = ['<b>', 'a&b', '"q"', "it's", '<', '</p>', '<a href="x">', "'><script>", 'x/y&z', '>', '"', "'"]
MARKUP_FILTERS = {"safe", "escape", "e", "tojson"}     # documented to return markup / mark their result safe
HTML_NAMES = ["main.html", "page.xml", "dir/t.htm", "x.html.j2", "y.xml.jinja"]


# ---- part A generator: proggen.Gen plus the safety-aware filters of the enlarged fragment ----------------------------
NEW_FILTERS = all(k in langenc.FILTERS for k in ("replace", "join", "format", "list"))   # present once Lang/ models them
FMTS = [("%s", 1), ("[%s]", 1), ("%s-%s", 2), ("a%%%s", 1), ("(%s)", 1), ("%s %s %s", 3), ("x", 0), ("%%", 0), ("100%% %s", 1)]


class Gen2(proggen.Gen):
    """proggen.Gen plus the safety-aware filters replace / join / format / list (C02 part A)"""

    def str_list_expr(self, env, d):
        r = self.rng
        c = r.below(4)
        if c == 0:
            return ("filter", "list", self.str_expr(env, d - 1), [])
        if c == 1:
            return self.list_expr(env, d)
        return ("list", [self.str_expr(env, max(0, d - 1)) if r.chance(2, 3) else self.any_scalar(env, 0) for _ in range(r.below(4))])

    def str_expr(self, env, d):
        r = self.rng
        if d > 0 and r.chance(1, 3):
            c = r.below(4)
            if c == 0:
                return ("filter", "replace", self.str_expr(env, d - 1), [self.str_expr(env, 0), self.str_expr(env, d - 1)])
            if c == 1:
                args = [] if r.chance(1, 5) else [self.str_expr(env, d - 1)]
                return ("filter", "join", self.str_list_expr(env, d), args)
            if c == 2:
                fv = [n for n, k in env.items() if isinstance(k, str) and k.startswith("fmt:")]
                if fv and r.chance(1, 2):
                    name = r.choice(fv)
                    fe, n = ("var", name), int(env[name][4:])
                else:
                    f, n = r.choice(FMTS)
                    fe = ("str", f)
                if r.chance(1, 8):
                    n = max(0, n + r.choice([-1, 1]))
                return ("filter", "format", fe, [self.any_scalar(env, d - 1) if r.chance(1, 2) else self.str_expr(env, d - 1) for _ in range(n)])
            return ("filter", "replace", self.str_expr(env, d - 1), [("str", r.choice(["a", "b", "&", ";", "", "lt", "q"])), self.str_expr(env, 0)])
        return proggen.Gen.str_expr(self, env, d)

    def stmt(self, env, d, in_loop):
        r = self.rng
        if d > 0 and self.f["setblock"] and r.chance(1, 12):
            v = self.fresh("f")
            f, n = r.choice(FMTS)
            env[v] = "fmt:%d" % n
            return ("setblock", v, [("raw", f)], None)
        if d > 0 and self.f["setblock"] and r.chance(1, 14):
            v = self.fresh("j")
            env[v] = "str"
            return ("setblock", v, [("raw", r.choice([", ", "-", " & ", ""]))], None)
        if d > 0 and r.chance(1, 10):
            # a string iterates over its characters (each one an unsafe one-character string), also a captured safe one
            v = self.fresh("c")
            env2 = dict(env)
            env2[v] = "str"
            return ("for", v, self.str_expr(env, 1), None, self.body(env2, d - 1, True), None, False)
        return proggen.Gen.stmt(self, env, d, in_loop)


def make_gen(rng, features, max_depth, engine_only=False):
    return (Gen2 if (NEW_FILTERS or engine_only) else proggen.Gen)(rng, features, max_depth=max_depth)


def has_meta(s):
    return any(c in s for c in META)


EVIL_KEYS = ["<k>", "it's", 'q"', "a&b", "</p>", "'\"><"]       # no '=' / ',' (proggen's kind strings), never looked up by name


def evil_nested(rng, v):
    """the same shape with metacharacter strings in place of (some of) the strings, at any depth"""
    if isinstance(v, str):
        return rng.choice(EVIL) if rng.chance(2, 3) else v
    if isinstance(v, list):
        return [evil_nested(rng, x) for x in v]
    if isinstance(v, dict):
        return {k: evil_nested(rng, x) for k, x in v.items()}
    return v


def map_has_meta(v, inside=False):
    if isinstance(v, str):
        return inside and has_meta(v)
    if isinstance(v, list):
        return any(map_has_meta(x, inside) for x in v)
    if isinstance(v, dict):
        return any(map_has_meta(k, True) or map_has_meta(x, True) for k, x in v.items())
    return False


NEW_CONSTRUCTS = [("map_literal", re.compile(r'\{(?:"[a-z]+"|\d+): |\{\}')), ("map_lookup", re.compile(r'\b[de](?:\.[a-z]+\b|\[")')),
                  ("loop_over_map", re.compile(r'\{% for k\d+(?:, x\d+)? in ')), ("items_filter", re.compile(r'\|items\b')),
                  ("unpacking_set", re.compile(r'\{% set \w+, \w+ = ')), ("unpacking_with", re.compile(r'\{% with \(\w+, \w+\) = ')),
                  ("mapping_test", re.compile(r' is (?:not )?mapping\b'))]


def evil_context(rng, wild=False):
    ctx, kinds = proggen.default_context(rng)
    ctx["s"] = rng.choice(EVIL)
    ctx["h"] = rng.choice(EVIL) + rng.choice(["", " ", "x"]) + rng.choice(EVIL)
    ctx["q"] = rng.choice(EVIL)
    kinds.update({"h": "str", "q": "str"})
    # maps: metacharacter strings as values under the typed keys (the kinds stay as they are), nested inside the
    # second map, and under a key that is itself a metacharacter string (not listed in the kinds: such a key is
    # never written as `d.<k>`, it shows up when the whole map is printed, iterated over, unpacked, `|items`, `|list`)
    if "b" in ctx["d"] and rng.chance(2, 3):
        ctx["d"]["b"] = rng.choice(EVIL)
    if rng.chance(1, 2):
        ctx["d"][rng.choice(EVIL_KEYS)] = rng.choice(EVIL + [[rng.choice(EVIL), 1]])
    ctx["e"] = evil_nested(rng, ctx["e"])
    if wild:
        ctx["n"] = rng.choice(EVIL)
        ctx["l"] = [rng.choice(EVIL) for _ in range(rng.below(4))]
        ctx["k"] = [[rng.choice(EVIL)], rng.choice(EVIL), 3][: 1 + rng.below(3)]
        ctx["t"] = rng.choice(EVIL + [True])
    return ctx, kinds


def expect(r):
    rr = r.get("render", r)
    if "ok" in rr:
        return [0, len(rr["ok"])] + [ord(c) for c in rr["ok"]]
    if "err" in rr:
        return [1, rr["err"]]
    return ["crash", json.dumps(r)[:200]]


def req(templates, main, ctx, keep_nl=False):
    r = {"templates": templates, "main": main, "ctx": ctx, "ops": ["render"]}
    if keep_nl:
        r["settings"] = {"keep_trailing_newline": True}
    return r


# ---- part B: wrappers that route BODY through a capture -----------------------------------------------------------
def wrappers(body):
    """(label, templates, main) - every variant must render exactly like `body` alone"""
    W = []
    W.append(("set-block", {"main.html": "{% set zcap %}" + body + "{% endset %}{{ zcap }}"}))
    W.append(("set-block twice", {"main.html": "{% set za %}" + body + "{% endset %}{% set zb %}{{ za }}{% endset %}{% set zc %}{{ zb }}{% endset %}{{ zc }}"}))
    W.append(("macro call", {"main.html": "{% macro zm() %}" + body + "{% endmacro %}{{ zm() }}"}))
    W.append(("macro result stored", {"main.html": "{% macro zm() %}" + body + "{% endmacro %}{% set zr = zm() %}{% with zz = zr %}{{ zz }}{% endwith %}"}))
    W.append(("call block", {"main.html": "{% macro zw() %}{{ caller() }}{% endmacro %}{% call zw() %}" + body + "{% endcall %}"}))
    W.append(("macro argument", {"main.html": "{% macro zid(zv) %}{{ zv }}{% endmacro %}{% set zcap %}" + body + "{% endset %}{{ zid(zcap) }}"}))
    W.append(("filter block string", {"main.html": "{% filter string %}" + body + "{% endfilter %}"}))
    W.append(("loop over capture", {"main.html": "{% set zcap %}" + body + "{% endset %}{% for zz in [zcap] %}{{ zz }}{% endfor %}"}))
    W.append(("ternary / default", {"main.html": "{% set zcap %}" + body + "{% endset %}{{ (zcap if true else 1)|default(2) }}"}))
    W.append(("include", {"main.html": "{% include 'body.html' %}", "body.html": body}))
    W.append(("include captured", {"main.html": "{% set zcap %}{% include 'body.html' %}{% endset %}{{ zcap }}", "body.html": body}))
    W.append(("block", {"main.html": "{% block zb %}" + body + "{% endblock %}"}))
    W.append(("super()", {"main.html": "{% extends 'base.html' %}{% block zb %}{{ super() }}{% endblock %}", "base.html": "{% block zb %}" + body + "{% endblock %}"}))
    W.append(("self.block()", {"main.html": "{% extends 'base.html' %}{% block zb %}" + body + "{% endblock %}{% block zc %}{{ self.zb() }}{% endblock %}",
                               "base.html": "{% block zc %}{% endblock %}{% if false %}{% block zb %}{% endblock %}{% endif %}"}))
    W.append(("imported macro", {"main.html": "{% from 'lib.html' import zm %}{{ zm() }}", "lib.html": "{% macro zm() %}" + body + "{% endmacro %}"}))
    return [(lab, t, "main.html") for lab, t in W]


# ---- part C: filter sweep -------------------------------------------------------------------------------------------
def filter_names():
    names = set()
    src = open(os.path.join(REPO, "minijinja/src/defaults.rs")).read()
    m = re.search(r"fn build_builtin_filters.*?\n}\n", src, re.S)
    body = m.group(0) if m else ""
    names.update(re.findall(r'"([a-z_0-9]+)"\s*\.into\(\)', body))
    try:
        lib = open(os.path.join(REPO, "minijinja-contrib/src/lib.rs")).read()
        names.update(re.findall(r'add_filter\(\s*"([a-z_0-9]+)"', lib))
    except OSError:
        pass
    return sorted(names)


SWEEP_CTX = {"x": '<b a="1" c=\'2\'>&/', "y": "'\"><", "lst": ['<b a="1" c=\'2\'>&/', "'\"><"], "d": {"<k>": "'v\""},
             "n": 2, "w": "<i> \"aa\" 'bb' <u> cc>", "objs": [{"a": "<1>"}, {"a": "'2\""}]}
SWEEP_PRELUDE = ("{% set cap %}{{ x }}-{{ y }} end{% endset %}{% set sep %}, {% endset %}{% set fmt %}%s and %s{% endset %}"
                 "{% set dash %}a-b-c{% endset %}")
OPERANDS = ["x", "cap", "lst", "d", "[cap, x]", "[cap, cap]", "(x ~ cap)", "w", "fmt", "dash", "objs", "n"]
ARGS = ["", "(x)", "(cap)", "(n)", "(x, y)", "(cap, x)", "(x, cap)", "(n, x)", "(sep)", "('-', x)", "('upper')", "('a')",
        "(attribute='a')", "(length=6, end=x, leeway=0)", "(length=6, end=sep, leeway=0)", "(width=3, wrapstring=x)",
        "(n, true)", "(default=x)", "(x, true)", "(1, x)", "(lst, d)"]      # (lst, d): non-string arguments that carry markup


REGRESSION_ARGS = ["", "(x)", "(cap, x)", "(x, y)", "(sep)", "(length=6, end=x, leeway=0)"]


def sweep_cases(names, rng, thorough):
    singles = []
    for f in names:
        for oi, op in enumerate(OPERANDS):
            for ai, a in enumerate(ARGS):
                if not thorough and a not in REGRESSION_ARGS and (oi + ai) % 3:
                    continue
                singles.append(((f,), "{{ %s|%s%s }}" % (op, f, a)))
    return singles


def sweep_template(expr_tpl):
    return SWEEP_PRELUDE + "[" + expr_tpl + "]"



# ---- part D: which names are auto-escaped (default_auto_escape_callback) ------------------------------------------
XVAL = "<'\">&/"


def fmt_mode(mode, x=XVAL):
    if mode == 1:
        return "".join({"<": "&lt;", ">": "&gt;", "&": "&amp;", '"': "&quot;", "'": "&#x27;", "/": "&#x2f;"}.get(c, c) for c in x)
    if mode == 2:
        return json.dumps(x)
    return x


CORE_NAMES = [".html", ".htm", ".xml", "a/.html", "partials/.html", "feeds/.xml", "x.html.j2", ".html.j2", "x.htm.jinja", "x.xml.jinja2", "html", "x.HTML", "x.html.",
              "x..html", "a.html.j2.jinja", "", ".j2", "x.json", "x.yml.jinja2", "js", "é.xml", "a\\b.html", "n\u0000.html", "a.b/c", "index.html", "v1.2/feed.xml", "x.txt"]


def name_family(rng, thorough):
    pres = ["", "a", "a/", "a.b/", "x.", "dir/sub/", "é", "a\\b", "n\u0000", ".", "..", "a/.", "index", "v1.2/feed", ".hidden"]
    exts = ["html", "htm", "xml", "json", "json5", "js", "yaml", "yml", "txt", "HTML", "Html", "htmlx", "xhtml", "ht ml", "", "j2", "jinja", "jinja2", "html\u0000"]
    sufs = ["", ".j2", ".jinja", ".jinja2", ".j2.jinja", ".jinja.j2", ".", ".J2", "\u0000", " ", ".j2 "]
    names = list(CORE_NAMES)
    for p_ in pres:
        for e in exts:
            for joiner in (".", ""):
                for su in sufs:
                    names.append(p_ + joiner + e + su)
    alphabet = [".", ".", "/", "h", "t", "m", "l", "x", "j", "2", "html", "xml", ".j2", ".jinja", "s", "\\"]
    for _ in range(20000 if thorough else 1500):
        names.append("".join(rng.choice(alphabet) for _ in range(1 + rng.below(7))))
    seen, out = set(), []
    for n in names:
        if n not in seen and not n.startswith("zz_"):
            seen.add(n); out.append(n)
    return out


def name_cases(name, m):
    """(label, templates, main, ctx, governing-mode description, expected output) for template `name` of model mode m"""
    om, oname = (0, "zz_other.txt") if m == 1 else (1, "zz_other.html")
    f, fo = fmt_mode(m), fmt_mode(om)
    leaf = "[{{ x }}]"
    child = "{% extends base %}{% block b %}[{{ x }}|{{ super() }}]{% endblock %}"
    base = "<{{ x }}{% block b %}({{ x }}){% endblock %}>"
    lib = "{% macro m(v) %}[{{ v }}]{% endmacro %}"
    C = []
    C.append(("direct", {name: leaf}, name, {}, m, "[" + f + "]"))
    C.append(("included from a template of another mode", {oname: "{{ x }}|{% include inc %}|{{ x }}", name: leaf}, oname, {"inc": name}, m, fo + "|[" + f + "]|" + fo))
    C.append(("includes a template of another mode", {name: "{{ x }}|{% include inc %}|{{ x }}", oname: leaf}, name, {"inc": oname}, m, f + "|[" + fo + "]|" + f))
    C.append(("most derived template of an extends chain", {name: child, oname: base}, name, {"base": oname}, m, "<" + f + "[" + f + "|(" + f + ")]>"))
    C.append(("base of an extends chain rendered through a child of another mode", {oname: child, name: base}, oname, {"base": name}, om, "<" + fo + "[" + fo + "|(" + fo + ")]>"))
    C.append(("macro imported into a template of another mode", {oname: "{% from lib import m %}{{ m(x) }}", name: lib}, oname, {"lib": name}, om, "[" + fo + "]"))
    C.append(("imports a macro from a template of another mode", {name: "{% from lib import m %}{{ m(x) }}", oname: lib}, name, {"lib": oname}, m, "[" + f + "]"))
    return C


# ---- part E: the auto-escape mode as a three-valued, lexically scoped thing (C02/Modes.v) -------------------------
AE_SPELL = ['true', 'false', '"html"', '"none"', '"json"']
REND = {XVAL: "none", fmt_mode(1): "html", fmt_mode(2): "json"}
MAIN_NAMES = ["main.html", "main.html", "page.xml", "m.txt", "m.json", ".html", "m.html.jinja", "feed.yml.j2"]
INC_NAMES = ["inc_a.html", "inc_b.txt", "inc_c.json", "partials/.html", "inc_d.htm.j2", "inc_e"]


class ModeGen:
    """random programs of the C02/Modes.v language: autoescape blocks of all five spellings nested in each other and in
    for / with / set-block / macro / call block / include, loop controls inside them, prints before / inside / after"""

    def __init__(self, rng, ninc):
        self.rng, self.ninc = rng, ninc
        self.ids = self.vars = self.macros = self.blocks = 0
        self.exported = []        # macros defined directly in the top-level list of template 0: (name, uses_caller)
        self.block_names = []

    @staticmethod
    def may_fail(b):
        for st in b:
            if st[0] == "fail":
                return True
            for x in st[1:]:
                if isinstance(x, list) and ModeGen.may_fail(x):
                    return True
        return False

    def body(self, d, in_loop, vv, vm, has_caller, n=None, inc_from=1, top=False, blocks_ok=False, in_macro=False):
        r = self.rng
        vv, vm = list(vv), list(vm)
        out = []
        for _ in range((1 + r.below(4)) if n is None else n):
            c = r.below(27)
            if c >= 20:
                c = {24: 20, 25: 21, 26: 21}.get(c, c)
                # error paths: a statement that fails inside a macro / call block body (often inside an autoescape block),
                # and the host function `attempt` that swallows the failure of a macro or of caller()
                if c == 20 and in_macro and d > 0:
                    out.append(("auto", r.below(5), [("print", self._id()), ("fail",)]) if r.chance(2, 3) else ("fail",))
                elif c == 21 and vm:
                    out.append(("attempt", r.choice(vm)[0]))
                elif c == 22 and has_caller:
                    out.append(("attemptcaller",))
                elif c == 23 and blocks_ok and d > 0:
                    self.blocks += 1
                    self.block_names.append(self.blocks)
                    out.append(("block", self.blocks, self.body(d - 1, False, [], [], False, inc_from=inc_from, blocks_ok=True)))
                else:
                    out.append(("print", self._id()))
                continue
            if d <= 0 or c < 5:
                self.ids += 1
                out.append(("print", self.ids))
            elif c < 9:
                out.append(("auto", r.below(5), self.body(d - 1, in_loop, vv, vm, has_caller, inc_from=inc_from, blocks_ok=blocks_ok and not in_loop, in_macro=in_macro)))
            elif c < 11:
                out.append(("loop", 2 + r.below(2), self.body(d - 1, True, vv, vm, has_caller, inc_from=inc_from, in_macro=in_macro)))
            elif c < 13:
                if in_loop:
                    out.append(("continue" if r.chance(2, 3) else "break", r.below(2)))
                else:
                    self.ids += 1
                    out.append(("print", self.ids))
            elif c == 13:
                out.append(("with", self.body(d - 1, in_loop, vv, vm, has_caller, inc_from=inc_from, blocks_ok=blocks_ok and not in_loop, in_macro=in_macro)))
            elif c == 14:
                self.vars += 1
                out.append(("capture", self.vars, self.body(d - 1, in_loop, vv, vm, has_caller, inc_from=inc_from, in_macro=in_macro)))
                vv.append(self.vars)
            elif c == 15 and vv:
                out.append(("printvar", r.choice(vv)))
            elif c == 16:
                self.macros += 1
                uc = r.chance(1, 2)
                b = self.body(d - 1, False, [], [], uc, inc_from=inc_from, in_macro=True)
                if uc:
                    b.insert(r.below(len(b) + 1), ("caller",))
                    if r.chance(1, 2):
                        b = [("auto", r.below(5), b)]
                out.append(("macro", self.macros, b))
                vm.append((self.macros, uc, self.may_fail(b)))
                if top:
                    self.exported.append((self.macros, uc))
            elif c == 17 and vm:
                nm, uc, mf = r.choice(vm)
                if mf:
                    out.append(("attempt", nm))                 # a macro that fails is only called through the host function
                elif uc:
                    cb = self.body(d - 1, False, [], [], False, inc_from=inc_from, in_macro=True)
                    out.append(("callblock", nm, cb) if not self.may_fail(cb) else ("attempt", nm))
                else:
                    out.append(("callmacro", nm))
            elif c == 18 and has_caller:
                out.append(("caller",))
            elif c == 19 and inc_from <= self.ninc:
                out.append(("include", inc_from + r.below(self.ninc - inc_from + 1)))
            else:
                self.ids += 1
                out.append(("print", self.ids))
        return out

    def _id(self):
        self.ids += 1
        return self.ids


def mode_src(b, depth=0):
    out = ""
    for st in b:
        t = st[0]
        if t == "print": out += "[%d:{{ x }}]" % st[1]
        elif t == "auto": out += "{% autoescape " + AE_SPELL[st[1]] + " %}" + mode_src(st[2], depth) + "{% endautoescape %}"
        elif t == "loop": out += "{%% for i%d in range(%d) %%}" % (depth, st[1]) + mode_src(st[2], depth + 1) + "{% endfor %}"
        elif t == "continue": out += "{%% if loop.index0 == %d %%}{%% continue %%}{%% endif %%}" % st[1]
        elif t == "break": out += "{%% if loop.index0 == %d %%}{%% break %%}{%% endif %%}" % st[1]
        elif t == "with": out += "{% with w = 1 %}" + mode_src(st[1], depth) + "{% endwith %}"
        elif t == "capture": out += "{%% set v%d %%}" % st[1] + mode_src(st[2], depth) + "{% endset %}"
        elif t == "printvar": out += "{{ v%d }}" % st[1]
        elif t == "macro": out += "{%% macro m%d() %%}" % st[1] + mode_src(st[2], depth) + "{% endmacro %}"
        elif t == "callmacro": out += "{{ m%d() }}" % st[1]
        elif t == "callblock": out += "{%% call m%d() %%}" % st[1] + mode_src(st[2], depth) + "{% endcall %}"
        elif t == "caller": out += "{{ caller() }}"
        elif t == "include": out += "{% include inc" + str(st[1]) + " %}"
        elif t == "fail": out += "{{ 1 // 0 }}"
        elif t == "attempt": out += "{{ attempt(m%d) }}" % st[1]
        elif t == "attemptcaller": out += "{{ attempt(caller) }}"
        elif t == "block": out += "{%% block b%d %%}" % st[1] + mode_src(st[2], depth) + "{% endblock %}"
    return out


def mode_enc(b):
    out = [len(b)]
    for st in b:
        t = st[0]
        if t == "print": out += [0, st[1]]
        elif t == "auto": out += [1, st[1]] + mode_enc(st[2])
        elif t == "loop": out += [2, st[1]] + mode_enc(st[2])
        elif t == "continue": out += [3, st[1]]
        elif t == "break": out += [4, st[1]]
        elif t == "with": out += [5] + mode_enc(st[1])
        elif t == "capture": out += [6, st[1]] + mode_enc(st[2])
        elif t == "printvar": out += [7, st[1]]
        elif t == "macro": out += [8, st[1]] + mode_enc(st[2])
        elif t == "callmacro": out += [9, st[1]]
        elif t == "callblock": out += [10, st[1]] + mode_enc(st[2])
        elif t == "caller": out += [11]
        elif t == "include": out += [12, st[1]]
        elif t == "fail": out += [13]
        elif t == "attempt": out += [14, st[1]]
        elif t == "attemptcaller": out += [15]
        elif t == "block": out += [16, st[1]] + mode_enc(st[2])
    return out


def mode_case(names, bodies, queries=()):
    """-> (engine request, model case): template 0 is rendered; includes go through context variables inc<i>;
    queries: calls on the State of the finished render, ("macro", n) / ("block", n)"""
    t = {nm: mode_src(b) for nm, b in zip(names, bodies)}
    ctx = {"x": XVAL}
    for i, nm in enumerate(names):
        ctx["inc%d" % i] = nm
    case = [len(names)]
    for nm, b in zip(names, bodies):
        case += [len(nm)] + [ord(c) for c in nm] + mode_enc(b)
    case += [len(queries)]
    for kind, nm in queries:
        case += [1 if kind == "macro" else 2, nm]
    rq = {"templates": t, "main": names[0], "ctx": ctx, "steps": [{"op": kind, "name": ("m%d" if kind == "macro" else "b%d") % nm} for kind, nm in queries]}
    return rq, case


def split_model(m):
    """the model's answer: the render, then one result per query -> list of [0, n, chars..] / [1, code] / [8] ..."""
    out, i = [], 0
    while i < len(m):
        if m[i] == 0:
            n = m[i + 1]; out.append(m[i:i + 2 + n]); i += 2 + n
        elif m[i] == 1:
            out.append(m[i:i + 2]); i += 2
        else:
            out.append([m[i]]); i += 1
    return out


def engine_results(r):
    """same shape from the c02 harness response"""
    def one(x):
        if "ok" in x:
            return [0, len(x["ok"])] + [ord(c) for c in x["ok"]]
        if "err" in x:
            return [1, x["err"]]
        return ["crash", json.dumps(x)[:200]]
    if "render" not in r:
        return [["crash", json.dumps(r)[:200]]]
    return [one(r["render"])] + [one(x) for x in r.get("steps", [])]


def run_c02(reqs, release=False):
    env = dict(ENV)
    env["MJVERIF_WATCHDOG_MS"] = "60000"
    return run_json([bin_path("c02", release)], reqs, env=env)


def mode_variants(b):
    for i in range(len(b)):
        yield b[:i] + b[i + 1:]
    for i, st in enumerate(b):
        inner = st[2] if st[0] in ("auto", "loop", "capture", "macro", "callblock", "block") else st[1] if st[0] == "with" else None
        if inner is None:
            continue
        if st[0] in ("auto", "with"):
            yield b[:i] + list(inner) + b[i + 1:]
        for v in mode_variants(inner):
            yield b[:i] + [((st[0], v) if st[0] == "with" else (st[0], st[1], v))] + b[i + 1:]


def marker_renderings(text):
    """{print id: set of the forms its datum was written in}"""
    out = {}
    for m in re.finditer(r"\[(\d+):(.*?)\]", text):
        out.setdefault(int(m.group(1)), set()).add(REND.get(m.group(2), "other"))
    return out


def main():
    chk = Check("C02", "proof")
    chk.cov["trusted_base"] = TRUSTED_COMMON + [
        "the reference interpreter Lang/Interp.v with esc = true is the model of write_escaped / end_capture / macro result marking / the string filters' safety handling; tools/langenc.py + Lang/Codec.v and tools/proggen.py are unverified glue",
        "filters outside the model (replace, join, format, split, lines, indent, title, ... and minijinja-contrib's truncate, wordwrap, striptags, pluralize ...) and the multi-template constructs (include, extends, super, import) are covered by the direct oracle on the engine only"]
    chk.assumptions = ["theorem fragment: programs of the core fragment without `safe` and {% autoescape %} whose raw text has none of < > \" ' ; contexts whose safe strings (if any) are metacharacter-free",
                       "ASCII template text and context strings"]
    okm, blog = build_models("C02")
    proofs_ok = chk.run_proofs()
    okc, clog = cargo_build(["prog"], release=False)
    okr, clog2 = cargo_build(["prog"], release=True)
    if not (okc and okr):
        chk.violation("harness does not build against the current tree", {"theorem_or_correspondence": "build harness/src/bin/prog.rs", "log": (clog + clog2)[-1500:]}, True)
        chk.finish()
    if not okm:
        chk.violation("model build failed", {"theorem_or_correspondence": "coq/theories/C02 build", "log": blog[-1500:]}, True)
        chk.finish()
    rng = chk.rng
    hist = collections.Counter()
    nontriv = set()
    evaluations = 0
    samples = []
    viol = []           # (what, replay)
    nfi = []

    if chk.replay:
        rp = json.load(open(chk.replay))["replay"]
        kind = rp.get("kind")
        for rel in (False, True):
            if kind == "roundtrip":
                a = run_prog([req(rp["templates"], rp["main"], rp["context"], True), req({"main.html": rp["body"]}, "main.html", rp["context"], True)], release=rel)
                if "ok" in a[1].get("render", {}) and a[0].get("render") != a[1].get("render"):
                    viol.append(("printing a captured rendering does not reproduce it byte for byte (%s)" % rp.get("via"), rp))
            elif kind == "filterblock":
                rb = run_prog([req(rp["templates"], rp["main"], rp["context"])], release=rel)[0].get("render", {})
                re_ = run_prog([req({"t.html": rp["expression_form"]}, "t.html", rp["context"])], release=rel)[0].get("render", {}) if rp.get("expression_form") else {}
                if "ok" in rb and ((rp.get("leak") and has_meta(rb["ok"])) or ("ok" in re_ and rb["ok"] != re_["ok"])):
                    viol.append(("a filter block prints unsafe data raw / differs from the expression form", rp))
            elif kind == "modes":
                cargo_build(["c02"], release=rel)
                got = engine_results(run_c02([{"templates": rp["templates"], "main": rp["main"], "ctx": rp["context"], "steps": rp.get("steps", [])}], release=rel)[0])
                want = rp["expected"] if isinstance(rp["expected"], list) else [rp["expected"]]
                got_t = [("".join(chr(c) for c in x[2:]) if x[:1] == [0] else str(x)) for x in got]
                if got_t != want:
                    viol.append((rp.get("what", "a program of nested autoescape blocks is rendered under the wrong mode"), rp))
            elif kind == "names":
                r = run_prog([req(rp["templates"], rp["main"], rp["context"])], release=rel)[0].get("render", {})
                if "ok" in r and r["ok"] != rp["expected"]:
                    viol.append((rp.get("what", "template rendered under another auto-escape mode than its name gives it"), rp))
            else:
                r = run_prog([req(rp["templates"], rp["main"], rp["context"])], release=rel)[0].get("render", {})
                if "ok" in r and has_meta(r["ok"]):
                    viol.append(("raw HTML metacharacter from data reaches the output", rp))
        for what, rp in viol[:1]:
            chk.violation(what, rp)
        chk.cov["evaluations"] = 2
        chk.finish()

    log('[C02] setup done %.1fs' % (time.time() - chk.t0))
    # ---------------- part A: differential + direct oracle ----------------
    nA = 20000 if chk.thorough else 1000
    progs = []
    for j in range(nA):
        g = make_gen(rng, {"autoescape": False, "strings_with_meta": True}, 2 + rng.below(3))
        ctx, kinds = evil_context(rng)
        progs.append((g.template(kinds), ctx, HTML_NAMES[j % len(HTML_NAMES)]))
    reqs = [req({nm: proggen.body_src(b)}, nm, ctx) for b, ctx, nm in progs]
    cases = [langenc.request(b, ctx, "lenient", True)[0] for b, ctx, nm in progs]
    model = run_model("C02", "c02", cases)
    okflags = run_model("C02", "c02-ok", cases)
    in_fragment = sum(1 for o in okflags if o == [1, 1])
    mism = []
    oracle_bad = []
    crashes_a = []
    for rel in (False, True):
        impl = run_prog(reqs, release=rel)
        for i, (r, m) in enumerate(zip(impl, model)):
            evaluations += 1
            e = expect(r)
            if e != m:
                mism.append((i, rel, e, m))
            if e[:1] == [0]:
                out = r["render"]["ok"]
                if has_meta(out):
                    oracle_bad.append((i, rel, out))
                if not rel:
                    hist["A_render_ok"] += 1
                    src_i = reqs[i]["templates"][progs[i][2]]
                    for fn in ("replace", "join", "format", "list"):
                        if "|" + fn in src_i:
                            hist["A_uses_" + fn] += 1
                    if re.search(r"{% for c\d+ in ", src_i):
                        hist["A_loops_over_a_string"] += 1
                    for lab, rx in NEW_CONSTRUCTS:
                        if rx.search(src_i):
                            hist["A_uses_" + lab] += 1
                    if map_has_meta(progs[i][1]["d"]) or map_has_meta(progs[i][1]["e"]):
                        hist["A_context_map_holds_metachar_string"] += 1
                    if re.search(r"\{(?:&#x27;|&quot;)", out):
                        hist["A_output_prints_a_map_with_string_keys"] += 1
                    if re.search(r"(?:\[|, |: )(?:&#x27;|&quot;)[^&]*&(?:lt|gt|quot|#x27);", out):
                        hist["A_output_prints_metachar_string_nested_in_list_or_map"] += 1
                    if "&lt;" in out or "&gt;" in out or "&quot;" in out or "&#x27;" in out:
                        hist["A_output_has_escaped_metachar"] += 1
                        nontriv.add(("A", reqs[i]["templates"][progs[i][2]], json.dumps(progs[i][1], sort_keys=True)))
            elif e[:1] == [1]:
                if not rel:
                    hist["A_render_err_" + ERR_NAMES.get(e[1], str(e[1]))] += 1
            else:
                crashes_a.append({"template": reqs[i]["templates"][progs[i][2]], "engine": str(e[1])[:160]})
    for i in (0, nA // 2):
        samples.append({"part": "A", "template": reqs[i]["templates"][progs[i][2]], "name": progs[i][2], "context": progs[i][1],
                        "engine": run_prog([reqs[i]])[0].get("render")})
    seen = set()
    for i, rel, out in oracle_bad[:30]:
        if len(seen) >= 3:
            break
        body, ctx, nm = progs[i]
        def still(b):
            r = run_prog([req({nm: proggen.body_src(b)}, nm, ctx)], release=rel)[0].get("render", {})
            return "ok" in r and has_meta(r["ok"])
        small = proggen.shrink(body, still, budget=150)
        src = proggen.body_src(small)
        if src in seen:
            continue
        seen.add(src)
        viol.append(("raw HTML metacharacter from data reaches the output of a template without safe-marking constructs",
                     {"kind": "program", "templates": {nm: src}, "main": nm, "context": ctx, "profile": "release" if rel else "debug",
                      "engine": run_prog([req({nm: src}, nm, ctx)], release=rel)[0].get("render"), "ast": repr(small)}))
    seen = set()
    for i, rel, e, m in mism[:30]:
        if len(seen) >= 2:
            break
        body, ctx, nm = progs[i]
        def still2(b):
            r = run_prog([req({nm: proggen.body_src(b)}, nm, ctx)], release=rel)[0]
            mm = run_model("C02", "c02", [langenc.request(b, ctx, "lenient", True)[0]])[0]
            ee = expect(r)
            return ee != mm and ee[:1] == e[:1] and mm[:1] == m[:1]
        small = proggen.shrink(body, still2, budget=150)
        src = proggen.body_src(small)
        if src in seen:
            continue
        seen.add(src)
        mm = run_model("C02", "c02", [langenc.request(small, ctx, "lenient", True)[0]])[0]
        nfi.append(("engine output under auto-escape differs from the reference interpreter (esc = true)",
                    {"theorem_or_correspondence": "Lang/Interp.v (esc = true) vs engine on *.html", "template": src, "name": nm, "context": ctx,
                     "engine": run_prog([req({nm: src}, nm, ctx)], release=rel)[0].get("render"),
                     "reference": ("".join(chr(c) for c in mm[2:]) if mm[:1] == [0] else mm), "ast": repr(small)}))

    log('[C02] part A done %.1fs' % (time.time() - chk.t0))
    # ---------------- part A': wild contexts, engine only ----------------
    nW = 10000 if chk.thorough else 400
    wprogs = []
    for j in range(nW):
        g = make_gen(rng, {"autoescape": False, "strings_with_meta": True, "include": j % 4 == 0}, 2 + rng.below(3), engine_only=True)
        ctx, kinds = evil_context(rng, wild=True)
        nm = HTML_NAMES[j % len(HTML_NAMES)]
        # proggen's include statements name inc0.txt / inc1.txt; a .txt template would start with auto-escaping off
        # (documented: the initial mode follows the included template's own name), so the parts are .html here
        src = proggen.body_src(g.template(kinds)).replace('"inc0.txt"', '"inc0.html"').replace('"inc1.txt"', '"inc1.html"')
        t = {nm: src, "inc0.html": "{{ s }}{{ h }}{% for z in l %}{{ z }}{% endfor %}", "inc1.html": "{{ q|upper }}{% set c %}{{ h }}{% endset %}{{ c }}"}
        wprogs.append((t, nm, ctx))
    # fixed regression templates (the shapes of the recorded seeded changes that this oracle catches), always run
    seed_ctx = {"h": "<a href=\"x\">it's</a>&/", "q": "'\"><", "s": "<b>", "n": 3, "l": ["<i>", "'"], "k": [1], "t": True}
    for src in ["{{ h|upper }}{{ h|lower|capitalize|trim }}{{ (h ~ '')|upper }}{{ h|string|title }}",
                "{% set f %}%s|%s{% endset %}{{ f|format(h, q) }}{{ f|format(l, 1) }}{{ '%s'|format(h) }}",
                "{% set sep %}, {% endset %}{{ [h, q]|join(sep) }}{{ l|join(sep) }}{{ sep|replace(',', h) }}{{ h|replace('a', sep) }}",
                "{% set c %}{{ h }}{% endset %}{{ c ~ [h] }}{{ c ~ {'k': h} }}{{ [c, h] }}{{ c|list|join(q) }}",
                "{% set c %}{{ h }}{% endset %}{{ h|striptags }}{{ c|striptags }}{{ c|truncate(length=6, end=h, leeway=0) }}{{ c|indent(2)|wordwrap(3, wrapstring=q) }}",
                "{% filter default(h, true) %}{% endfilter %}{% filter join(h) %}abc{% endfilter %}{% filter default('<none>', true) %}{% endfilter %}{% filter replace('b', q) %}abc{% endfilter %}",
                "{% for c in h %}{{ c }}{% endfor %}{% set c %}{{ q }}{% endset %}{% for ch in c %}{{ ch }}{% endfor %}{{ c|first }}{{ c|last }}{{ c[1:3] }}"]:
        wprogs.insert(0, ({"seed.html": src}, "seed.html", seed_ctx))
    for rel in (False, True):
        outs = run_prog([req(t, nm, ctx) for t, nm, ctx in wprogs], release=rel)
        for (t, nm, ctx), r in zip(wprogs, outs):
            evaluations += 1
            rr = r.get("render", {})
            if "ok" in rr:
                if not rel:
                    hist["W_render_ok"] += 1
                    if "&lt;" in rr["ok"] or "&#x27;" in rr["ok"] or "&quot;" in rr["ok"] or "&gt;" in rr["ok"]:
                        nontriv.add(("W", t[nm], json.dumps(ctx, sort_keys=True)))
                if has_meta(rr["ok"]) and len(viol) < 5:
                    viol.append(("raw HTML metacharacter from data reaches the output of a template without safe-marking constructs",
                                 {"kind": "program", "templates": t, "main": nm, "context": ctx, "profile": "release" if rel else "debug", "engine": rr}))
            elif "err" in rr:
                if not rel:
                    hist["W_render_err"] += 1
            else:
                crashes_a.append({"template": t[nm], "engine": json.dumps(r)[:160]})

    log('[C02] part W done %.1fs' % (time.time() - chk.t0))
    # ---------------- part B: no double escape ----------------
    nB = 1500 if chk.thorough else 80
    rt_reqs, rt_meta = [], []
    for j in range(nB):
        g = make_gen(rng, {"autoescape": False, "strings_with_meta": True, "break": False}, 1 + rng.below(3), engine_only=True)
        ctx, kinds = evil_context(rng)
        body = proggen.body_src(g.template(kinds))
        if j < 3:
            # fixed regression bodies, always run: raw text with quotes only / with every metacharacter / nothing to escape
            body = ["say \"hi\", it's {{ n }}", "[{{ h }}|{{ q }}|{{ s }}]{{ \"it's\" }}", "plain {{ n }}"][j]
        rt_reqs.append(req({"main.html": body}, "main.html", ctx, True))
        rt_meta.append(("plain", body, ctx, None))
        for lab, t, mainn in wrappers(body):
            rt_reqs.append(req(t, mainn, ctx, True))
            rt_meta.append((lab, body, ctx, t))
    for rel in (False, True):
        outs = run_prog(rt_reqs, release=rel)
        base = None
        for (lab, body, ctx, t), r in zip(rt_meta, outs):
            evaluations += 1
            rr = r.get("render", {})
            if lab == "plain":
                base = rr
                continue
            if "ok" in base:
                if not rel:
                    hist["B_" + lab] += 1
                    if "&" in base["ok"]:
                        nontriv.add(("B", lab, body, json.dumps(ctx, sort_keys=True)))
                if rr != base and len(viol) < 6:
                    viol.append(("printing a captured rendering does not reproduce it byte for byte (via %s)" % lab,
                                 {"kind": "roundtrip", "via": lab, "templates": t, "main": "main.html", "body": body, "context": ctx,
                                  "profile": "release" if rel else "debug", "direct": base, "through_capture": rr}))
    samples.append({"part": "B", "body": rt_meta[0][1], "context": rt_meta[0][2], "wrappers": [w[0] for w in wrappers("BODY")]})

    log('[C02] part B done %.1fs' % (time.time() - chk.t0))
    # ---------------- part D: name -> mode ----------------
    names = name_family(rng, chk.thorough)
    modes = run_model("C02", "c02-mode", [[len(n)] + [ord(c) for c in n] for n in names])
    dreqs, dmeta = [], []
    if not chk.thorough:
        # quick tier: every name the model escapes, one in six of the others
        # quick tier: a fixed core (the shapes of the recorded seeds and of the unit tests) + one in four of the names the
        # model escapes + one in twenty-four of the others
        keep, k, k2 = [], 0, 0
        for n, mo in zip(names, modes):
            if n in CORE_NAMES:
                keep.append((n, mo))
            elif mo[:1] != [0]:
                k2 += 1
                if k2 % 4 == 0:
                    keep.append((n, mo))
            else:
                k += 1
                if k % 24 == 0:
                    keep.append((n, mo))
        names, modes = [x[0] for x in keep], [x[1] for x in keep]
    for n, mo in zip(names, modes):
        if mo[:1] not in ([0], [1], [2]):
            nfi.append(("the name model could not decode a name", {"theorem_or_correspondence": "C02/Runner.v c02-mode", "name": n}))
            continue
        hist["D_model_mode_%s" % ["none", "html", "json"][mo[0]]] += 1
        for lab, t, mainn, cx, gov, want in name_cases(n, mo[0]):
            c2 = {"x": XVAL}; c2.update(cx)
            dreqs.append(req(t, mainn, c2)); dmeta.append((n, mo[0], lab, t, mainn, c2, gov, want))
    name_bad = []
    for rel in ((False, True) if chk.thorough else (False,)):
        douts = run_prog(dreqs, release=rel)
        for (n, mo, lab, t, mainn, c2, gov, want), r in zip(dmeta, douts):
            evaluations += 1
            rr = r.get("render", {})
            if "ok" in rr:
                if not rel:
                    hist["D_rendered"] += 1
                    nontriv.add(("D", n, lab))
                if rr["ok"] != want:
                    name_bad.append((n, mo, lab, t, mainn, c2, gov, want, rr["ok"], rel))
            elif "err" in rr:
                if not rel:
                    hist["D_error"] += 1
            else:
                crashes_a.append({"template": t[mainn], "name": n, "engine": json.dumps(r)[:160]})
    seen_n = set()
    for n, mo, lab, t, mainn, c2, gov, want, got, rel in name_bad:
        if len(seen_n) >= 4 or (n, lab) in seen_n:
            continue
        seen_n.add((n, lab))
        rp = {"kind": "names", "name": n, "model_mode": ["none", "html", "json"][mo], "scenario": lab, "templates": t, "main": mainn, "context": c2,
              "expected": want, "engine": got, "profile": "release" if rel else "debug"}
        if gov == 1 and has_meta(got):
            rp["what"] = "a template whose name ends in an HTML extension is rendered without escaping (%s): %r" % (lab, n)
            viol.append((rp["what"], rp))
        else:
            rp["what"] = "the engine renders %r under another auto-escape mode than the documented name table gives (%s)" % (n, lab)
            nfi.append((rp["what"], dict(rp, theorem_or_correspondence="C02/Names.v default_mode vs default_auto_escape_callback")))
    samples.append({"part": "D", "names": names[:12] + names[len(names) // 2: len(names) // 2 + 6], "scenarios": [c[0] for c in name_cases("x.html", 1)]})
    log('[C02] part D done %.1fs' % (time.time() - chk.t0))

    # ---------------- part E: modes (none / html / json), lexically scoped; error paths; calls on the State ----------------
    okc2, clog3 = cargo_build(["c02"], release=False)
    okr2, clog4 = cargo_build(["c02"], release=True)
    if not (okc2 and okr2):
        chk.violation("harness does not build against the current tree", {"theorem_or_correspondence": "build harness/src/bin/c02.rs", "log": (clog3 + clog4)[-1500:]}, True)
        chk.finish()
    nE = 15000 if chk.thorough else 1500
    ecases = []
    for j in range(nE):
        ninc = rng.below(3)
        g = ModeGen(rng, ninc)
        names = [rng.choice(MAIN_NAMES)] + [INC_NAMES[(j + i) % len(INC_NAMES)] for i in range(ninc)]
        bodies = [g.body(2 + rng.below(3), False, [], [], False, n=3 + rng.below(4), top=True, blocks_ok=True)]
        for i in range(1, ninc + 1):
            bodies.append(g.body(1 + rng.below(2), False, [], [], False, inc_from=i + 1))
        # calls on the State of the finished render: every exported macro (failing ones included) and every block, twice,
        # so that every call also happens after failed ones
        qs = [("macro", nm) for nm, uc in g.exported if not uc] + [("block", nm) for nm in g.block_names]
        ecases.append((names, bodies, (qs + qs)[:12]))
    # the shapes of the recorded seeded changes, always run (C02-A5, B5, A6)
    ecases[:0] = [
        (["main.html"], [[("auto", 4, [("auto", 0, [("print", 9)])])]], []),
        (["main.html"], [[("loop", 2, [("auto", 1, [("continue", 1), ("print", 1)])]), ("print", 24)]], []),
        (["main.html"], [[("loop", 3, [("auto", 3, [("with", [("break", 1)])])]), ("print", 25)]], []),
        (["m.txt"], [[("loop", 2, [("auto", 2, [("continue", 0)])]), ("print", 26)]], []),
        (["main.html"], [[("macro", 1, [("auto", 1, [("print", 2), ("fail",)])]), ("macro", 2, [("print", 5)]), ("attempt", 1), ("print", 10)]], [("macro", 1), ("macro", 2), ("macro", 2)]),
        (["main.html"], [[("macro", 1, [("auto", 3, [("caller",)])]), ("attempt", 1), ("print", 11), ("block", 1, [("print", 12)])]], [("block", 1), ("block", 1)]),
        (["page.xml", "inc_b.txt"], [[("macro", 1, [("auto", 4, [("include", 1), ("fail",)])]), ("attempt", 1), ("print", 13)], [("print", 14)]], [("macro", 1)]),
    ]
    epairs = [mode_case(n_, b_, q_) for n_, b_, q_ in ecases]
    emodel = [split_model(m_) for m_ in run_model("C02", "c02-modes", [c_ for _, c_ in epairs])]
    mode_bad = []
    for rel in (False, True):
        eouts = run_c02([r_ for r_, _ in epairs], release=rel)
        for i, (r, m) in enumerate(zip(eouts, emodel)):
            evaluations += 1
            e = engine_results(r)
            if not rel:
                if m and m[0][:1] == [0]:
                    hist["E_model_ok"] += 1
                    mt = "".join(chr(c) for c in m[0][2:])
                    kinds_seen = set().union(*marker_renderings(mt).values()) if marker_renderings(mt) else set()
                    if len(kinds_seen) >= 2:
                        nontriv.add(("E", i))
                    for k_ in kinds_seen:
                        hist["E_prints_" + k_] += 1
                    if "n/a" in mt or "n&#x2f;a" in mt:
                        hist["E_swallowed_failure_in_render"] += 1
                    hist["E_state_calls"] += len(m) - 1
                    hist["E_state_calls_failing"] += sum(1 for x in m[1:] if x[:1] == [1])
                else:
                    hist["E_model_other_%s" % (m[0][:1] if m else "?")] += 1
            if any(x[:1] == ["crash"] for x in e):
                crashes_a.append({"template": epairs[i][0]["templates"], "engine": str(e)[:160]})
            elif e[:1] != m[:1] or (e[0][:1] == [0] and e != m):
                mode_bad.append((i, rel, e, m))
    txt = lambda x: "".join(chr(c) for c in x[2:]) if x[:1] == [0] else str(x)

    def find_leak(ee, mm):
        """(position, print id): a print the model writes HTML-escaped everywhere but the engine writes otherwise"""
        for j in range(min(len(ee), len(mm))):
            if ee[j][:1] == [0] and mm[j][:1] == [0] and ee[j] != mm[j]:
                er, mr = marker_renderings(txt(ee[j])), marker_renderings(txt(mm[j]))
                for pid, forms in mr.items():
                    if forms == {"html"} and (er.get(pid, set()) - {"html"}):
                        return j, pid
        return None

    mode_bad.sort(key=lambda x: 0 if find_leak(x[2], x[3]) else 1)        # concrete leaks first
    seen_e = 0
    for i, rel, e, m in mode_bad[:20]:
        if seen_e >= 3:
            break
        names, bodies, qs = ecases[i]
        leaky = find_leak(e, m) is not None
        where = next((j for j in range(min(len(e), len(m))) if e[j] != m[j]), 0)

        def bad_now(bs):
            rq, cs = mode_case(names, bs, qs)
            ee = engine_results(run_c02([rq], release=rel)[0]); mm = split_model(run_model("C02", "c02-modes", [cs])[0])
            if leaky:
                return find_leak(ee, mm) is not None
            return len(ee) == len(mm) and len(ee) > where and ee[where] != mm[where] and ee[where][:1] == e[where][:1] and mm[where][:1] == m[where][:1] and ee[:where] == mm[:where]
        cur, progress, budget = list(bodies), True, 250
        while progress and budget > 0:
            progress = False
            for ti in range(len(cur)):
                for v in mode_variants(cur[ti]):
                    budget -= 1
                    if budget <= 0:
                        break
                    cand = cur[:ti] + [v] + cur[ti + 1:]
                    try:
                        if bad_now(cand):
                            cur, progress = cand, True
                            break
                    except Exception:
                        pass
                if progress or budget <= 0:
                    break
        rq, cs = mode_case(names, cur, qs)
        ee = engine_results(run_c02([rq], release=rel)[0]); mm = split_model(run_model("C02", "c02-modes", [cs])[0])
        lk = find_leak(ee, mm)
        w2 = lk[0] if lk else next((j for j in range(min(len(ee), len(mm))) if ee[j] != mm[j]), 0)
        et, mt = txt(ee[w2]), txt(mm[w2])
        rp = {"kind": "modes", "templates": rq["templates"], "main": rq["main"], "context": rq["ctx"], "steps": rq["steps"],
              "expected": [txt(x) for x in mm], "engine": [txt(x) for x in ee], "differs_at": "the render" if w2 == 0 else "call %d on the State (%s)" % (w2, rq["steps"][w2 - 1]),
              "profile": "release" if rel else "debug", "case": cs}
        seen_e += 1
        if lk:
            rp["what"] = "print [%d:..] stands in an HTML auto-escape context but its data is written %s (%s)" % (lk[1], "/".join(sorted(marker_renderings(et)[lk[1]] - {"html"})), rp["differs_at"])
            viol.append((rp["what"], rp))
        else:
            rp["what"] = "the engine and the mode model (C02/Modes.v) disagree on %s" % rp["differs_at"]
            nfi.append((rp["what"], dict(rp, theorem_or_correspondence="C02/Modes.v run_modes / run_query vs engine")))
    samples.append({"part": "E", "templates": epairs[0][0]["templates"], "main": epairs[0][0]["main"]})
    log('[C02] part E done %.1fs' % (time.time() - chk.t0))

    # ---------------- part C: filter sweep ----------------
    names = filter_names()
    singles = sweep_cases(names, rng, chk.thorough)
    sreqs = [req({"t.html": sweep_template(tpl)}, "t.html", SWEEP_CTX) for _, tpl in singles]
    souts = run_prog(sreqs, release=False)
    good_single = []
    leaks = []
    crashes = []      # a panic / hang produces no output: not an escaping violation (C01's business); reported in the evidence notes
    for (fs, tpl), r in zip(singles, souts):
        evaluations += 1
        rr = r.get("render", {})
        if "ok" in rr:
            hist["C_single_ok"] += 1
            good_single.append((fs, tpl))
            nontriv.add(("C", tpl))
            if has_meta(rr["ok"]) and not (set(fs) & MARKUP_FILTERS):
                leaks.append((fs, tpl, rr["ok"]))
        elif "err" in rr:
            hist["C_single_rejected"] += 1
        else:
            crashes.append({"expression": tpl, "engine": json.dumps(r)[:160]})
    hist["C_filters"] = len(names)
    # block form of every filter: {% filter f(args) %}BODY{% endfilter %} must print exactly what the expression form prints
    # on the captured body ({% set zb %}BODY{% endset %}{{ zb|f(args) }}), and no raw metacharacter from an argument
    FB_BODIES = ["", "abc", "{{ x }}", "a {{ cap }} b", "  {{ y }}-{{ n }}  "] if chk.thorough else ["", "abc", "{{ x }} {{ cap }}"]
    fb_cases = []
    for f in names:
        for a in ARGS + ["(x, true)", "('<none>', true)", "(y)", "(fmt)", "('%s', x)", "(sep, x)"]:
            for bi, bd in enumerate(FB_BODIES):
                blk = SWEEP_PRELUDE + "[{% filter " + f + a + " %}" + bd + "{% endfilter %}]"
                exp = SWEEP_PRELUDE + "{% set zb %}" + bd + "{% endset %}[{{ zb|" + f + a + " }}]"
                fb_cases.append((f, a, bd, blk, exp))
    if not chk.thorough:
        fb_cases = [c_ for i_, c_ in enumerate(fb_cases) if i_ % 3 == 0 or c_[1] in ("", "(x)", "(x, true)", "('<none>', true)", "(x, y)", "(sep)")]
    fb_reqs = []
    for f, a, bd, blk, exp in fb_cases:
        fb_reqs.append(req({"t.html": blk}, "t.html", SWEEP_CTX))
        fb_reqs.append(req({"t.html": exp}, "t.html", SWEEP_CTX))
    fb_bad = []
    for rel in ((False, True) if chk.thorough else (False,)):
        fb_out = run_prog(fb_reqs, release=rel)
        for ci, (f, a, bd, blk, exp) in enumerate(fb_cases):
            evaluations += 1
            rb, re_ = fb_out[2 * ci].get("render", {}), fb_out[2 * ci + 1].get("render", {})
            if "ok" in rb:
                hist["C_filter_block_ok"] += 1
                nontriv.add(("C-block", f, a, bd))
                if "ok" in re_ and rb["ok"] != re_["ok"]:
                    fb_bad.append((f, a, bd, blk, exp, rb["ok"], re_["ok"]))
                elif has_meta(rb["ok"]) and f not in MARKUP_FILTERS:
                    fb_bad.append((f, a, bd, blk, None, rb["ok"], None))
            elif "err" in rb:
                hist["C_filter_block_rejected"] += 1
            else:
                crashes.append({"expression": blk, "engine": json.dumps(fb_out[2 * ci])[:160]})
    seen_fb = set()
    for f, a, bd, blk, exp, got, want in fb_bad:
        if f in seen_fb or len(seen_fb) >= 4:
            continue
        seen_fb.add(f)
        leak = has_meta(got) and f not in MARKUP_FILTERS
        what = ("a filter block lets a raw HTML metacharacter from unsafe data through: {%% filter %s%s %%}" % (f, a)) if leak else \
               ("{%% filter %s%s %%} prints something else than the same filter applied to the captured body" % (f, a))
        rp = {"kind": "filterblock", "templates": {"t.html": blk}, "main": "t.html", "context": SWEEP_CTX, "expression_form": exp,
              "engine": got, "expression_form_prints": want, "leak": leak}
        if leak or want is not None:
            viol.append((what, rp))
    log('[C02] filter blocks done %.1fs' % (time.time() - chk.t0))
    # pairs: every successful single invocation followed by every filter in a few argument shapes
    per = collections.OrderedDict()
    for fs, tpl in good_single:
        per.setdefault((fs[0], tpl.split("|")[0]), []).append(tpl)
    firsts = []
    for key, tpls in per.items():
        firsts += tpls[: (4 if chk.thorough else 2)]
    pair_args = ["", "(x)", "(cap)", "(n)", "(x, y)", "(cap, x)", "(sep)", "('upper')", "(length=6, end=x, leeway=0)"]
    pairs = []
    for tpl in firsts:
        inner = tpl[3:-3]
        f1 = inner.split("|")[1].split("(")[0]
        for g in names:
            for a in pair_args:
                pairs.append(((f1, g), "{{ %s|%s%s }}" % (inner, g, a)))
    cap = 400000 if chk.thorough else 8000
    if len(pairs) > cap:
        step = len(pairs) / float(cap)
        pairs = [pairs[int(i * step)] for i in range(cap)]
    preqs = [req({"t.html": sweep_template(tpl)}, "t.html", SWEEP_CTX) for _, tpl in pairs]
    for rel in ((False, True) if chk.thorough else (True,)):
        pouts = run_prog(preqs, release=rel)
        for (fs, tpl), r in zip(pairs, pouts):
            evaluations += 1
            rr = r.get("render", {})
            if "ok" in rr:
                if rel:
                    hist["C_pair_ok"] += 1
                    nontriv.add(("C", tpl))
                if has_meta(rr["ok"]) and not (set(fs) & MARKUP_FILTERS):
                    leaks.append((fs, tpl, rr["ok"]))
            elif "err" not in rr:
                crashes.append({"expression": tpl, "engine": json.dumps(r)[:160]})
    seenf = set()
    for fs, tpl, out in leaks:
        key = fs
        if key in seenf or len(seenf) >= 6:
            continue
        seenf.add(key)
        known = chk.match_known(lambda k: k["match"].get("filters") == list(fs))
        if known:
            chk.known_finding(known["id"], known["what"])
            continue
        viol.append(("a filter lets a raw HTML metacharacter from unsafe data through under auto-escape: %s" % "|".join(fs),
                     {"kind": "sweep", "templates": {"t.html": sweep_template(tpl)}, "main": "t.html", "context": SWEEP_CTX, "expression": tpl, "engine": out}))
    if len(names) < 40:
        nfi.append(("the list of registered filters could not be read from the tree", {"theorem_or_correspondence": "tools/props/C02.py filter_names()", "found": names}))
    samples.append({"part": "C", "filters": names, "example": sweep_template(singles[len(singles) // 2][1]), "context": SWEEP_CTX})

    log('[C02] part C done %.1fs' % (time.time() - chk.t0))
    # kernel cross-check of the extracted interpreter (esc = true) on small programs
    small = sorted(range(len(cases)), key=lambda i: len(cases[i]))[:10]
    kern = kernel_eval("run", [cases[i] for i in small], "k_C02", imports="Common.Base C03.Runner")
    kern_ok = kern is not None and all(kern[j] == model[small[j]] for j in range(len(small)))

    chk.cov["evaluations"] = evaluations
    chk.cov["distinct_nontrivial"] = len(nontriv)
    chk.cov["rule"] = ("A: typed random programs (depth 2-4, metacharacter string literals, map literals / lookups / loops over maps and |items / printing of whole maps and lists / unpacking set and with) x contexts of metacharacter strings - also as values, nested values and keys of the map variables - under 5 auto-escaped template names, engine (debug+release) vs "
                       "extracted interpreter with esc=true, plus the no-raw-metacharacter oracle on the engine output; A': same oracle, wild contexts (metacharacter strings/lists in every variable, "
                       "html includes); B: generated bodies printed through 15 capture routes vs direct; C: every registered filter x 12 operands x 21 argument shapes, then pairs; D: a family of template names (prefix x extension x ignored-suffix shapes incl. empty stems, upper case, trailing dots, NUL, backslash, non-ASCII, plus random names) "
                       "rendered directly and through include / extends / import from a template of another mode, compared with the proved name->mode model; E: random programs of nested autoescape blocks (true / false / 'html' / 'none' / 'json') x for with continue/break x with x set-block x macro x call block x include under all template modes, prints before / inside / after, engine vs the three-mode model C02/Modes.v byte for byte. "
                       "non-trivial = distinct case that renders without error and (A, A') whose output contains an escaped metacharacter entity, (B) whose body output contains an entity, (C) every accepted filter invocation")
    chk.cov["samples"] = samples
    chk.cov["distribution"] = dict(hist)
    chk.cov["part_A_programs_in_theorem_fragment"] = in_fragment
    chk.cov["part_A_programs"] = nA
    chk.cov["engine_vs_interpreter_disagreements"] = len(mism)
    chk.cov["kernel_crosscheck"] = {"cases": len(small), "agree": kern_ok}
    if crashes or crashes_a:
        chk.notes["crashes_not_counted_as_escaping_violations"] = {"count": len(crashes) + len(crashes_a), "examples": (crashes_a + crashes)[:5]}
    for what, rp in viol[:6]:
        chk.violation(what, rp)
    if not viol:
        for what, rp in nfi[:2]:
            chk.violation(what, rp, True)
        if in_fragment < nA:
            chk.violation("generator left the theorem's fragment", {"theorem_or_correspondence": "safe_free / data context on generated programs", "in_fragment": in_fragment, "of": nA}, True)
        if hist["A_output_has_escaped_metachar"] < nA // 4:
            chk.violation("generator degenerated: too few programs print metacharacter data", {"theorem_or_correspondence": "tools/props/C02.py distribution", "count": hist["A_output_has_escaped_metachar"]}, True)
        if not kern_ok:
            chk.violation("kernel evaluation disagrees with the extracted interpreter", {"theorem_or_correspondence": "vm_compute cross-check of extraction"}, True)
        if not proofs_ok:
            chk.violation("proof obligations of C02 do not check", {"theorem_or_correspondence": chk.proof["problems"]}, True)
    chk.finish()


if __name__ == "__main__":
    main()
