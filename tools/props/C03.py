#!/usr/bin/env python3
"""C03 - core language constructs render according to the documented semantics (DESIGN.md §3 C03).

Three artefacts are tied together on every run, on the same generated programs:
  * the reference interpreter (coq/theories/Lang/Interp.v, extracted) - the property's oracle: the engine
    must render every generated core-fragment program exactly as the interpreter does;
  * the model compiler (coq/theories/L2/Compile.v, extracted runner c03-compile): its instruction stream
    must be the stream the real compiler emits for the same program, opcode by opcode including jump
    targets and constants (the sufficient link that lets compile_expr_correct / compile_stmts_correct /
    compile_correct / compile_error speak about the real code);
  * the model VM (coq/theories/L2/Vm.v, runner c03-vm) on the model stream: three-way agreement
    VM = interpreter = engine, also on what the simulation proofs do not cover (outside the Lang syntax).
A stream mismatch where rendering still agrees (also under extra contexts) and C05's verified checker
accepts the real stream is a harmless codegen rewrite: reported (`stream_mismatch`), not a violation."""
import os, sys, collections
sys.path.insert(0, os.path.dirname(os.path.dirname(os.path.abspath(__file__))))
from vlib import *
import proggen, langenc, absinstr


def expect(r):
    rr = r.get("render", r)
    if "ok" in rr:
        return [0, len(rr["ok"])] + [ord(c) for c in rr["ok"]]
    if "err" in rr:
        return [1, rr["err"]]
    return ["crash", json.dumps(r)[:200]]


def count_nodes(body):
    n = 0
    for s in body:
        n += 1
        for b in proggen._sub_bodies(s):
            n += count_nodes(b)
    return n


def kinds_in(body, acc):
    for s in body:
        acc[s[0]] += 1
        if s[0] == "for":
            if s[3] is not None: acc["for_filter"] += 1
            if s[5] is not None: acc["for_else"] += 1
        for b in proggen._sub_bodies(s):
            kinds_in(b, acc)


# ================================================================================================
# L2: the parser's view of a proggen AST (what the real compiler is given for the printed source)
# ================================================================================================
def pv_expr(e):
    t = e[0]
    if t == "int":          # `-3` is parsed as Neg(Const 3)
        return e if e[1] >= 0 else ("neg", ("int", -e[1]))
    if t in ("str", "bool", "none", "var"):
        return e
    if t == "list": return ("list", [pv_expr(x) for x in e[1]])
    if t in ("neg", "not"): return (t, pv_expr(e[1]))
    if t == "bin": return ("bin", e[1], pv_expr(e[2]), pv_expr(e[3]))
    if t == "cmp": return ("cmp", pv_expr(e[1]), [(o, pv_expr(r)) for o, r in e[2]])
    if t in ("and", "or"): return (t, pv_expr(e[1]), pv_expr(e[2]))
    if t == "ifexpr": return ("ifexpr", pv_expr(e[1]), pv_expr(e[2]), None if e[3] is None else pv_expr(e[3]))
    if t == "item": return ("item", pv_expr(e[1]), pv_expr(e[2]))
    if t == "attr": return ("attr", pv_expr(e[1]), e[2])
    if t == "filter": return ("filter", e[1], pv_expr(e[2]), [pv_expr(a) for a in e[3]])
    if t == "test": return ("test", e[1], pv_expr(e[2]), [pv_expr(a) for a in e[3]], e[4])
    if t == "call": return ("call", e[1], [pv_expr(a) for a in e[2]], [(k, pv_expr(v)) for k, v in e[3]])
    if t == "map": return ("map", [(pv_expr(k), pv_expr(v)) for k, v in e[1]])
    raise ValueError(t)


def pv_body(b):
    out = []
    for s in b:
        s = pv_stmt(s)
        if s[0] == "raw":       # adjacent template data is one EmitRaw, empty data none
            if s[1] == "":
                continue
            if out and out[-1][0] == "raw":
                out[-1] = ("raw", out[-1][1] + s[1])
                continue
        out.append(s)
    return out


def pv_stmt(s):
    t = s[0]
    if t == "raw": return s
    if t == "emit": return ("emit", pv_expr(s[1]))
    if t == "if": return ("if", [(pv_expr(c), pv_body(b)) for c, b in s[1]], None if s[2] is None else pv_body(s[2]))
    if t == "for": return ("for", s[1], pv_expr(s[2]), None if s[3] is None else pv_expr(s[3]), pv_body(s[4]),
                           None if s[5] is None else pv_body(s[5]), s[6])
    if t == "set": return ("set", s[1], pv_expr(s[2]))
    if t == "setblock": return ("setblock", s[1], pv_body(s[2]), s[3])
    if t == "with": return ("with", [(n, pv_expr(e)) for n, e in s[1]], pv_body(s[2]))
    if t == "macro": return ("macro", s[1], s[2], [(p, pv_expr(d)) for p, d in s[3]], pv_body(s[4]))
    if t == "callblock": return ("callblock", s[1], [pv_expr(a) for a in s[2]], pv_body(s[3]))
    if t == "filterblock": return ("filterblock", s[1], pv_body(s[2]))
    if t == "autoescape": return ("autoescape", pv_expr(s[1]), pv_body(s[2]))
    if t in ("break", "continue"): return s
    raise ValueError(t)


# ================================================================================================
# L2: canonical form of instruction streams (model: integers of the c03-compile runner; real: JSON)
# ================================================================================================
REV_FILTERS = {v: k for k, v in langenc.FILTERS.items()}
REV_TESTS = {v: k for k, v in langenc.TESTS.items()}
REV_ATTRS = {v: k for k, v in langenc.ATTRS.items()}
BINNAMES = ["Add", "Sub", "Mul", "IntDiv", "Rem", "StringConcat"]
CMPNAMES = ["Eq", "Ne", "Lt", "Lte", "Gt", "Gte", "In", "NotIn"]
MAX_LOCALS = 50       # instructions.rs


def cv(v):
    """canonical constant from the JSON of a LoadConst (none and both undefineds serialize as null)"""
    if v is None: return ("null",)
    if isinstance(v, bool): return ("b", v)
    if isinstance(v, int): return ("i", v)
    if isinstance(v, str): return ("s", v)
    if isinstance(v, list): return ("l", tuple(cv(x) for x in v))
    if isinstance(v, dict): return ("m", tuple(sorted((k, cv(x)) for k, x in v.items())))      # JSON object keys are strings
    return ("?", json.dumps(v))


def dec_value(a, i):
    t = a[i]
    if t in (0, 7, 1): return ("null",), i + 1
    if t == 2: return ("b", a[i + 1] != 0), i + 2
    if t == 3: return ("i", a[i + 1]), i + 2
    if t == 4:
        n = a[i + 1]
        return ("s", "".join(chr(c) for c in a[i + 2:i + 2 + n])), i + 2 + n
    if t == 5:
        n = a[i + 1]; i += 2; out = []
        for _ in range(n):
            v, i = dec_value(a, i); out.append(v)
        return ("l", tuple(out)), i
    if t == 6:
        n = a[i + 1]; i += 2; out = []
        for _ in range(n):
            k, i = dec_value(a, i); v, i = dec_value(a, i)
            # serde_json prints every key as a string
            ks = k[1] if k[0] == "s" else str(k[1]) if k[0] == "i" else ("true" if k[1] else "false") if k[0] == "b" else "null"
            out.append((ks, v))
        return ("m", tuple(sorted(out))), i
    return ("?", t), i + 1


def sort_enclose(s):
    """find_macro_closure returns a HashSet: the order within a run of Enclose instructions is arbitrary"""
    out = []; i = 0
    while i < len(s):
        if s[i][0] == "Enclose":
            j = i
            while j < len(s) and s[j][0] == "Enclose": j += 1
            out.extend(sorted(s[i:j])); i = j
        else:
            out.append(s[i]); i += 1
    return out


def model_stream(line, N):
    """canonical tuples from the output of the c03-compile runner ([0; n; (opcode; k; a1..ak)*]).
    The LocalId of ApplyFilter / PerformTest is recomputed here as codegen.rs::get_local_id does:
    rank of the first occurrence of the name, in stream order."""
    if line[:1] != [0]:
        return None
    n = line[1]; i = 2; out = []
    nm = lambda x: N.rev.get(x, "?%d" % x)
    fseen, tseen = [], []

    def local(seen, name):
        if name in seen: return seen.index(name)
        if len(seen) >= MAX_LOCALS: return 255
        seen.append(name); return len(seen) - 1
    simple = {5: "GetItem", 14: "Neg", 16: "Not", 20: "Emit", 22: "PushWith", 24: "PushDidNotIterate", 25: "PopFrame",
              26: "PopLoopFrame", 31: "PushAutoEscape", 32: "PopAutoEscape", 34: "EndCapture", 36: "DupTop",
              37: "DiscardTop", 38: "Swap", 40: "Return", 41: "IsUndefined", 43: "GetClosure"}
    onearg = {10: "BuildKwargs", 12: "UnpackList", 44: "BuildMap", 21: "PushLoop", 23: "Iterate", 27: "Jump", 28: "JumpIfFalse",
              29: "JumpIfFalseOrPop", 30: "JumpIfTrueOrPop"}
    for _ in range(n):
        op, k = line[i], line[i + 1]; a = line[i + 2:i + 2 + k]; i += 2 + k
        if op in simple: out.append((simple[op],))
        elif op in onearg: out.append((onearg[op], a[0]))
        elif op == 1: out.append(("EmitRaw", "".join(chr(c) for c in a)))
        elif op == 2: out.append(("StoreLocal", nm(a[0])))
        elif op == 3: out.append(("Lookup", nm(a[0])))
        elif op == 4: out.append(("GetAttr", langenc.attr_name(a[0])))
        elif op == 6: out.append(("LoadConst", dec_value(a, 0)[0]))
        elif op == 7: out.append(("LoadConst", ("s", nm(a[0]))))
        elif op == 8:
            cnt = a[0]; j = 1; d = {}
            for _ in range(cnt):
                key = nm(a[j]); v, j = dec_value(a, j + 1); d[key] = v
            out.append(("LoadConst", ("m", tuple(sorted(d.items())))))
        elif op == 9: out.append(("LoadConst", ("l", tuple(("s", nm(x)) for x in a))))
        elif op == 11: out.append(("BuildList", a[0] if a else None))
        elif op == 13: out.append((BINNAMES[a[0]],))
        elif op == 15: out.append((CMPNAMES[a[0]],))
        elif op == 17: out.append(("CompareAndPreserve", CMPNAMES[a[0]]))
        elif op == 18:
            f = REV_FILTERS.get(a[0], "?filter"); out.append(("ApplyFilter", f, a[1], local(fseen, f)))
        elif op == 19:
            f = REV_TESTS.get(a[0], "?test"); out.append(("PerformTest", f, a[1], local(tseen, f)))
        elif op == 33: out.append(("BeginCapture", "Capture"))
        elif op == 35: out.append(("CallFunction", nm(a[0]), a[1]))
        elif op == 39: out.append(("BuildMacro", nm(a[0]), a[1], a[2]))
        elif op == 42: out.append(("Enclose", nm(a[0])))
        else: out.append(("?op", op))
    return sort_enclose(out)


def real_stream(js):
    out = []
    for ins in js:
        op = ins["op"]; a = ins.get("arg")
        if op == "LoadConst": out.append((op, cv(a)))
        elif "arg" not in ins: out.append((op,))
        elif isinstance(a, list): out.append((op,) + tuple(a))
        else: out.append((op, a))
    return sort_enclose(out)


def first_diff(a, b):
    for i in range(max(len(a), len(b))):
        x = a[i] if i < len(a) else None
        y = b[i] if i < len(b) else None
        if x != y:
            return {"index": i, "model": repr(x), "real": repr(y)}
    return None


def c05_accepts(instrs):
    """verdict of C05's Coq-verified balance checker on a real stream (with its alternative typings)"""
    ok, _ = build_models("C05")
    if not ok:
        return None
    try:
        cases = [absinstr.encode(instrs)] + [absinstr.encode(instrs, t) for t in list(absinstr.typings(instrs))[1:]]
    except ValueError:
        return False
    return any(r[:1] == [1] for r in run_model("C05", "c05", cases))


def gen_expr_cases(chk, n):
    """standalone expressions `{{ e }}` (all four undefined modes, variables that may be undefined)"""
    out = []
    modes = ["lenient", "strict", "semistrict", "chainable"]
    for j in range(n):
        g = proggen.Gen(chk.rng, {"undefined": 12 if j % 2 else 0}, max_depth=4)
        ctx, kinds = proggen.default_context(chk.rng)
        d = 2 + chk.rng.below(3)
        c = chk.rng.below(5)
        if c == 0: e = g.int_expr(kinds, d)
        elif c == 1: e = g.str_expr(kinds, d)
        elif c == 2: e = ("filter", "length", g.list_expr(kinds, d), [])
        else: e = g.bool_expr(kinds, d)
        out.append(([("emit", e)], ctx, modes[j % 4] if j % 3 else "lenient"))
    return out


# ================================================================================================
# families written for histories the random generator does not produce
# ================================================================================================
def sibling_family():
    """Several macros declared in one scope share free names; one of them re-binds such a name locally
    (set, set-block, a parameter of that name, a parameter default, with, loop target, a call block's
    caller) and AFTERWARDS the other macros - which read the name free - are called, directly, from
    a call block, or after a recursive call.  What the reader renders must not depend on which
    macros ran before (assignments inside macros are invisible outside).  Returns (body, ctx) pairs."""
    X = "x"
    rd = [("raw", "["), ("emit", ("var", X)), ("raw", "]")]
    out = []
    binders = {
        # name -> (params, defaults, body of the binder, call arguments)
        "set":      (["n"], [], [("set", X, ("int", 1)), ("emit", ("var", "n")), ("emit", ("var", X))], [("int", 7)]),
        "set_if":   (["n"], [], [("if", [(("var", "n"), [("set", X, ("int", 2))])], None), ("emit", ("var", X))], [("int", 7)]),
        "setblock": (["n"], [], [("setblock", X, [("raw", "sb")], None), ("emit", ("var", X))], [("int", 7)]),
        "param":    ([X], [], [("emit", ("var", X)), ("emit", ("var", X))], [("str", "a")]),
        "default":  ([X], [(X, ("int", 3))], [("emit", ("var", X))], []),
        "with":     (["n"], [], [("with", [(X, ("int", 4))], [("emit", ("var", X))])], [("int", 7)]),
        "loop":     (["n"], [], [("for", X, ("list", [("int", 5), ("int", 6)]), None, [("emit", ("var", X))], None, False)], [("int", 7)]),
        "set_calls_reader": (["n"], [], [("set", X, ("int", 8)), ("emit", ("call", "show", [], []))], [("int", 7)]),
    }
    for bname, (params, defaults, bbody, cargs) in binders.items():
        for own_free in (False, True):                 # the binder reads another outer name itself
            fb = list(bbody) + ([("emit", ("var", "y"))] if own_free else [])
            for reader_first in (True, False):
                show = ("macro", "show", [], [], list(rd))
                fill = ("macro", "fill", params, defaults, fb)
                decls = [show, fill] if reader_first else [fill, show]
                call_show = ("emit", ("call", "show", [], []))
                call_fill = ("emit", ("call", "fill", cargs, []))
                uses = {
                    "plain": [call_show, call_fill, call_show, call_fill, call_show],
                    "callblock": [call_show,
                                  ("callblock", "fill", cargs, [("raw", "cb")]),
                                  call_show],
                    "from_caller": [("macro", "wrap", [], [], [("raw", "("), ("emit", ("call", "caller", [], [])), ("raw", ")")]),
                                    call_fill,
                                    ("callblock", "wrap", [], [call_show]),
                                    call_show],
                }
                for uname, use in uses.items():
                    if uname == "callblock":        # the binder is called with a call block: it takes (and calls) its caller
                        fillc = ("macro", "fill", params, defaults, fb + [("emit", ("call", "caller", [], []))])
                        decls = [show, fillc] if reader_first else [fillc, show]
                    else:
                        decls = [show, fill] if reader_first else [fill, show]
                    for outer in ("ctx", "set_before", "set_after", "with", "loop", "in_macro"):
                        core = decls + use
                        if outer == "ctx":
                            prog = core + list(rd)
                        elif outer == "set_before":
                            prog = [("set", X, ("str", "o")), ("set", "y", ("str", "p"))] + core + list(rd)
                        elif outer == "set_after":
                            prog = decls + [("set", X, ("str", "o"))] + use + list(rd)
                        elif outer == "with":
                            prog = [("with", [(X, ("str", "w"))], core + list(rd))] + list(rd)
                        elif outer == "loop":
                            prog = [("for", "i", ("list", [("int", 1), ("int", 2)]), None, core + list(rd), None, False)]
                        else:                           # the macros are declared inside a macro body
                            prog = [("macro", "outerm", ["q"], [], [("set", X, ("var", "q"))] + core + list(rd)),
                                    ("emit", ("call", "outerm", [("str", "m")], [])),
                                    ("emit", ("call", "outerm", [("str", "k")], []))] + list(rd)
                        for ctx in ({"x": 42, "y": "Y"}, {}):
                            out.append((prog, ctx))
    # recursion: the caller of a call block placed after the recursive call sees the arguments of its own invocation
    wrap = ("macro", "wrap", [], [], [("raw", "("), ("emit", ("call", "caller", [], [])), ("raw", ")")])
    for after in (True, False):
        for rebinding in ("none", "set", "with"):
            rec = ("emit", ("call", "down", [("bin", "-", ("var", "n"), ("int", 1))], []))
            cb_body = [("emit", ("var", "n"))] + ([("emit", ("var", "t"))] if rebinding != "none" else [])
            cb = ("callblock", "wrap", [], cb_body)
            inner = [rec, cb] if after else [cb, rec]
            if rebinding == "set":
                inner = [("set", "t", ("bin", "*", ("var", "n"), ("int", 10)))] + inner
            elif rebinding == "with":
                inner = [("with", [("t", ("bin", "*", ("var", "n"), ("int", 10)))], inner)]
            down = ("macro", "down", ["n"], [], [("if", [(("cmp", ("var", "n"), [(">", ("int", 0))]), inner)], None)])
            peek = ("macro", "peek", [], [], [("raw", "<"), ("emit", ("var", "n")), ("emit", ("var", "t")), ("raw", ">")])
            for order in (0, 1):
                decls = [wrap, down, peek] if order == 0 else [peek, wrap, down]
                prog = decls + [("emit", ("call", "peek", [], [])), ("emit", ("call", "down", [("int", 3)], [])),
                                ("emit", ("call", "peek", [], []))]
                for ctx in ({}, {"n": "N", "t": "T"}):
                    out.append((prog, ctx))
    return out


def loop_and_rebinding_family():
    """(a) `loop` read where no loop of its own is in scope: in the FILTER of an inner loop it is the
    enclosing loop (the accumulate loop of a filtered for has no loop variable), at top level it is
    undefined; also in the iterated expression, in the else part, and in a macro called from a loop.
    (b) one name called twice in one activation while bound to different callables: re-declared between
    the calls (plainly, in an if-branch, in a with-block inside a loop), a loop target / set variable
    holding different macros, a parameter receiving macros; at template level and inside macro bodies.
    Returns (body, ctx) pairs."""
    out = []
    L = lambda f: ("attr", ("var", "loop"), f)
    fields = ["index", "index0", "revindex", "revindex0", "first", "last", "length"]
    xs = ("list", [("int", 1), ("int", 2), ("int", 3)])
    for k, f in enumerate(fields):
        if f in ("first", "last"):
            cond = L(f) if k % 2 else ("not", L(f))
        else:
            cond = ("cmp", L(f), [([">", "<", ">=", "!="][k % 4], ("int", 1 + k % 2))])
        inner_body = [("emit", ("var", "y")), ("raw", "."), ("emit", L("index")), ("emit", L("length")), ("raw", " ")]
        for ys in (("list", [("int", 7), ("int", 8)]), ("var", "ys"), ("list", [])):
            for els in (None, [("raw", "E"), ("emit", L(f))]):
                inner = ("for", "y", ys, cond, inner_body, els, False)
                # filter of an inner loop reads the outer loop; same filter at top level (loop undefined there)
                out.append(([("for", "x", xs, None, [("emit", ("var", "x")), ("raw", ":"), inner, ("raw", ";")], None, False)], {"ys": [4, 5, 6]}))
                out.append(([inner], {"ys": [4, 5, 6]}))
                # two levels: the filter of the innermost loop sees the middle loop, not the outer one
                mid = ("for", "z", ("list", [("int", 5), ("int", 6)]), None, [inner, ("raw", "|")], None, False)
                out.append(([("for", "x", xs, None, [mid, ("raw", ";")], None, False)], {"ys": [4, 5, 6]}))
                # the filtered loop inside a with / set-block / if inside the outer loop
                out.append(([("for", "x", xs, None, [("with", [("w", L("index"))], [inner, ("emit", ("var", "w"))]),
                                                      ("setblock", "sb", [inner], None), ("emit", ("var", "sb"))], None, False)], {"ys": [4, 5, 6]}))
        # the filter reads both the outer loop and the item; the iterated expression reads the outer loop
        inner2 = ("for", "y", ("list", [L("index"), ("int", 2), L("length")]), ("cmp", ("var", "y"), [("!=", L("index"))]),
                  [("emit", ("var", "y")), ("emit", L(f))], None, False)
        out.append(([("for", "x", xs, None, [inner2, ("raw", ";")], None, False)], {}))
        # a macro called from a loop body (and from a loop filter) does not see the loop
        m = ("macro", "m", ["v"], [], [("emit", ("var", "v")), ("emit", ("test", "defined", ("var", "loop"), [], False))])
        out.append(([m, ("for", "x", xs, ("cmp", ("filter", "length", ("call", "m", [("var", "x")], []), []), [(">", ("int", 0))]),
                         [("emit", ("call", "m", [L(f)], []))], None, False)], {}))
    # ---- (b) ----
    def mac(name, txt, params=()):
        return ("macro", name, list(params), [], [("raw", txt)] + [("emit", ("var", q)) for q in params])
    call = lambda n, *a: ("emit", ("call", n, list(a), []))
    A, Bm = mac("a", "A"), mac("b", "B")
    scenarios = {
        "redeclared": [mac("f", "1"), call("f"), mac("f", "2"), call("f"), call("f")],
        "redeclared_if": [mac("f", "1"), call("f"), ("if", [(("var", "c"), [mac("f", "2")])], None), call("f")],
        "redeclared_in_branch": [mac("f", "1"), ("if", [(("var", "c"), [call("f"), mac("f", "2"), call("f")])], [call("f")]), call("f")],
        "with_in_loop": [("for", "i", ("list", [("int", 1), ("int", 2), ("int", 3)]), None,
                          [("with", [("w", ("var", "i"))], [("macro", "f", [], [], [("raw", "<"), ("emit", ("var", "w")), ("raw", ">")]), call("f")])], None, False)],
        "loop_redeclares": [mac("f", "0"), ("for", "i", ("list", [("int", 1), ("int", 2)]), None,
                             [call("f"), ("macro", "f", [], [], [("emit", ("var", "i"))]), call("f")], None, False), call("f")],
        "loop_target": [A, Bm, ("for", "f", ("list", [("var", "a"), ("var", "b"), ("var", "a")]), None, [call("f"), call("f")], None, False)],
        "set_variable": [A, Bm, ("set", "f", ("var", "a")), call("f"), ("set", "f", ("var", "b")), call("f"), ("set", "f", ("var", "a")), call("f")],
        "set_in_loop": [A, Bm, ("for", "i", ("list", [("int", 1), ("int", 2), ("int", 3)]), None,
                         [("set", "f", ("ifexpr", ("cmp", ("var", "i"), [("==", ("int", 2))]), ("var", "b"), ("var", "a"))), call("f")], None, False)],
        "parameter": [A, Bm, ("macro", "ap", ["f"], [], [call("f"), call("f")]), call("ap", ("var", "a")), call("ap", ("var", "b")), call("ap", ("var", "a"))],
        "with_rebinds": [A, Bm, ("with", [("f", ("var", "a"))], [call("f"), ("with", [("f", ("var", "b"))], [call("f")]), call("f")])],
        "args_differ": [mac("f", "1", ("p",)), call("f", ("int", 1)), mac("f", "2", ("p", "q")), call("f", ("int", 1), ("int", 2)), call("f", ("int", 3))],
        "callblock_redeclared": [("macro", "f", [], [], [("raw", "("), ("emit", ("call", "caller", [], [])), ("raw", ")")]),
                                 ("callblock", "f", [], [("raw", "x")]),
                                 ("macro", "f", [], [], [("raw", "["), ("emit", ("call", "caller", [], [])), ("raw", "]")]),
                                 ("callblock", "f", [], [("raw", "y")]), ("callblock", "f", [], [("raw", "z")])],
        "shadowed_by_value": [mac("f", "1"), call("f"), ("with", [("f", ("var", "a"))], [call("f")]), call("f")],
    }
    for name, prog in scenarios.items():
        for cval in (True, False):
            pre = [A] if name == "shadowed_by_value" else []
            out.append((pre + prog, {"c": cval}))
            # the same history inside one macro activation, run twice
            out.append((pre + [("macro", "outerm", ["c"], [], prog), call("outerm", ("bool", cval)), call("outerm", ("bool", not cval))], {}))
            # ... and inside a loop body
            out.append((pre + [("for", "r", ("list", [("int", 1), ("int", 2)]), None, prog + [("raw", ";")], None, False)], {"c": cval}))
    return out


def map_family():
    """Maps and unpacking assignment, construct by construct (the random generator covers their combinations):
    literals (duplicate keys, int / bool / string keys: key identity is the map's ORDER, not ==), printing of
    nested maps and lists (quotes, escapes, undefined / none / bool items), attribute and subscript access
    (present / missing / on a missing key / undefined subject), `in`, iteration (keys in key order, loop.*,
    else, filter, |items with an unpacking target), filters and tests applied to maps, truthiness, equality,
    operators that refuse maps, auto-escaping of printed maps, maps through set-blocks and macro arguments,
    unpacking set / with (swap, map keys, wrong length, non-sequences, in the with the later assignments see
    the earlier ones).  Returns (body, ctx) pairs; every one is run under all four undefined modes."""
    I = lambda n: ("int", n); S = lambda s: ("str", s); V = lambda x: ("var", x); B = lambda b: ("bool", b)
    M = lambda *ps: ("map", list(ps))
    E = lambda e: ("emit", e)
    m = V("m")
    progs = [
        [E(M((I(1), S("i")), (B(True), S("b"))))],
        [E(("cmp", M((S("a"), I(1))), [("==", M((S("a"), B(True))))])), E(("cmp", M((I(1), I(1))), [("==", M((B(True), I(1))))]))],
        [E(("cmp", m, [(">", ("list", [I(1)]))])), E(("cmp", m, [("<", I(1))])), E(("cmp", m, [(">", S("a"))]))],
        [E(("item", m, V("zz"))), E(("attr", m, "zz")), E(("item", m, I(0))), E(("item", M((I(1), I(2))), I(1))), E(("item", M((I(1), I(2))), B(True)))],
        [E(("attr", ("attr", m, "zz"), "b"))],
        [E(("attr", ("attr", m, "a"), "b"))],
        [E(M((S("a"), S('q"x')), (S("b"), S("it's")), (S("c"), S("a\nb\t\r\\")), (S("d"), S("both'\"")), (S("e"), ("none",)),
             (S("f"), B(True)), (S("g"), V("zz")), (S("h"), I(-3)), (S("i"), S("\x01\x7f"))))],
        [E(("list", [I(1), S("a"), ("list", [I(2), S("b")]), M(), M((S("k"), ("list", [])))]))],
        [E(M((S("b"), I(1)), (S("a"), I(2)), (I(1), I(3)), (S("b"), I(4))))],
        [("for", "k", m, None, [E(V("k")), E(("attr", V("loop"), "index")), E(("attr", V("loop"), "length")), E(("attr", V("loop"), "last"))], [("raw", "E")], False)],
        [("for", "k", V("e"), None, [E(V("k"))], [("raw", "E")], False)],
        [("for", "k", ("attr", m, "zz"), None, [E(V("k"))], [("raw", "E")], False)],
        [("for", "k", m, ("cmp", V("k"), [("!=", S("b"))]), [E(V("k")), E(("item", m, V("k"))), E(("attr", V("loop"), "revindex"))], None, False)],
        [("for", ["a", "b"], ("list", [m]), None, [E(V("a"))], None, False)],
        [("for", ["a", "b"], ("list", [M((S("x"), I(1)), (S("y"), I(2)))]), None, [E(V("a")), E(V("b"))], None, False)],
        [("for", ["k", "v"], ("filter", "items", m, []), ("cmp", V("k"), [("!=", S("a"))]), [E(V("k")), E(V("v")), E(("attr", V("loop"), "revindex"))], None, False)],
        [("set", ["a", "b"], S("xy"))], [("set", ["a", "b"], V("zz"))], [("set", ["a", "b"], ("list", [I(1)]))], [("set", ["a", "b"], ("list", [I(1), I(2), I(3)]))],
        [("set", ["a", "b"], I(5))], [("set", ["a", "b"], ("none",))], [("set", ["a", "b"], M((S("x"), I(1)), (S("y"), I(2)))), E(V("a")), E(V("b"))],
        [("set", "a", I(1)), ("set", "b", I(2)), ("set", ["a", "b"], ("list", [V("b"), V("a")])), E(V("a")), E(V("b"))],
        [("set", "a", I(1)), ("set", "b", I(2)), ("with", [(["a", "b"], ("list", [V("b"), V("a")])), ("c", V("a"))], [E(V("a")), E(V("b")), E(V("c"))]), E(V("a")), E(V("b"))],
        [("set", "a", I(1)), ("set", "b", I(1)), ("for", "i", ("call", "range", [I(6)], []), None,
          [("set", ["a", "b"], ("list", [V("b"), ("bin", "+", V("a"), V("b"))])), E(V("a")), ("raw", " ")], None, False), E(V("b"))],
        [("set", ["a", "a"], ("list", [I(1), I(2)])), E(V("a"))],
        [("with", [(["a", "b"], ("list", [I(1)]))], [("raw", "x")])], [("with", [("c", I(1)), (["a", "b"], V("c"))], [("raw", "x")])],
        [("macro", "f", ["p", "q"], [], [("set", ["p", "q"], ("list", [V("q"), V("p")])), E(V("p")), E(V("q"))]), E(("call", "f", [I(1), I(2)], [])), E(V("p"))],
        [E(("filter", "first", m, []))], [E(("filter", "length", V("e"), []))], [E(("filter", "length", m, []))],
        [E(("filter", "upper", m, []))], [E(("filter", "capitalize", m, []))], [E(("filter", "trim", m, []))], [E(("filter", "replace", m, [S("a"), S("b")]))],
        [E(("filter", "format", S("%s-%s"), [m, ("list", [I(1)])]))], [E(("bin", "~", m, ("list", [S("x")])))],
        [E(("filter", "safe", m, []))], [E(("filter", "escape", m, []))], [E(("filter", "default", m, [I(1)]))], [E(("filter", "string", m, []))],
        [E(("filter", "join", ("list", [("filter", "safe", ("attr", m, "a"), []), ("attr", m, "a"), m]), [S(",")]))],
        [E(("filter", "join", m, [S("<")]))], [E(("filter", "list", m, []))], [E(("filter", "list", V("e"), []))],
        [E(("test", "mapping", m, [], False)), E(("test", "mapping", V("l"), [], False)), E(("test", "odd", m, [], False)), E(("test", "none", m, [], False)),
         E(("test", "defined", ("attr", m, "zz"), [], False)), E(("test", "mapping", V("zz"), [], True))],
        [E(("neg", m))], [E(("bin", "+", m, m))], [E(("filter", "abs", m, []))], [E(("call", "range", [m], []))], [E(("call", "m", [], []))],
        [E(("filter", "items", V("l"), []))], [E(("filter", "items", V("zz"), []))],
        [E(("item", V("l"), m)), E(("item", V("l"), S("a")))],
        [E(("cmp", S("a"), [("in", m)])), E(("cmp", S("zz"), [("in", m)])), E(("cmp", I(1), [("notin", m)])), E(("cmp", m, [("in", m)]))],
        [E(("cmp", V("zz"), [("in", m)]))], [E(("cmp", S("a"), [("in", ("attr", m, "zz"))]))],
        [E(("cmp", m, [("in", ("list", [m]))])), E(("cmp", m, [("==", m)])), E(("cmp", V("e"), [("==", M())])), E(("cmp", V("e"), [("!=", m)]))],
        [("if", [(m, [("raw", "T")])], [("raw", "F")]), ("if", [(V("e"), [("raw", "T")])], [("raw", "F")]), E(("not", m)), E(("and", V("e"), I(1))), E(("or", V("e"), I(1)))],
        [E(("attr", m, "index")), E(("attr", M((S("index"), I(5))), "index")), E(("attr", M((S("length"), I(5))), "length"))],
        [("autoescape", B(True), [E(m), E(("attr", m, "a")), E(("filter", "safe", m, [])), E(M((S("a"), ("filter", "safe", S("<b>"), [])))), E(("filter", "list", m, [])), E(("filter", "string", m, [])),
                                  E(("attr", M((S("a"), ("filter", "safe", S("<b>"), []))), "a")), E(("filter", "join", m, [S("<")]))])],
        [("setblock", "x", [E(m)], None), E(V("x")), E(("filter", "length", V("x"), []))],
        [("macro", "f", ["p"], [("p", M((S("z"), I(1))))], [E(V("p")), E(("attr", V("p"), "z"))]), E(("call", "f", [], [])), E(("call", "f", [m], [])), E(("call", "f", [], [("p", V("e"))]))],
        [("set", "q", M((S("k"), V("n")), (V("s"), I(2)))), E(V("q")), ("set", "n", I(99)), E(("attr", V("q"), "k"))],
    ]
    ctx = {"m": {"b": 1, "a": "x<y", "c": [1, "it's"]}, "e": {}, "l": [1, 2], "n": 7, "s": "k"}
    return [(p, ctx) for p in progs]


def _chars(s):
    return ("list", [("str", ch) for ch in s])


def equivalence_family(rng, n_random):
    """Constructs outside the Lang syntax, each tied to the reference semantics through an element-wise
    equivalent INSIDE the fragment: the engine's rendering of the left template must be what the
    reference interpreter says about the right program (whose own rendering by the engine is compared as
    for every other program).  Returns (kind, left_source, right_body, ctx).
      * unpacking set / with in the forms the Lang syntax does not have (a TUPLE right-hand side `a, b = b, a`,
        three and nested targets; a two-name target with any other right-hand side IS in the syntax and is
        compared directly): the right-hand side is evaluated completely before any target is bound:
        `{% set a, b = E1, E2 %}` = `{% set t1 = E1 %}{% set t2 = E2 %}{% set a = t1 %}{% set b = t2 %}`
      * a string iterates over its characters, with loop.* describing the position among them:
        `{% for c in S %}` = `{% for c in [c1, .., cn] %}`"""
    out = []
    E = proggen.expr_src
    B = proggen.body_src
    a, b, c3 = ("var", "a"), ("var", "b"), ("var", "c")
    pool = [a, b, ("bin", "+", a, b), ("bin", "-", b, a), ("bin", "*", a, ("int", 2)), ("int", 1), ("item", ("list", [b, a]), ("int", 0)),
            ("ifexpr", ("cmp", a, [("<", b)]), b, a), ("filter", "abs", ("bin", "-", a, b), [])]
    show = [("emit", a), ("raw", "/"), ("emit", b), ("raw", ";")]

    def set_pair(e1, e2, style):
        if style == 0: left = "{% set a, b = " + E(e1) + ", " + E(e2) + " %}"
        elif style == 1: left = "{% set (a, b) = (" + E(e1) + ", " + E(e2) + ") %}"
        elif style == 2: left = "{% set a, b = [" + E(e1) + ", " + E(e2) + "] %}"
        else: left = "{% set a, b = (" + E(e1) + ", " + E(e2) + ") %}"
        right = [("set", "t1", e1), ("set", "t2", e2), ("set", "a", ("var", "t1")), ("set", "b", ("var", "t2"))]
        return left, right

    def with_pair(e1, e2, inner_src, inner):
        left = "{% with (a, b) = (" + E(e1) + ", " + E(e2) + ") %}" + inner_src + "{% endwith %}"
        right = [("with", [("t1", e1), ("t2", e2), ("a", ("var", "t1")), ("b", ("var", "t2"))], inner)]
        return left, right

    pre = [("set", "a", ("int", 1)), ("set", "b", ("int", 2))]
    cases = []
    for e1 in pool:
        for e2 in pool:
            cases.append((e1, e2))
    for i, (e1, e2) in enumerate(cases):
        style = i % 4
        l, r = set_pair(e1, e2, style)
        out.append(("unpack_set", B(pre) + l + B(show), pre + r + show, {}))
        if i % 3 == 0:      # repeated in a loop body: the running pair
            l2 = B(pre) + "{% for i in [1, 2, 3] %}" + l + B(show) + "{% endfor %}" + B(show)
            r2 = pre + [("for", "i", ("list", [("int", 1), ("int", 2), ("int", 3)]), None, r + show, None, False)] + show
            out.append(("unpack_set", l2, r2, {}))
        if i % 3 == 1:      # inside a macro, the names coming from the arguments
            l3 = "{% macro m(a, b) %}" + l + B(show) + "{% endmacro %}{{ m(5, 8) }}" + B(show)
            r3 = [("macro", "m", ["a", "b"], [], r + show), ("emit", ("call", "m", [("int", 5), ("int", 8)], []))] + show
            out.append(("unpack_set", l3, r3, {"a": 3, "b": 4}))
        if i % 3 == 2:
            l4, r4 = with_pair(e1, e2, B(show), show)
            out.append(("unpack_with", B(pre) + l4 + B(show), pre + r4 + show, {}))
    # three targets, nested target, names from the context, twice in a row
    l = "{% set a, b, c = c, a, b %}{{ a }}{{ b }}{{ c }}{% set a, b, c = c, a, b %}{{ a }}{{ b }}{{ c }}"
    rot = [("set", "t1", c3), ("set", "t2", a), ("set", "t3", b), ("set", "a", ("var", "t1")), ("set", "b", ("var", "t2")), ("set", "c", ("var", "t3"))]
    sh3 = [("emit", a), ("emit", b), ("emit", c3)]
    out.append(("unpack_set", l, rot + sh3 + rot + sh3, {"a": "x", "b": "y", "c": "z"}))
    l = "{% set a, (b, c) = b, (c, a) %}{{ a }}{{ b }}{{ c }}"
    r = [("set", "t1", b), ("set", "t2", c3), ("set", "t3", a), ("set", "a", ("var", "t1")), ("set", "b", ("var", "t2")), ("set", "c", ("var", "t3"))] + sh3
    out.append(("unpack_set", l, r, {"a": "x", "b": "y", "c": "z"}))
    # a right-hand side that is not a literal (no element-wise shortcut possible): unpacked after full evaluation
    l = "{% set p = [b, a] %}{% set a, b = p %}{{ a }}/{{ b }}"
    r = [("set", "p", ("list", [b, a])), ("set", "t", ("var", "p")), ("set", "a", ("item", ("var", "t"), ("int", 0))),
         ("set", "b", ("item", ("var", "t"), ("int", 1))), ("emit", a), ("raw", "/"), ("emit", b)]
    out.append(("unpack_set", l, r, {"a": 1, "b": 2}))

    # ---- strings as loop subjects ----
    fields = ["index", "index0", "revindex", "revindex0", "first", "last", "length"]

    def loop_body(which, var="ch"):
        body = [("emit", ("var", var))]
        for f in which:
            body += [("raw", ":"), ("emit", ("attr", ("var", "loop"), f))]
        return body + [("raw", ",")]
    # a string iterates over its CODE POINTS: 2-, 3-, 4-byte characters, combining marks, mixed (the model's
    # upper / lower are ASCII-only: the case filters stay with the ASCII strings)
    strings = ["", "a", "ab", "abc", "hello world", "x<y", "aXbXc",
               "h\u00e4l", "\u00e9", "\u65e5\u672c\u8a9e", "a\U0001F600b", "e\u0301x", "\u00df\u20ac\U0001D11E", "b\u00fcb\u00fc", "\U0001F600\U0001F601"]
    k = 0
    for sv in strings:
        ascii_only = all(ord(ch) < 128 for ch in sv)
        for subj in ("ctx", "lit", "concat", "upper" if ascii_only else "concat2", "trim", "reverse"):
            if subj in ("trim", "reverse") and ascii_only and sv not in ("abc", "x<y"):
                continue
            if subj == "ctx": lsub, val, ctx = "s", sv, {"s": sv}
            elif subj == "lit": lsub, val, ctx = proggen.q(sv), sv, {}
            elif subj == "concat": lsub, val, ctx = '(s ~ "!z")', sv + "!z", {"s": sv}
            elif subj == "concat2": lsub, val, ctx = '("\u00fc" ~ s ~ s)', "\u00fc" + sv + sv, {"s": sv}
            elif subj == "trim": lsub, val, ctx = "pad|trim", sv, {"pad": "  " + sv + " \n"}
            elif subj == "reverse": lsub, val, ctx = "s|reverse", sv[::-1], {"s": sv}
            else: lsub, val, ctx = "s|upper", sv.upper(), {"s": sv}
            for variant in range(6):
                k += 1
                body = loop_body(fields if variant in (0, 3) else [fields[k % 7], fields[(k // 7 + 3) % 7]])
                els = [("raw", "E")] if variant in (1, 3, 4) else None
                flt_src, flt = "", None
                if variant in (2, 4):
                    flt = ("cmp", ("var", "ch"), [("!=", ("str", "b"))]); flt_src = " if " + E(flt)
                if variant == 5:        # nested: the inner loop over the same string, loop of the outer one through a with
                    body = [("with", [("o", ("attr", ("var", "loop"), "index"))],
                             [("for", "d", None, None, [("emit", ("var", "o")), ("emit", ("var", "d")), ("emit", ("attr", ("var", "loop"), "revindex"))], None, False)]),
                            ("emit", ("attr", ("var", "loop"), "last")), ("raw", ",")]
                def render_left(bd):
                    src = ""
                    for st in bd:
                        if st[0] == "with":
                            inner = st[2][0]
                            src += "{% with " + ", ".join(n + " = " + E(e) for n, e in st[1]) + " %}{% for d in " + lsub + " %}" + B(inner[4]) + "{% endfor %}{% endwith %}"
                        else:
                            src += proggen.stmt_src(st)
                    return src
                def fix_right(bd):
                    res = []
                    for st in bd:
                        if st[0] == "with":
                            inner = st[2][0]
                            res.append(("with", st[1], [("for", "d", _chars(val), None, inner[4], None, False)]))
                        else:
                            res.append(st)
                    return res
                left = "{% for ch in " + lsub + flt_src + " %}" + render_left(body) + ("{% else %}" + B(els) if els is not None else "") + "{% endfor %}"
                right = [("for", "ch", _chars(val), flt, fix_right(body), els, False)]
                out.append(("string_loop", left, right, ctx))
    return out


# ================================================================================================
# loop.* attributes outside the Lang model (previtem, nextitem, depth, depth0, cycle, changed) and the
# seven modelled ones, read in every order: expected output from a small oracle on the iterated sequence
# ================================================================================================
LOOP_ATTRS = ["index", "index0", "revindex", "revindex0", "first", "last", "length", "previtem", "nextitem",
              "depth", "depth0", "cycle", "changed"]


def _attr_src(a, var="loop", item="x", sub=""):
    """template expression whose rendering is a plain integer / string (no dependence on how booleans,
    undefined or containers are printed); [sub] is the attribute taken of prev/next items (tree nodes)"""
    L = var + "." + a
    if a in ("first", "last"):
        return "(1 if %s else 0)" % L
    if a in ("previtem", "nextitem"):
        return '(%s%s if %s is defined else "~")' % (L, sub, L)
    if a == "cycle":
        return var + '.cycle("p", "q", "r")'
    if a == "changed":
        return "(1 if %s.changed(%s%s) else 0)" % (var, item, sub)
    return L


def _attr_val(a, i, items, depth0):
    """the value the documentation gives the attribute at position i of the iterated sequence [items]"""
    n = len(items)
    if a == "index": return str(i + 1)
    if a == "index0": return str(i)
    if a == "revindex": return str(n - i)
    if a == "revindex0": return str(n - i - 1)
    if a == "first": return "1" if i == 0 else "0"
    if a == "last": return "1" if i == n - 1 else "0"
    if a == "length": return str(n)
    if a == "previtem": return str(items[i - 1]) if i > 0 else "~"
    if a == "nextitem": return str(items[i + 1]) if i + 1 < n else "~"
    if a == "depth": return str(depth0 + 1)
    if a == "depth0": return str(depth0)
    if a == "cycle": return "pqr"[i % 3]
    if a == "changed": return "1" if i == 0 or items[i] != items[i - 1] else "0"
    raise ValueError(a)


def loop_attr_family(rng, n_random):
    """(template, ctx, expected output, kind).  reads: list of (attribute, k): the attribute is read in
    every iteration (k = 0) or only in iteration k (1-based) - so that the FIRST read of one attribute
    comes before / after / iterations away from the first read of another one."""
    out = []
    xs = [10, 20, 20, 30]
    U = "h\u00e4l\u20ac\U0001F600e\u0301"
    ctx = {"xs": xs, "ws": ["b", "a", "c"], "s": "abca", "d": {"a": 1, "b": 2, "c": 3}, "e": [], "one": [7], "u": U, "uu": "\u00fc\u00fc", "ud": {"\u00e4": 1, "\u65e5": 2},
           "tree": [{"v": 1, "c": [{"v": 2, "c": []}, {"v": 3, "c": [{"v": 4, "c": []}]}]}, {"v": 5, "c": []}, {"v": 5, "c": []}]}
    subjects = [          # (source of the iterated expression, optional filter source, the sequence actually iterated)
        ("xs", None, xs), ("[1, 2, 3]", None, [1, 2, 3]), ("ws", None, ["b", "a", "c"]), ("s", None, list("abca")),
        ('"xyz"', None, list("xyz")), ("d", None, ["a", "b", "c"]), ('{"j": 1, "k": 2}', None, ["j", "k"]),
        ("range(4)", None, [0, 1, 2, 3]), ("range(2, 11, 3)", None, [2, 5, 8]), ("xs|reverse", None, xs[::-1]),
        ("ws|sort", None, ["a", "b", "c"]), ("xs|unique", None, [10, 20, 30]), ("xs[1:]", None, xs[1:]),
        ('xs|map("abs")', None, xs), ("range(5)|list", None, [0, 1, 2, 3, 4]), ("one", None, [7]), ("e", None, []),
        ("xs", "x != 10", [20, 20, 30]), ("range(6)", "x is odd", [1, 3, 5]), ("s", 'x != "b"', list("aca")),
        ("d", 'x != "a"', ["b", "c"]), ("xs", "x > 100", []),
        # strings with multi-byte characters: the sequence iterated is the sequence of code points
        ("u", None, list(U)), ('"\u65e5\u672c\u8a9e"', None, list("\u65e5\u672c\u8a9e")), ('(u ~ "\u00e9")', None, list(U + "\u00e9")), ("u|reverse", None, list(U[::-1])),
        ("uu", None, ["\u00fc", "\u00fc"]), ("u", 'x != "l"', [ch for ch in U if ch != "l"]), ('(uu ~ "a")|trim', None, ["\u00fc", "\u00fc", "a"]),
        ("ud", None, ["\u00e4", "\u65e5"]), ("u|list", None, list(U)), ("u[1:]", None, list(U[1:])),
    ]

    def reads_src(reads, var="loop", item="x", sub=""):
        src = ""
        for a, k in reads:
            e = ":{{ " + _attr_src(a, var, item, sub) + " }}"
            src += e if k == 0 else "{% if " + var + ".index0 == " + str(k - 1) + " %}" + e + "{% endif %}"
        return src

    def reads_val(reads, i, items, depth0):
        # changed(v): true iff the previous call in this loop was given another value, or there was none -
        # read in one iteration only it is the first call
        return "".join(":" + ("1" if a == "changed" and k != 0 else _attr_val(a, i, items, depth0)) for a, k in reads if k == 0 or k - 1 == i)

    def flat(reads, subj, flt, items):
        src = "{% for x in " + subj + ((" if " + flt) if flt else "") + " %}{{ x }}" + reads_src(reads) + ";{% else %}E{% endfor %}"
        exp = "".join(str(x) + reads_val(reads, i, items, 0) + ";" for i, x in enumerate(items)) or "E"
        return src, exp

    def nested(reads, subj, flt, items):
        # the same loop as the inner loop of another one; the outer loop's attributes read from inside through a with
        oreads = [(a if a != "changed" else "depth", 0) for a, _ in reads[:2]]      # (changed would be called several times per outer iteration)
        src = ("{% for y in ws %}{% with o = loop %}<{% for x in " + subj + ((" if " + flt) if flt else "") + " %}{{ x }}" + reads_src(reads)
               + "|" + reads_src(oreads, "o", "y") + ";{% endfor %}>{% endwith %}" + reads_src(oreads, "loop", "y") + "{% endfor %}")
        exp = ""
        for j in range(3):
            exp += "<" + "".join(str(x) + reads_val(reads, i, items, 0) + "|" + reads_val(oreads, j, ["b", "a", "c"], 0) + ";" for i, x in enumerate(items)) + ">"
            exp += reads_val(oreads, j, ["b", "a", "c"], 0)
        return src, exp

    def recursive(reads):
        src = "{% for n in tree recursive %}{{ n.v }}" + reads_src(reads, "loop", "n", ".v") + "({{ loop(n.c) }}){% endfor %}"
        def rec(nodes, depth0):
            vals = [n["v"] for n in nodes]
            return "".join(str(n["v"]) + reads_val(reads, i, vals, depth0) + "(" + rec(n["c"], depth0 + 1) + ")" for i, n in enumerate(nodes))
        return src, rec(ctx["tree"], 0)

    orders = []
    A = LOOP_ATTRS
    for a in A:                                   # every ordered pair, the first one read in every iteration / only in iteration 1, 2, 3
        for b in A:
            if a != b:
                for k in (0, 1, 2, 3):
                    orders.append([(a, k), (b, 0)])
    core = ["nextitem", "previtem", "length", "last", "revindex", "revindex0", "index", "first"]
    for a in core:                                # every ordered triple of the attributes that share state
        for b in core:
            for c in core:
                if len({a, b, c}) == 3:
                    orders.append([(a, 0), (b, 0), (c, 0)])
    for _ in range(n_random):                     # random full permutations with random first-read iterations
        perm = list(A)
        for i in range(len(perm) - 1, 0, -1):
            j = rng.below(i + 1); perm[i], perm[j] = perm[j], perm[i]
        orders.append([(a, rng.choice([0, 0, 0, 1, 2, 3])) for a in perm[:3 + rng.below(len(perm) - 2)]])
    for idx, reads in enumerate(orders):
        subj, flt, items = subjects[idx % len(subjects)]
        shape = idx % 7
        if shape == 5:
            src, exp = nested(reads, subj, flt, items); kind = "nested"
        elif shape == 6:
            src, exp = recursive(reads); kind = "recursive"
        else:
            src, exp = flat(reads, subj, flt, items); kind = "filtered" if flt else "flat"
        out.append((src, ctx, exp, kind))
    return out


# ================================================================================================
# expressions whose operands are ALL literals (the compiler folds them: Expr::as_const), and macro calls
# with every way of passing the arguments
# ================================================================================================
def literal_family(rng, n_random):
    """(body, ctx): chained comparisons of 2-4 operators over literal ints / strings / bools / lists (all
    operator combinations, equal / increasing / decreasing / non-monotone operands, in / not in, operands
    that cannot be compared), the same chains in the places where statements use expressions (if / elif,
    loop filter, set, with, macro default, argument), and random literal-only expressions of every other
    form (arithmetic incl. division by zero, and / or / not, ~, filters, tests, if-expressions, lists,
    subscripts; the random generator with no variables in scope)."""
    out = []
    I = lambda n: ("int", n); S = lambda t: ("str", t)
    ops6 = ["<", "<=", ">", ">=", "==", "!="]
    exprs = []
    for o1 in ops6:                                   # every operator pair x every operand triple over {1, 2, 3}
        for o2 in ops6:
            for a in (1, 2, 3):
                for b in (1, 2, 3):
                    for c in (1, 2, 3):
                        exprs.append(("cmp", I(a), [(o1, I(b)), (o2, I(c))]))
    for o1 in ops6:                                   # strings
        for o2 in ops6:
            for t in (("a", "b", "a"), ("b", "a", "b"), ("a", "b", "c"), ("c", "b", "a"), ("a", "a", "b"), ("b", "a", "a"), ("a", "c", "b"), ("", "a", "")):
                exprs.append(("cmp", S(t[0]), [(o1, S(t[1])), (o2, S(t[2]))]))
    vals4 = [(1, 3, 2, 4), (2, 1, 3, 1), (1, 2, 2, 1), (3, 2, 1, 2), (1, 1, 2, 2), (2, 3, 1, 3), (4, 1, 1, 4), (0, -1, 5, 0)]
    k = 0
    for o1 in ops6:                                   # three operators: every operator triple, rotating operand tuples
        for o2 in ops6:
            for o3 in ops6:
                for rep in range(2):
                    v = vals4[k % len(vals4)]; k += 1
                    exprs.append(("cmp", I(v[0]), [(o1, I(v[1])), (o2, I(v[2])), (o3, I(v[3]))]))
    for _ in range(n_random // 4):                    # four operators, random
        v = [rng.below(4) for _ in range(5)]
        exprs.append(("cmp", I(v[0]), [(rng.choice(ops6), I(x)) for x in v[1:]]))
    L = lambda *xs: ("list", [I(x) for x in xs])
    for e in [("cmp", I(1), [("in", L(1, 2)), ("==", L(1, 2))]), ("cmp", I(1), [("in", L(1, 2)), ("in", ("list", [L(1, 2)]))]),
              ("cmp", I(1), [("<", I(2)), ("in", L(2, 3))]), ("cmp", I(3), [(">", I(2)), ("in", L(1, 3))]),
              ("cmp", I(2), [("in", L(1, 2)), ("!=", L(2, 1))]), ("cmp", I(5), [("notin", L(1, 2)), ("==", L(1, 2))]),
              ("cmp", I(1), [("notin", L(1, 2)), ("==", L(1, 2))]), ("cmp", I(1), [("<", I(3)), ("notin", L(3))]),
              # (`in` on strings - substring containment - is not in Lang/Interp.v::do_cmp: not generated)
              # (the order of sequences is outside Lang/Interp.v::value_ltb: `<` on lists is not generated)
              ("cmp", L(1), [("==", L(1)), ("!=", L(1, 2))]), ("cmp", L(1, 2), [("!=", L(2, 1)), ("==", L(2, 1))]),
              ("cmp", ("bool", True), [("==", ("bool", True)), ("!=", ("bool", False))]), ("cmp", ("bool", False), [("!=", ("bool", True)), ("==", ("bool", False))]),
              ("cmp", ("bool", True), [("==", I(1)), ("<", I(2))]), ("cmp", ("none",), [("==", ("none",)), ("!=", I(0))]),
              ("cmp", I(1), [("<", S("a")), (">", I(0))]), ("cmp", I(1), [("<", I(2)), ("<", S("a"))]), ("cmp", I(2), [("<", I(1)), ("<", S("a"))]),
              ("cmp", I(1), [("==", S("1")), ("!=", I(1))]), ("cmp", I(1), [("<", I(3)), (">", I(2))]), ("cmp", I(1), [("<", I(2)), ("<", I(2))])]:
        exprs.append(e)
    # packed: several expressions per template (a failing one is isolated by the shrinker)
    for i in range(0, len(exprs), 6):
        body = []
        for e in exprs[i:i + 6]:
            body += [("emit", e), ("raw", ",")]
        out.append((body, {}))
    # the chains where statements use expressions
    for j, e in enumerate(exprs[::7]):
        yes = [("raw", "y")]
        forms = [
            [("if", [(e, yes), (("bool", True), [("raw", "elif")])], [("raw", "n")])],
            [("if", [(("bool", False), yes), (e, [("raw", "second")])], [("raw", "n")])],
            [("for", "x", ("list", [I(1), I(2)]), e, [("emit", ("var", "x"))], [("raw", "E")], False)],
            [("set", "v", e), ("emit", ("var", "v")), ("with", [("w", ("not", e))], [("emit", ("var", "w"))])],
            [("macro", "m", ["p"], [("p", e)], [("emit", ("var", "p"))]), ("emit", ("call", "m", [], [])), ("emit", ("call", "m", [("and", e, I(7))], [])),
             ("emit", ("call", "m", [], [("p", ("or", e, S("o")))]))],
            [("emit", ("ifexpr", e, S("t"), S("f"))), ("emit", ("filter", "default", e, [I(0)])), ("emit", ("list", [e, ("not", e)]))],
        ]
        out.append((forms[j % len(forms)], {}))
    # every other expression form over literals only: the random generator with nothing in scope
    for j in range(n_random):
        g = proggen.Gen(rng, {"undefined": 0}, max_depth=4)
        d = 2 + rng.below(3)
        c = rng.below(5)
        if c == 0: e = g.int_expr({}, d)
        elif c == 1: e = g.str_expr({}, d)
        elif c == 2: e = ("filter", "length", g.list_expr({}, d), [])
        else: e = g.bool_expr({}, d)
        out.append(([("emit", e)], {}))
    return out


def macro_call_family():
    """Macros with 2-5 parameters (defaults on all, on the tail, on none): calls with every positional prefix
    x every subset of the remaining parameters by keyword in every order (all orders up to 3 keywords,
    two orders beyond) - including the gaps: a parameter left out, a later one passed by keyword; the error
    cases (too many positional, unknown keyword, a parameter both positional and by keyword) one per
    template.  Returns (plain, equiv): plain = (body, ctx) inside the Lang syntax; equiv = (kind, left
    source, right body, ctx) for call blocks called WITH keyword arguments and for call blocks with
    parameters of their own invoked through caller(...): left is the real construct, right the same calls
    on plain macros."""
    import itertools
    plain, equiv = [], []
    E = proggen.expr_src
    names = ["a", "b", "c", "d", "e"]
    sigs = []
    for n in (2, 3, 4, 5):
        for nd in sorted({n, n - 1, max(0, n - 2), 0}):          # how many trailing parameters have defaults
            sigs.append((names[:n], [(p, ("str", "d" + p)) for p in names[n - nd:n]]))

    def calls_of(params):
        n = len(params)
        res = []
        for p in range(n + 1):
            rest = params[p:]
            for r in range(len(rest) + 1):
                for sub in itertools.combinations(rest, r):
                    orders = list(itertools.permutations(sub)) if r <= 3 else [sub, tuple(reversed(sub))]
                    for order in orders:
                        args = [("int", i + 1) for i in range(p)]
                        kwargs = [(q, ("int", 10 * (params.index(q) + 1))) for q in order]
                        res.append((args, kwargs))
        return res

    def show(params):
        body = [("raw", "[")]
        for i, q in enumerate(params):
            body += ([("raw", "|")] if i else []) + [("emit", ("var", q))]
        return body + [("raw", "]")]

    for params, defaults in sigs:
        calls = calls_of(params)
        if len(params) == 5:
            calls = calls[::3]
        mac = ("macro", "m", params, defaults, show(params))
        for i in range(0, len(calls), 8):
            plain.append(([mac] + [("emit", ("call", "m", a, kw)) for a, kw in calls[i:i + 8]], {}))
        # error cases
        n = len(params)
        errs = [([("int", i) for i in range(n + 1)], []), ([], [("zz", ("int", 1))]), ([("int", 1)], [(params[0], ("int", 2))]),
                ([("int", 1)], [(params[-1], ("int", 3)), ("zz", ("int", 1))]), ([("int", i) for i in range(n)], [(params[-1], ("int", 3))])]
        for a, kw in errs:
            plain.append(([mac, ("raw", "before"), ("emit", ("call", "m", a, kw))], {}))
        if len(params) in (3, 4):
            # the macro called through a call block with these arguments (it also takes its caller)
            box = lambda cal: ("macro", "m", params, defaults, show(params) + [("raw", "<"), ("emit", ("call", cal, [], [])), ("raw", ">")])
            cb = ("macro", "cb", [], [], [("raw", "body")])
            for i in range(0, len(calls), 6):
                chunk = calls[i:i + 6]
                left = proggen.stmt_src(box("caller"))
                for a, kw in chunk:
                    left += "{% call m(" + ", ".join([E(x) for x in a] + [q + "=" + E(v) for q, v in kw]) + ") %}body{% endcall %}"
                right = [cb, box("cb")] + [("emit", ("call", "m", a, kw)) for a, kw in chunk]
                equiv.append(("callblock_kwargs", left, right, {}))
            # a call block with these parameters, invoked through caller(...) with these arguments
            dflt = dict(defaults)
            sig_src = ", ".join(q + ((" = " + E(dflt[q])) if q in dflt else "") for q in params)
            for i in range(0, len(calls), 6):
                chunk = calls[i:i + 6]
                inv = lambda cal: [("emit", ("call", cal, a, kw)) for a, kw in chunk]
                left = proggen.stmt_src(("macro", "run", [], [], inv("caller"))) + "{% call(" + sig_src + ") run() %}" + proggen.body_src(show(params)) + "{% endcall %}"
                right = [("macro", "cb", params, defaults, show(params)), ("macro", "run", [], [], inv("cb")), ("emit", ("call", "run", [], []))]
                equiv.append(("caller_params", left, right, {}))
            for a, kw in errs[:3]:
                left = proggen.stmt_src(("macro", "run", [], [], [("raw", "before"), ("emit", ("call", "caller", a, kw))])) + "{% call(" + sig_src + ") run() %}x{% endcall %}"
                right = [("macro", "cb", params, defaults, [("raw", "x")]), ("macro", "run", [], [], [("raw", "before"), ("emit", ("call", "cb", a, kw))]), ("emit", ("call", "run", [], []))]
                equiv.append(("caller_params", left, right, {}))
    return plain, equiv


# ================================================================================================
# the printer with MINIMAL parentheses (documented precedence and associativity of the expression
# grammar: if-else < or < and < not < comparison chain < + - < ~ < * // % < unary minus, postfix,
# filters and tests < primary; binary operators group to the left, the else part of a conditional
# extends to the right, a filter / test / subscript applies to the unary-minus expression in front)
# ================================================================================================
_BIN_LEVEL = {"+": 5, "-": 5, "~": 6, "*": 7, "//": 7, "%": 7, "/": 7}


def _lvl(e):
    t = e[0]
    if t == "ifexpr": return 0
    if t == "or": return 1
    if t == "and": return 2
    if t == "not": return 3
    if t == "cmp": return 4
    if t == "bin": return _BIN_LEVEL[e[1]]
    if t == "neg" or (t == "int" and e[1] < 0): return 9
    if t in ("filter", "test", "item", "attr", "call"): return 9
    return 10


_UNSAFE_AFTER_TEST = {"if", "in", "not", "+", "-", "[", "ident", "lit", "is"}


def min_expr(e, need=0, nxt="end"):
    """source of e for a position that takes expressions of level >= need and is followed by token nxt"""
    t = e[0]
    if _lvl(e) < need:
        return "(" + min_expr(e, 0, ")") + ")"
    M = min_expr
    if t == "int": return str(e[1])
    if t in ("str", "bool", "none", "var"): return proggen.expr_src(e)
    if t == "list": return "[" + ", ".join(M(x, 0, ",") for x in e[1]) + "]"
    if t == "map": return "{" + ", ".join(M(k, 0, ":") + ": " + M(v, 0, ",") for k, v in e[1]) + "}"
    if t == "neg":
        inner = e[1]
        if inner[0] == "neg" or (inner[0] == "int" and inner[1] < 0): return "- " + M(inner, 9, nxt)
        return "-" + M(inner, 10, nxt)
    if t == "not": return "not " + M(e[1], 3, nxt)
    if t == "bin":
        l = _BIN_LEVEL[e[1]]
        return M(e[2], l, e[1] if e[1] in ("+", "-") else "op") + " " + e[1] + " " + M(e[3], l + 1, nxt)
    if t == "cmp":
        s = M(e[1], 5, "in" if e[2][0][0] in ("in", "notin") else "op")
        for j, (op, r) in enumerate(e[2]):
            after = nxt if j == len(e[2]) - 1 else ("in" if e[2][j + 1][0] in ("in", "notin") else "op")
            s += " " + ("not in" if op == "notin" else op) + " " + M(r, 5, after)
        return s
    if t == "and": return M(e[1], 2, "and") + " and " + M(e[2], 3, nxt)
    if t == "or": return M(e[1], 1, "or") + " or " + M(e[2], 2, nxt)
    if t == "ifexpr":
        if e[3] is None: return M(e[2], 1, "if") + " if " + M(e[1], 1, nxt)
        return M(e[2], 1, "if") + " if " + M(e[1], 1, "else") + " else " + M(e[3], 0, nxt)
    if t == "item": return M(e[1], 9, "[") + "[" + M(e[2], 0, "]") + "]"
    if t == "attr": return M(e[1], 9, ".") + "." + e[2]
    if t == "filter":
        return M(e[2], 9, "|") + "|" + e[1] + (("(" + ", ".join(M(a, 0, ",") for a in e[3]) + ")") if e[3] else "")
    if t == "test":
        src = M(e[2], 9, "is") + (" is not " if e[4] else " is ") + e[1]
        if e[3]: return src + "(" + ", ".join(M(a, 0, ",") for a in e[3]) + ")"
        # a test without arguments takes a following operand-like token as its argument: keep the parentheses there
        return ("(" + src + ")") if nxt in _UNSAFE_AFTER_TEST else src
    if t == "call":
        return e[1] + "(" + ", ".join([M(a, 0, ",") for a in e[2]] + [k + "=" + M(v, 0, ",") for k, v in e[3]]) + ")"
    raise ValueError(t)


def min_body(body):
    return "".join(min_stmt(s) for s in body)


def min_stmt(s):
    t = s[0]
    X = min_expr
    if t == "emit": return "{{ " + X(s[1]) + " }}"
    if t == "if":
        out = ""
        for i, (c, b) in enumerate(s[1]):
            out += "{% " + ("if " if i == 0 else "elif ") + X(c) + " %}" + min_body(b)
        if s[2] is not None:
            out += "{% else %}" + min_body(s[2])
        return out + "{% endif %}"
    if t == "for":
        tgt = s[1] if isinstance(s[1], str) else ", ".join(s[1])
        out = "{% for " + tgt + " in " + X(s[2], 1, "if" if s[3] is not None else "end")     # the subject is not a conditional: `if` starts the filter
        if s[3] is not None: out += " if " + X(s[3], 0, "ident" if s[6] else "end")
        if s[6]: out += " recursive"
        out += " %}" + min_body(s[4])
        if s[5] is not None: out += "{% else %}" + min_body(s[5])
        return out + "{% endfor %}"
    if t == "set": return "{% set " + proggen.target_src(s[1]) + " = " + X(s[2]) + " %}"
    if t == "setblock": return "{% set " + s[1] + ((" | " + s[3]) if s[3] else "") + " %}" + min_body(s[2]) + "{% endset %}"
    if t == "with": return "{% with " + ", ".join(proggen.target_src(n, True) + " = " + X(e, 0, ",") for n, e in s[1]) + " %}" + min_body(s[2]) + "{% endwith %}"
    if t == "macro":
        dflt = dict(s[3])
        params = [q + ((" = " + X(dflt[q], 0, ",")) if q in dflt else "") for q in s[2]]
        return "{% macro " + s[1] + "(" + ", ".join(params) + ") %}" + min_body(s[4]) + "{% endmacro %}"
    if t == "callblock": return "{% call " + s[1] + "(" + ", ".join(X(a, 0, ",") for a in s[2]) + ") %}" + min_body(s[3]) + "{% endcall %}"
    if t == "filterblock": return "{% filter " + s[1] + " %}" + min_body(s[2]) + "{% endfilter %}"
    if t == "autoescape": return "{% autoescape " + X(s[1]) + " %}" + min_body(s[2]) + "{% endautoescape %}"
    return proggen.stmt_src(s)


def precedence_family():
    """(body, ctx): every expression form directly under every other one, in every operand position whose
    type admits it (the programs stay inside the typed fragment: no arithmetic on booleans, no ordering
    across kinds), with operand values that tell the groupings apart (the random programs get their
    minimal-parentheses printing too; this family makes the pairs certain)."""
    I = lambda n: ("int", n); V = lambda x: ("var", x); S = lambda t: ("str", t)
    ctx = {"a": 7, "b": 2, "c": 3, "t": True, "f": False, "s": "x", "l": [5, -6, 7], "z": 0}
    atoms = [V("a"), V("b"), I(3), I(-4), V("z")]
    def forms(x, y, w):
        """(expression, type of its value, types its operands x, y, w must have); operands default to ints"""
        A, N = "any", "int"
        return [(("ifexpr", x, y, w), N, (A, N, N)), (("ifexpr", x, y, None), A, (A, A, None)), (("or", x, y), N, (N, N, None)), (("and", x, y), N, (N, N, None)),
                (("not", x), "bool", (A, None, None)),
                (("cmp", x, [("<", y)]), "bool", (N, N, None)), (("cmp", x, [("==", y)]), "bool", (A, A, None)), (("cmp", x, [("<", y), ("<=", w)]), "bool", (N, N, N)),
                (("cmp", x, [("in", ("list", [y, w]))]), "bool", (A, A, A)), (("cmp", x, [("notin", ("list", [y]))]), "bool", (A, A, None)),
                (("bin", "+", x, y), N, (N, N, None)), (("bin", "-", x, y), N, (N, N, None)), (("bin", "~", x, y), "str", (A, A, None)), (("bin", "*", x, y), N, (N, N, None)),
                (("bin", "//", x, ("or", y, I(1))), N, (N, N, None)), (("bin", "%", x, ("or", y, I(5))), N, (N, N, None)), (("neg", x), N, (N, None, None)),
                (("filter", "abs", x, []), N, (N, None, None)), (("filter", "string", x, []), "str", (A, None, None)), (("filter", "default", x, [y]), N, (N, N, None)),
                (("test", "odd", x, [], False), "bool", (N, None, None)), (("test", "defined", x, [], True), "bool", (A, None, None)), (("test", "none", x, [], False), "bool", (A, None, None)),
                (("item", ("list", [x, y, w]), I(1)), N, (N, N, N)), (("item", V("l"), x), A, (N, None, None)), (("list", [x, y]), "list", (A, A, None))]
    out = []
    n_forms = len(forms(V("a"), V("b"), V("c")))
    k = 0
    for oi in range(n_forms):
        _, _, otypes = forms(V("a"), V("b"), V("c"))[oi]
        for pos in range(3):
            if otypes[pos] is None:
                continue
            body = []
            for ii in range(n_forms):
                inner, ityp, _ = forms(atoms[k % 5], atoms[(k + 1) % 5], atoms[(k + 2) % 5])[ii]
                k += 1
                if otypes[pos] != "any" and ityp != otypes[pos]:
                    continue
                ops = [V("a"), V("b"), V("c")]
                ops[pos] = inner
                body += [("emit", forms(*ops)[oi][0]), ("raw", ",")]
            for i in range(0, len(body), 16):
                out.append((body[i:i + 16], ctx))
    # chains of one operator (associativity) and the classic pairs
    A, B, C, D = V("a"), V("b"), V("c"), I(4)
    for op in ("-", "//", "%", "~", "+", "*"):
        out.append(([("emit", ("bin", op, ("bin", op, A, B), C)), ("raw", ","), ("emit", ("bin", op, A, ("bin", op, B, C))), ("raw", ","),
                     ("emit", ("bin", op, ("bin", op, ("bin", op, D, A), B), C)), ("raw", ","), ("emit", ("bin", op, D, ("bin", op, A, ("bin", op, B, C))))], ctx))
    for o1, o2 in (("+", "*"), ("-", "//"), ("~", "+"), ("+", "~"), ("-", "%"), ("-", "*"), ("+", "%")):
        x, y, w = (A, B, C)
        out.append(([("emit", ("bin", o1, x, ("bin", o2, y, w))), ("raw", ","), ("emit", ("bin", o2, ("bin", o1, x, y), w)), ("raw", ","),
                     ("emit", ("bin", o1, ("bin", o2, x, y), w)), ("raw", ","), ("emit", ("bin", o2, x, ("bin", o1, y, w)))], ctx))
    cond = lambda c, x, y: ("ifexpr", c, x, y)
    T, F = V("t"), V("f")
    for c1 in (T, F):
        for c2 in (T, F):
            for c3 in (T, F):
                out.append(([("emit", cond(c1, S("A"), cond(c2, S("C"), S("E")))), ("raw", ","),                 # a if c1 else c if c2 else e
                             ("emit", cond(c2, cond(c1, S("A"), S("C")), S("E"))), ("raw", ","),                 # (a if c1 else c) if c2 else e
                             ("emit", cond(c1, S("A"), cond(c2, S("C"), cond(c3, S("E"), S("G"))))), ("raw", ","),
                             ("emit", cond(cond(c1, c2, c3), S("A"), S("B"))), ("raw", ","),                     # a conditional as condition
                             ("emit", cond(c1, S("A"), cond(c2, S("C"), None))), ("raw", ","),
                             ("emit", cond(c2, cond(c1, S("A"), None), S("E"))), ("raw", ","),
                             ("emit", ("or", cond(c1, F, T), c3)), ("raw", ","), ("emit", cond(c1, F, ("or", T, c3))), ("raw", ","),
                             ("emit", ("and", ("or", c1, c2), c3)), ("emit", ("or", c1, ("and", c2, c3))), ("emit", ("not", ("and", c1, c2))), ("emit", ("and", ("not", c1), c2)),
                             ("emit", ("not", ("cmp", c1, [("==", c2)]))), ("emit", ("cmp", ("not", c1), [("==", c2)]))], ctx))
    return out


def _assigned_names(body, acc):
    for st in body:
        if st[0] == "set": acc.update([st[1]] if isinstance(st[1], str) else st[1])
        elif st[0] == "setblock": acc.add(st[1])
        elif st[0] == "macro": acc.add(st[1])
        for b in proggen._sub_bodies(st):
            _assigned_names(b, acc)


def _names_read(x, acc):
    """every identifier that occurs in an AST (over-approximation of the free names)"""
    if isinstance(x, tuple):
        if x and x[0] == "var": acc.add(x[1])
        if x and x[0] == "call": acc.add(x[1])
        for y in x: _names_read(y, acc)
    elif isinstance(x, list):
        for y in x: _names_read(y, acc)


def wrap_program(body):
    """splits a program into its leading definitions (set, set-block, macro) and the statements after them,
    up to the next top-level definition; None when moving the rest into a block / another template could
    change what the program means (a macro of the prefix reads a name the rest assigns)"""
    i = 0
    while i < len(body) and body[i][0] in ("set", "setblock", "macro"):
        i += 1
    prefix = body[:i]
    rest = []
    for st in body[i:]:
        if st[0] in ("set", "setblock", "macro"):
            break
        rest.append(st)
    if not prefix or not rest:
        return None
    assigned = set(); _assigned_names(rest, assigned)
    read = set()
    for st in prefix:
        if st[0] == "macro": _names_read(st, read)
    if assigned & read:
        return None
    defined = []
    for st in prefix:
        for n in ([st[1]] if isinstance(st[1], str) else list(st[1])):
            if n not in defined: defined.append(n)
    return prefix, rest, defined


def capture_family():
    """(body, ctx): leading set-blocks of every shape (plain, with a filter, bodies with loops / ifs / macro
    calls / nested set-blocks / filter blocks), variables and macros depending on them, then their uses"""
    V = lambda x: ("var", x); E = lambda e: ("emit", e); R = lambda t: ("raw", t)
    ctx = {"name": "World", "seq": [1, 2, 3], "flag": True}
    bodies = [
        [R("Hello "), E(V("name"))],
        [("for", "x", V("seq"), None, [R("<"), E(V("x")), ("if", [(("not", ("attr", V("loop"), "last")), [R(",")])], None), R(">")], None, False)],
        [("if", [(V("flag"), [R("yes "), E(V("name"))])], [R("no")])],
        [("setblock", "inner", [R("in "), E(V("name"))], "upper"), E(V("inner")), R("!")],
        [("filterblock", "upper", [R("shout "), E(V("name"))])],
        [R(" padded "), E(("filter", "length", V("seq"), []))],
    ]
    out = []
    for bi, b in enumerate(bodies):
        for flt in (None, "upper", "trim"):
            sb = ("setblock", "h", b, flt)
            uses = [R("["), E(V("h")), R("]"), E(("test", "defined", V("h"), [], False)), E(("filter", "length", V("h"), []))]
            out.append(([sb] + uses, ctx))
            out.append(([("set", "p", ("bin", "~", ("str", "P "), V("name"))), sb, ("set", "both", ("bin", "~", V("p"), V("h")))] + uses + [E(V("both"))], ctx))
            out.append(([sb, ("macro", "greet", ["who"], [("who", V("h"))], [E(V("h")), R("/"), E(V("who")), R("!")])]
                        + [E(("call", "greet", [], [])), R("|"), E(("call", "greet", [("str", "you")], []))] + uses, ctx))
            out.append(([("macro", "mk", [], [], [("setblock", "loc", b, flt), R("("), E(V("loc")), R(")")]), sb]
                        + [E(("call", "mk", [], []))] + uses, ctx))
            out.append(([sb, ("setblock", "h2", [E(V("h")), R("+"), E(V("h"))], None), ("set", ["u", "v"], ("list", [V("h"), V("h2")]))]
                        + uses + [E(V("h2")), E(V("u")), E(V("v"))], ctx))
    return out


def main():
    chk = Check("C03", "proof")
    chk.cov["trusted_base"] = TRUSTED_COMMON + ["Print Assumptions of the C03 theorems: see coverage.theorems",
        "the reference interpreter Lang/Interp.v is the specification (written from the documented semantics); tools/langenc.py + Lang/Codec.v (AST encoding) and tools/proggen.py (source printer) are unverified glue; the parser is covered by rendering the printed source",
        "L2: coq/theories/L2/Compile.v and L2/Vm.v are hand-written mirrors of codegen.rs and eval_impl; Compile.v is tied to the code by comparing its stream with the real one on every generated program (this file: JSON -> canonical translation, the parser's view of the generated AST - negative literals, merged template data -, LocalId recomputed from the stream, order within Enclose runs ignored, none/undefined constants both `null` in the JSON); Vm.v by the three-way output agreement; the simulation theorems (compile_correct, compile_error) cover the whole Lang syntax"]
    chk.assumptions = ["fragment: expressions (arithmetic, comparison chains, and/or/not, in, ~, if-expressions, lists, MAP literals, subscripts and attributes of lists / maps / loop, filters length/upper/lower/trim/capitalize/string/abs/default/first/last/join/list/items/..., tests defined/undefined/odd/even/none/mapping, range), printing of nested lists and maps (Python-style repr), if/elif/else, for with else / filter / loop variable / break / continue over lists, strings and maps, set and with (also with a two-name unpacking target), set-block (with filter), macros with defaults and keyword arguments, call blocks with caller(), filter blocks; ASCII strings; integers far from the i128 bounds",
                       "bytecode level: forward simulation proved for the whole Lang syntax (expressions incl. calls, all statements incl. filtered loops, macros, call blocks), for successful runs (same final state) and for failing runs (same error kind; nothing about the output before the error); everything outside the Lang syntax: stream correspondence + three-way output agreement only",
                       "maps: ValueMap of the default build (BTreeMap: entries in key order; the harness is built without feature preserve_order), keys of the fragment are scalars (strings, ints, bools, none), context maps have string keys (JSON); `m|items` yields [key, value] LISTS in the model where the engine yields 2-tuples (same items; printed with parentheses, unequal to lists): the generators only unpack them; `|last` refuses maps in the engine (filters.rs::last accepts sequences and iterables only) although `|first` accepts them: modelled as found, not generated",
                       "unpacking set / with with a two-name target are in the Lang syntax (any right-hand side); tuple right-hand sides, three or nested targets are outside it: the engine's rendering is compared with the reference interpreter's verdict on an element-wise equivalent program of the fragment (sequential sets through fresh temporaries)",
                       "loop.previtem / nextitem / depth / depth0 / cycle / changed are outside Lang's loop object (7 attributes): compared engine-side only with the oracle _attr_val of this file (position in the iterated sequence; trusted Python), for iterables with a known length",
                       "parser precedence / associativity: tied through the minimal-parentheses printing min_expr of this file (grammar levels read off parser.rs: if-else < or < and < not < comparison < + - < ~ < * // % < unary minus / postfix / filter / test < primary; a test without arguments keeps its parentheses in front of a token the parser would take as its argument); extends and from-import are outside Lang: only the wrapping equivalence (leading set / set-block / macro definitions moved to the top level of a child template or into a library, programs whose prefix macros read names the rest assigns are skipped, failing programs are not compared)"]
    okm, blog = build_models("C03")
    proofs_ok = chk.run_proofs()
    okc, clog = cargo_build(["prog"], release=False)
    okr, clog2 = cargo_build(["prog"], release=True)
    if not (okc and okr):
        chk.violation("harness does not build against the current tree", {"theorem_or_correspondence": "build harness/src/bin/prog.rs", "log": (clog + clog2)[-1500:]}, True)
        chk.finish()
    if not okm:
        chk.violation("model build failed", {"theorem_or_correspondence": "coq/theories/Lang + L2 build", "log": blog[-1500:]}, True)
        chk.finish()
    progs = []      # (body, ctx, mode)
    equiv = []      # (index of the right program in progs, kind, left source)
    oracle_cases = []   # (template, ctx, expected output, kind): loop attributes against the oracle of this file
    if chk.replay:
        rp = json.load(open(chk.replay))["replay"]
        progs.append((eval(rp["ast"]), rp["context"], rp.get("mode", "lenient")))
        if "left_template" in rp:
            equiv.append((0, rp.get("kind", "equivalence"), rp["left_template"]))
        if "expected_output" in rp:
            oracle_cases.append((rp["oracle_template"], rp["context"], rp["expected_output"], rp.get("kind", "flat")))
        n_stmt = 1
    else:
        n = 30000 if chk.thorough else 2500
        for j in range(n):
            g = proggen.Gen(chk.rng, {"autoescape": False}, max_depth=2 + chk.rng.below(3))
            ctx, kinds = proggen.default_context(chk.rng)
            progs.append((g.template(kinds), ctx, "lenient"))
        # exhaustive small family around what a macro / call-block body can see (closures, scoping)
        fam = proggen.closure_family() if hasattr(proggen, "closure_family") else []
        for body, ctx in fam:
            progs.append((body, ctx, "lenient"))
        chk.cov["closure_family_cases"] = len(fam)
        sib = sibling_family()
        for body, ctx in sib:
            progs.append((body, ctx, "lenient"))
        chk.cov["sibling_family_cases"] = len(sib)
        lrf = loop_and_rebinding_family()
        for body, ctx in lrf:
            progs.append((body, ctx, "lenient"))
        chk.cov["loop_and_rebinding_family_cases"] = len(lrf)
        mf = map_family()
        for body, ctx in mf:
            for md in ("lenient", "strict", "semistrict", "chainable"):
                progs.append((body, ctx, md))
        chk.cov["map_family_cases"] = 4 * len(mf)
        litf = literal_family(chk.rng, 15000 if chk.thorough else 1500)
        for body, ctx in litf:
            progs.append((body, ctx, "lenient"))
        chk.cov["literal_family_cases"] = len(litf)
        mc_plain, mc_equiv = macro_call_family()
        for body, ctx in mc_plain:
            progs.append((body, ctx, "lenient"))
        chk.cov["macro_call_family_cases"] = len(mc_plain) + len(mc_equiv)
        for kind, left, right, ctx in mc_equiv:
            equiv.append((len(progs), kind, left))
            progs.append((right, ctx, "lenient"))
        prf = precedence_family()
        for body, ctx in prf:
            progs.append((body, ctx, "lenient"))
        chk.cov["precedence_family_cases"] = len(prf)
        capf = capture_family()
        cap_start = len(progs)
        for body, ctx in capf:
            progs.append((body, ctx, "lenient"))
        # every program with leading definitions: as the child of a trivial layout (definitions at the child's top level, the rest
        # in the one block) and as a library (the definitions) + a template importing all its names: both must render what it does alone
        BASE = "{% block body %}{% endblock %}"
        n_wrap = 0
        for i in list(range(0, min(n, 1500 if not chk.thorough else n))) + list(range(cap_start, cap_start + len(capf))):
            body, ctx, mode = progs[i]
            w = wrap_program(body)
            if w is None:
                continue
            prefix, rest, defined = w
            j = i
            if prefix + rest != body:
                j = len(progs); progs.append((prefix + rest, ctx, mode))
            pre_src, rest_src = proggen.body_src(prefix), proggen.body_src(rest)
            if not rest_src.endswith("\n"):        # (the final newline of a template is dropped, the one in front of endblock is not)
                equiv.append((j, "extends_child", {"main": '{% extends "base" %}' + pre_src + "{% block body %}" + rest_src + "{% endblock %}", "base": BASE}))
            equiv.append((j, "from_import", {"main": '{% from "lib" import ' + ", ".join(defined) + " %}" + rest_src, "lib": pre_src}))
            n_wrap += 1
        chk.cov["wrapped_programs"] = n_wrap
        # constructs outside the Lang syntax, through their element-wise equivalents inside it
        oracle_cases = loop_attr_family(chk.rng, 3000 if chk.thorough else 300)
        for kind, left, right, ctx in equivalence_family(chk.rng, 0):
            equiv.append((len(progs), kind, left))
            progs.append((right, ctx, "lenient"))
        n_stmt = len(progs)
        progs += gen_expr_cases(chk, 40000 if chk.thorough else 4000)
    reqs, cases, cases_pv, names = [], [], [], []
    for body, ctx, mode in progs:
        reqs.append({"templates": {"main": proggen.body_src(body)}, "main": "main", "ctx": ctx, "undefined": mode,
                     "ops": ["render", "instructions"]})
        cases.append(langenc.request(body, ctx, mode=mode)[0])
        enc, N = langenc.request(pv_body(body), ctx, mode=mode)
        cases_pv.append(enc); names.append(N)
    model = run_model("C03", "c03", cases)
    mstreams = run_model("C03", "c03-compile", cases_pv)
    mvm = run_model("C03", "c03-vm", cases_pv)
    hist = collections.Counter()
    bad = []
    nontriv = set()
    impl_dbg = None
    for rel in (False, True):
        impl = run_prog(reqs, release=rel)
        if not rel:
            impl_dbg = impl
        for i, (r, m) in enumerate(zip(impl, model)):
            e = expect(r)
            if e != m:
                bad.append((i, rel, e, m))
            if not rel:
                if e[:1] == [0]:
                    hist["render_ok"] += 1
                    if e[1] > 0 and (count_nodes(progs[i][0]) >= 3 or i >= n_stmt):
                        nontriv.add(reqs[i]["templates"]["main"] + json.dumps(progs[i][1], sort_keys=True) + progs[i][2])
                elif e[:1] == [1]:
                    hist["render_err_" + ERR_NAMES.get(e[1], str(e[1]))] += 1
    # ---- constructs outside the Lang syntax: engine on the left template vs interpreter on the equivalent program ----
    eq_bad = []
    eq_hist = collections.Counter()
    if equiv:
        ereqs = [{"templates": (left if isinstance(left, dict) else {"main": left}), "main": "main", "ctx": progs[i][1], "undefined": progs[i][2], "ops": ["render"]}
                 for i, kind, left in equiv]
        for rel in (False, True):
            for (i, kind, left), r in zip(equiv, run_prog(ereqs, release=rel)):
                e = expect(r)
                if not rel:
                    eq_hist[kind] += 1
                    eq_hist[kind + ("_ok" if e[:1] == [0] else "_err")] += 1
                    if e[:1] == [0] and e[1] > 0:
                        nontriv.add(json.dumps(left) + json.dumps(progs[i][1], sort_keys=True))
                if kind in ("extends_child", "from_import") and model[i][:1] != [0]:
                    continue        # a failing program fails through the layout / the import with another kind (BadInclude): not compared
                if e != model[i]:
                    eq_bad.append((i, kind, left, rel, e))
    # ---- loop attributes in every read order: engine vs the oracle on the iterated sequence ----
    or_bad = []
    or_hist = collections.Counter()
    if oracle_cases:
        oreqs = [{"templates": {"main": src}, "main": "main", "ctx": ctx, "undefined": "lenient", "ops": ["render"]} for src, ctx, _, _ in oracle_cases]
        for rel in (False, True):
            for (src, ctx, exp, kind), r in zip(oracle_cases, run_prog(oreqs, release=rel)):
                rr = r.get("render", r)
                if not rel:
                    or_hist[kind] += 1
                    if rr.get("ok"):
                        nontriv.add(src)
                if rr.get("ok") != exp:
                    or_bad.append((src, ctx, exp, kind, rel, rr))
    # ---- L2: model VM on the model stream vs interpreter (vs engine: `bad` above) ----
    vm_bad = [i for i in range(len(progs)) if mvm[i] != model[i]]
    # ---- L2: model stream vs real stream ----
    mismatches = []
    n_instr = 0
    opc = collections.Counter()
    for i, r in enumerate(impl_dbg):
        ins = r.get("instructions")
        if not ins:
            hist["not_compiled"] += 1
            continue
        rs = real_stream(ins["main"])
        n_instr += len(rs)
        for t in rs:
            opc[t[0]] += 1
        ms = model_stream(mstreams[i], names[i])
        d = {"index": -1, "model": "undecodable request", "real": ""} if ms is None else first_diff(ms, rs)
        if d:
            mismatches.append((i, d))
    # ---- the same programs printed with minimal parentheses: same rendering, same instruction stream ----
    mp_bad = []
    mp_idx = []
    for i, (body, ctx, mode) in enumerate(progs):
        try:
            msrc = min_body(body)
        except (ValueError, KeyError):
            continue
        if msrc != reqs[i]["templates"]["main"]:
            mp_idx.append((i, msrc))
    if mp_idx:
        mreqs = [{"templates": {"main": msrc}, "main": "main", "ctx": progs[i][1], "undefined": progs[i][2], "ops": ["render", "instructions"]} for i, msrc in mp_idx]
        for (i, msrc), r in zip(mp_idx, run_prog(mreqs, release=False)):
            e = expect(r)
            ins = r.get("instructions")
            d = None
            if ins and impl_dbg[i].get("instructions"):
                d = first_diff(real_stream(impl_dbg[i]["instructions"]["main"]), real_stream(ins["main"]))
            elif bool(ins) != bool(impl_dbg[i].get("instructions")):
                d = {"index": -1, "model": "compiles" if impl_dbg[i].get("instructions") else "does not compile", "real": "compiles" if ins else "does not compile"}
            if e != model[i] or d:
                mp_bad.append((i, msrc, e, d))
    bad_idx = {i for i, _, _, _ in bad}
    harmless, harmful = [], []
    extra_ctx_runs = 0
    for i, d in mismatches[:60]:
        body, ctx, mode = progs[i]
        src = reqs[i]["templates"]["main"]
        agrees = i not in bad_idx
        if agrees:
            # deepen: the same program under more contexts, engine vs interpreter
            xr, xc = [], []
            for _ in range(6):
                c2, _k = proggen.default_context(chk.rng)
                xr.append({"templates": {"main": src}, "main": "main", "ctx": c2, "undefined": mode, "ops": ["render"]})
                xc.append(langenc.request(body, c2, mode=mode)[0])
            xm = run_model("C03", "c03", xc)
            for rel in (False, True):
                xi = run_prog(xr, release=rel)
                extra_ctx_runs += len(xr)
                for k in range(len(xr)):
                    if expect(xi[k]) != xm[k]:
                        agrees = False
                        bad.append((len(progs), rel, expect(xi[k]), xm[k]))
                        progs.append((body, xr[k]["ctx"], mode)); reqs.append(xr[k])
                        break
                if not agrees:
                    break
        acc = c05_accepts(impl_dbg[i]["instructions"]["main"]) if agrees else None
        entry = {"template": src, "context": ctx, "mode": mode, "first_difference": d, "rendering_agrees": agrees, "c05_checker_accepts": acc}
        (harmless if (agrees and acc) else harmful).append((i, entry))
    for i, entry in harmless[:8]:
        log("STREAM-MISMATCH (harmless: rendering agrees, verified checker accepts):", json.dumps(entry)[:400])
    kinds = collections.Counter()
    sizes = collections.Counter()
    for body, _, _ in progs[:n_stmt]:
        kinds_in(body, kinds)
        sizes["nodes_%d" % (10 * (min(count_nodes(body), 99) // 10))] += 1
    # kernel cross-check of the extracted interpreter, compiler and VM on a few small programs
    small = sorted(range(n_stmt), key=lambda i: len(cases[i]))[:12]
    kern = kernel_eval("run", [cases[i] for i in small], "k_C03", imports="Common.Base C03.Runner")
    kern_ok = kern is not None and all(kern[j] == model[small[j]] for j in range(len(small)))
    small2 = sorted(range(len(progs) if chk.replay else n_stmt), key=lambda i: len(cases_pv[i]))[:8]
    kern2 = kernel_eval("(fun l => compile l ++ (-1) :: run_vm_req l)", [cases_pv[i] for i in small2], "k_C03_l2", imports="Common.Base C03.Runner")
    kern2_ok = kern2 is not None and all(kern2[j] == mstreams[small2[j]] + [-1] + mvm[small2[j]] for j in range(len(small2)))
    chk.cov["evaluations"] = 2 * len(progs) + extra_ctx_runs
    chk.cov["distinct_nontrivial"] = len(nontriv)
    chk.cov["programs"] = len(progs)
    chk.cov["rule"] = ("typed random core-fragment programs (depth 2-4) x random contexts of ints/strings/bools/lists/maps, the map_family of this file under all four undefined modes, the exhaustive closure/scoping family of tools/proggen.py::closure_family, the families of this file (sibling_family: macros of one scope sharing free names, one re-binds a name locally, the others are called afterwards, recursion + call blocks; loop_and_rebinding_family: `loop` in the filter / subject / else part of an inner loop, one name called while bound to different callables; equivalence_family: unpacking set / with and loops over strings through their element-wise equivalents inside the fragment; loop_attr_family: all 13 loop attributes in every read order against an oracle on the iterated sequence, engine only; literal_family: expressions whose operands are all literals - what the compiler folds -: every pair / triple of comparison operators in a chain over equal, monotone and non-monotone literal operands, the chains inside if / elif / loop filter / set / with / macro default / argument, random literal-only expressions; macro_call_family: macros with 2-5 parameters called with every positional prefix x every subset of the remaining parameters by keyword in every order incl. gaps, the error cases, the same through call blocks with keyword arguments and through caller(...) into call blocks with parameters - the last two by equivalence with plain macros; precedence_family: every expression form directly under every other one in every operand position its type admits, operator chains, chained conditionals; capture_family: leading set-blocks of every shape feeding variables and macros; EVERY program is also printed with minimal parentheses - same rendering and same instruction stream required -, and the programs with leading definitions also run as the child of a trivial layout and as library + from-import), plus standalone expressions `{{ e }}` (depth 2-4, "
                       "possibly undefined variables, all four undefined modes); each rendered by the engine (debug+release), by the extracted reference interpreter and by the "
                       "extracted model VM on the model compiler's stream; each program's real instruction stream compared with the model compiler's; "
                       "non-trivial = distinct (program, context, mode) rendering to non-empty output without error, programs with >= 3 statement nodes")
    chk.cov["samples"] = [reqs[i]["templates"]["main"] for i in (0, n_stmt // 2, max(0, n_stmt - 1), len(reqs) - 1)]
    chk.cov["distribution"] = {"outcomes": dict(hist), "constructs": dict(kinds), "sizes": dict(sizes), "real_opcodes": dict(opc)}
    chk.cov["engine_vs_interpreter_disagreements"] = len(bad)
    chk.cov["minimal_parentheses"] = {"programs_reprinted": len(mp_idx), "disagreements": len(mp_bad),
                                      "rule": "every program whose printing with only the necessary parentheses (min_expr: documented precedence and associativity) differs from the fully parenthesized one: engine(minimal source) must render the interpreter's verdict on the AST and compile to the instruction stream of the parenthesized source"}
    chk.cov["loop_attr_family"] = {"cases": dict(or_hist), "disagreements": len(or_bad),
                                   "rule": "engine output = oracle of tools/props/C03.py (_attr_val) on the iterated sequence: 13 loop attributes (incl. previtem, nextitem, depth, depth0, cycle, changed) in every ordered pair (first read in every iteration / only in iteration 1, 2, 3), every ordered triple of the 8 attributes sharing iterator state, random permutations; lists, strings, maps, range, lazy filter results, filtered, empty, nested (outer loop read from inside), recursive loops"}
    chk.cov["equivalence_family"] = {"cases": dict(eq_hist), "disagreements": len(eq_bad),
                                     "rule": "engine(left template) = reference interpreter(element-wise equivalent inside the Lang syntax); tuple right-hand sides / three or nested targets of unpacking set / with are tied to the reference semantics by this equivalence only (two-name targets and loops over strings are also compared directly)"}
    chk.cov["kernel_crosscheck"] = {"cases": len(small) + len(small2), "agree": bool(kern_ok and kern2_ok)}
    chk.cov["l2"] = {"streams_compared": len(impl_dbg) - hist["not_compiled"], "instructions_compared": n_instr,
                     "stream_mismatch": len(mismatches), "stream_mismatch_harmless": len(harmless),
                     "stream_mismatch_samples": [e for _, e in (harmful + harmless)[:5]],
                     "vm_vs_interpreter_disagreements": len(vm_bad), "three_way_cases": len(progs),
                     "expression_cases": len(progs) - n_stmt,
                     "compared": "opcode, jump targets, constants, names, argument counts, LocalIds (recomputed), loop / macro flags"}
    floor = hist["render_ok"] / max(1, len(progs))
    chk.cov["ok_fraction"] = round(floor, 3)
    seen = set()
    for i, rel, e, m in bad[:40]:
        if len(seen) >= 4:
            break
        body, ctx, mode = progs[i]
        def still(b):
            src = proggen.body_src(b)
            r = run_prog([{"templates": {"main": src}, "main": "main", "ctx": ctx, "undefined": mode, "ops": ["render"]}], release=rel)[0]
            mm = run_model("C03", "c03", [langenc.request(b, ctx, mode=mode)[0]])[0]
            ee = expect(r)
            return ee != mm and ee[:1] == e[:1] and mm[:1] == m[:1]
        small_body = proggen.shrink(body, still, budget=150)
        src = proggen.body_src(small_body)
        if src in seen:
            continue
        seen.add(src)
        r = run_prog([{"templates": {"main": src}, "main": "main", "ctx": ctx, "undefined": mode, "ops": ["render"]}], release=rel)[0]
        mm = run_model("C03", "c03", [langenc.request(small_body, ctx, mode=mode)[0]])[0]
        chk.violation("engine output differs from the reference semantics",
                      {"template": src, "context": ctx, "mode": mode, "profile": "release" if rel else "debug", "engine": r.get("render", r),
                       "reference": ("".join(chr(c) for c in mm[2:]) if mm[:1] == [0] else mm), "ast": repr(small_body)})
    for i, msrc, e, d in sorted(mp_bad, key=lambda t: len(t[1]))[:3]:
        body, ctx, mode = progs[i]
        def still_mp(b):
            try:
                ms2 = min_body(b)
            except (ValueError, KeyError):
                return False
            r2 = run_prog([{"templates": {"main": ms2}, "main": "main", "ctx": ctx, "undefined": mode, "ops": ["render"]}])[0]
            m2 = run_model("C03", "c03", [langenc.request(b, ctx, mode=mode)[0]])[0]
            return expect(r2) != m2
        sb = proggen.shrink(body, still_mp, budget=120) if e != model[i] else body
        ms2 = min_body(sb)
        r2 = run_prog([{"templates": {"main": ms2}, "main": "main", "ctx": ctx, "undefined": mode, "ops": ["render"]}])[0]
        m2 = run_model("C03", "c03", [langenc.request(sb, ctx, mode=mode)[0]])[0]
        chk.violation("the parser does not group an expression written without redundant parentheses as the documented precedence / associativity says (rendering or instruction stream differs from the fully parenthesized source)",
                      {"template": ms2, "parenthesized_template": proggen.body_src(sb), "context": ctx, "mode": mode, "engine": r2.get("render", r2),
                       "reference": ("".join(chr(c) for c in m2[2:]) if m2[:1] == [0] else m2), "first_stream_difference_vs_parenthesized": d, "ast": repr(sb)})
    seen_or = set()
    for src, ctx, exp, kind, rel, rr in sorted(or_bad, key=lambda t: len(t[0])):
        if src in seen_or or len(seen_or) >= 3:
            continue
        seen_or.add(src)
        chk.violation("loop attributes do not describe the sequence actually iterated (value depends on which attributes were read before)",
                      {"template": src, "oracle_template": src, "context": ctx, "kind": kind, "profile": "release" if rel else "debug",
                       "engine": rr.get("ok", rr), "expected_output": exp, "ast": repr([("raw", "x")]), "mode": "lenient"})
    seen_eq = set()
    for i, kind, left, rel, e in eq_bad:
        if kind in seen_eq:
            continue
        seen_eq.add(kind)
        m = model[i]
        chk.violation({"unpack_set": "unpacking set does not evaluate the right-hand side completely before binding the targets (differs from its sequential equivalent under the reference semantics)",
                       "unpack_with": "unpacking with-assignment does not evaluate the right-hand side completely before binding the targets (differs from its sequential equivalent under the reference semantics)",
                       "string_loop": "a loop over a string is not the loop over its characters (loop.* fields / items differ from the reference semantics of the character list)",
                       "callblock_kwargs": "a macro called through a call block with keyword arguments does not bind them as the same call of a plain macro does under the reference semantics",
                       "extends_child": "a program whose leading definitions (set / set-block / macro) stand at the top level of a template extending a trivial layout and whose other statements stand in its one block does not render what it renders alone",
                       "from_import": "a program whose leading definitions (set / set-block / macro) are imported with from-import from a library template does not render what it renders alone",
                       "caller_params": "caller(...) does not bind the parameters of the call block as the same call of a plain macro does under the reference semantics"}.get(kind, "engine output differs from the reference semantics of the equivalent program"),
                      {"template": left, "left_template": left, "kind": kind, "context": progs[i][1], "mode": progs[i][2], "profile": "release" if rel else "debug",
                       "engine": ("".join(chr(c) for c in e[2:]) if e[:1] == [0] else e),
                       "reference": ("".join(chr(c) for c in m[2:]) if m[:1] == [0] else m),
                       "equivalent_template": reqs[i]["templates"]["main"], "ast": repr(progs[i][0])})
    for i, entry in harmful[:3]:
        if entry["rendering_agrees"]:
            chk.violation("the compiler's instruction stream differs from the model compiler's and the verified balance checker rejects it",
                          dict(entry, ast=repr(progs[i][0])))
        elif not chk.violations:
            chk.violation("the compiler's instruction stream differs from the model compiler's and rendering disagrees with the reference semantics",
                          dict(entry, ast=repr(progs[i][0])))
    for i in vm_bad[:2]:
        chk.violation("model VM on the model compiler's stream disagrees with the reference interpreter (L2 model inconsistent with compile_correct)",
                      {"theorem_or_correspondence": "c03-vm vs c03", "template": reqs[i]["templates"]["main"], "context": progs[i][1], "mode": progs[i][2],
                       "vm": mvm[i][:40], "interpreter": model[i][:40], "ast": repr(progs[i][0])}, True)
    if not chk.violations:
        if floor < 0.5 and not chk.replay:
            chk.violation("generator degenerated: fewer than half of the programs render without error", {"theorem_or_correspondence": "tools/proggen.py distribution", "ok_fraction": floor}, True)
        if not (kern_ok and kern2_ok):
            chk.violation("kernel evaluation disagrees with the extracted interpreter / compiler / VM", {"theorem_or_correspondence": "vm_compute cross-check of extraction"}, True)
        if not proofs_ok:
            chk.violation("proof obligations of C03 do not check", {"theorem_or_correspondence": chk.proof["problems"]}, True)
    chk.finish()


if __name__ == "__main__":
    main()
