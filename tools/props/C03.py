#!/usr/bin/env python3
"""C03 - core language constructs render according to the documented semantics (DESIGN.md §3 C03).

The reference interpreter (coq/theories/Lang/Interp.v, extracted) is the property's oracle: the engine
must render every generated core-fragment program exactly as the interpreter does."""
import os, sys, collections
sys.path.insert(0, os.path.dirname(os.path.dirname(os.path.abspath(__file__))))
from vlib import *
import proggen, langenc


def expect(r):
    rr = r.get("render", r)
    if "ok" in rr:
        return [0, len(rr["ok"])] + [ord(c) for c in rr["ok"]]
    if "err" in rr:
        return [1, rr["err"]]
    return ["crash", json.dumps(r)[:200]]


def count_nodes(body):
    n = 0
    for s in body:
        n += 1
        for b in proggen._sub_bodies(s):
            n += count_nodes(b)
    return n


def kinds_in(body, acc):
    for s in body:
        acc[s[0]] += 1
        if s[0] == "for":
            if s[3] is not None: acc["for_filter"] += 1
            if s[5] is not None: acc["for_else"] += 1
        for b in proggen._sub_bodies(s):
            kinds_in(b, acc)


def main():
    chk = Check("C03", "proof")
    chk.cov["trusted_base"] = TRUSTED_COMMON + ["Print Assumptions of the C03 theorems: see coverage.theorems",
        "the reference interpreter Lang/Interp.v is the specification (written from the documented semantics); tools/langenc.py + Lang/Codec.v (AST encoding) and tools/proggen.py (source printer) are unverified glue; the parser is covered by rendering the printed source"]
    chk.assumptions = ["fragment: expressions (arithmetic, comparison chains, and/or/not, in, ~, if-expressions, lists, subscripts, loop.* attributes, filters length/upper/lower/trim/capitalize/string/abs/default, tests defined/undefined/odd/even, range), if/elif/else, for with else / filter / loop variable / break / continue, set, set-block (with filter), with, macros with defaults and keyword arguments, call blocks with caller(), filter blocks; ASCII strings; integers far from the i128 bounds"]
    okm, blog = build_models("C03")
    proofs_ok = chk.run_proofs()
    okc, clog = cargo_build(["prog"], release=False)
    okr, clog2 = cargo_build(["prog"], release=True)
    if not (okc and okr):
        chk.violation("harness does not build against the current tree", {"theorem_or_correspondence": "build harness/src/bin/prog.rs", "log": (clog + clog2)[-1500:]}, True)
        chk.finish()
    if not okm:
        chk.violation("model build failed", {"theorem_or_correspondence": "coq/theories/Lang build", "log": blog[-1500:]}, True)
        chk.finish()
    progs = []
    if chk.replay:
        rp = json.load(open(chk.replay))["replay"]
        progs.append((eval(rp["ast"]), rp["context"]))
    else:
        n = 30000 if chk.thorough else 2500
        for j in range(n):
            g = proggen.Gen(chk.rng, {"autoescape": False}, max_depth=2 + chk.rng.below(3))
            ctx, kinds = proggen.default_context(chk.rng)
            progs.append((g.template(kinds), ctx))
    reqs, cases = [], []
    for body, ctx in progs:
        reqs.append({"templates": {"main": proggen.body_src(body)}, "main": "main", "ctx": ctx, "ops": ["render"]})
        cases.append(langenc.request(body, ctx)[0])
    model = run_model("C03", "c03", cases)
    hist = collections.Counter()
    bad = []
    nontriv = set()
    for rel in (False, True):
        impl = run_prog(reqs, release=rel)
        for i, (r, m) in enumerate(zip(impl, model)):
            e = expect(r)
            if e != m:
                bad.append((i, rel, e, m))
            if not rel:
                if e[:1] == [0]:
                    hist["render_ok"] += 1
                    if e[1] > 0 and count_nodes(progs[i][0]) >= 3:
                        nontriv.add(reqs[i]["templates"]["main"] + json.dumps(progs[i][1], sort_keys=True))
                elif e[:1] == [1]:
                    hist["render_err_" + ERR_NAMES.get(e[1], str(e[1]))] += 1
    kinds = collections.Counter()
    sizes = collections.Counter()
    for body, _ in progs:
        kinds_in(body, kinds)
        sizes["nodes_%d" % (10 * (min(count_nodes(body), 99) // 10))] += 1
    # kernel cross-check of the extracted interpreter on a few small programs
    small = sorted(range(len(cases)), key=lambda i: len(cases[i]))[:12]
    kern = kernel_eval("run", [cases[i] for i in small], "k_C03", imports="Common.Base C03.Runner")
    kern_ok = kern is not None and all(kern[j] == model[small[j]] for j in range(len(small)))
    chk.cov["evaluations"] = 2 * len(progs)
    chk.cov["distinct_nontrivial"] = len(nontriv)
    chk.cov["rule"] = "typed random core-fragment programs (depth 2-4) x random contexts of ints/strings/bools/lists, rendered by the engine (debug+release) and by the extracted reference interpreter; non-trivial = distinct (program, context) with >= 3 statement nodes rendering to non-empty output without error"
    chk.cov["samples"] = [reqs[i]["templates"]["main"] for i in (0, len(reqs) // 2, len(reqs) - 1)]
    chk.cov["distribution"] = {"outcomes": dict(hist), "constructs": dict(kinds), "sizes": dict(sizes)}
    chk.cov["engine_vs_interpreter_disagreements"] = len(bad)
    chk.cov["kernel_crosscheck"] = {"cases": len(small), "agree": kern_ok}
    floor = hist["render_ok"] / max(1, len(progs))
    chk.cov["ok_fraction"] = round(floor, 3)
    seen = set()
    for i, rel, e, m in bad[:40]:
        if len(seen) >= 4:
            break
        body, ctx = progs[i]
        def still(b):
            src = proggen.body_src(b)
            r = run_prog([{"templates": {"main": src}, "main": "main", "ctx": ctx, "ops": ["render"]}], release=rel)[0]
            mm = run_model("C03", "c03", [langenc.request(b, ctx)[0]])[0]
            ee = expect(r)
            return ee != mm and ee[:1] == e[:1] and mm[:1] == m[:1]
        small_body = proggen.shrink(body, still, budget=150)
        src = proggen.body_src(small_body)
        if src in seen:
            continue
        seen.add(src)
        r = run_prog([{"templates": {"main": src}, "main": "main", "ctx": ctx, "ops": ["render"]}], release=rel)[0]
        mm = run_model("C03", "c03", [langenc.request(small_body, ctx)[0]])[0]
        chk.violation("engine output differs from the reference semantics",
                      {"template": src, "context": ctx, "profile": "release" if rel else "debug", "engine": r.get("render", r),
                       "reference": ("".join(chr(c) for c in mm[2:]) if mm[:1] == [0] else mm), "ast": repr(small_body)})
    if not chk.violations:
        if floor < 0.5 and not chk.replay:
            chk.violation("generator degenerated: fewer than half of the programs render without error", {"theorem_or_correspondence": "tools/proggen.py distribution", "ok_fraction": floor}, True)
        if not kern_ok:
            chk.violation("kernel evaluation disagrees with the extracted interpreter", {"theorem_or_correspondence": "vm_compute cross-check of extraction"}, True)
        if not proofs_ok:
            chk.violation("proof obligations of C03 do not check", {"theorem_or_correspondence": chk.proof["problems"]}, True)
    chk.finish()


if __name__ == "__main__":
    main()
