#!/usr/bin/env python3
"""C04 - compile-time evaluation is transparent: literals behave like variables (DESIGN.md §3 C04).

Four parts, all on the current tree of the repository:
 A  transparency oracle, directly on the implementation: generated expressions over the literal
    syntax; for EVERY subset of the literal positions the literals are hoisted into context
    variables (typed values built the way the parser builds the constant); all variants must
    load, render (`{{ E }}` and `{{ [E] }}`) and evaluate (compile_expression) identically -
    output, structural value, ErrorKind.  Whole literal units (negated literal, list/tuple/map
    of literals) are hoisted as well.  A folded stream (LoadConst, Emit) must carry the value
    the all-hoisted variant computes at run time.
 B  deferred errors: a constant expression whose evaluation fails never makes loading fail and
    is reported only when executed (guarded positions render normally).
 C  model correspondence: the Gallina folder `as_const` (coq/theories/C04/Model.v) against the
    real one on core-fragment expressions: folds <-> single LoadConst, folded value, run-time
    value vs the reference evaluator Lang/Interp.v; extraction cross-checked by vm_compute.
 D  proof audit of coq/theories/Props/C04.v.
"""
import os, sys, collections, struct, itertools, concurrent.futures
sys.path.insert(0, os.path.dirname(os.path.dirname(os.path.abspath(__file__))))
from vlib import *
import langenc

SEP = "\u0001"
MODES = ["lenient", "strict", "semistrict", "chainable"]

# ---------------------------------------------------------------------------------------------
# rich expression AST (superset of tools/proggen.py's):
#  ("int", n>=0) ("float", bits) ("str", s) ("bool", b) ("none",) ("var", name)
#  ("list", [e..]) ("tuple", [e..]) ("map", [(k, v)..]) ("neg", e) ("not", e)
#  ("bin", op, a, b)  op in + - * / // % ** ~      ("cmp", a, [(op, e)..])  op in == != < <= > >= in notin
#  ("and", a, b) ("or", a, b) ("ifexpr", c, t, f|None) ("item", e, i) ("slice", e, a|None, b|None, c|None)
#  ("filter", name, e, [args], [(kw, e)..]) ("test", name, e, [args], negated) ("call", name, [args], [(kw, e)..])
# ---------------------------------------------------------------------------------------------
ATOMS = ("int", "float", "str", "bool", "none")


def f2b(x):
    return struct.unpack("<Q", struct.pack("<d", x))[0]


def b2f(b):
    return struct.unpack("<d", struct.pack("<Q", b))[0]


def float_src(bits):
    s = repr(b2f(bits))
    assert ("." in s or "e" in s) and not s.startswith("-") and "n" not in s, s
    return s


def quote(s):
    assert "\\" not in s
    if "'" in s:
        assert '"' not in s
        return '"' + s + '"'
    return "'" + s + "'"


def src(e):
    t = e[0]
    if t == "int": return str(e[1])
    if t == "float": return float_src(e[1])
    if t == "str": return quote(e[1])
    if t == "bool": return "true" if e[1] else "false"
    if t == "none": return "none"
    if t == "var": return e[1]
    if t == "list": return "[" + ", ".join(src(x) for x in e[1]) + "]"
    if t == "tuple": return "(" + ", ".join(src(x) for x in e[1]) + ("," if len(e[1]) == 1 else "") + ")"
    if t == "map": return "{" + ", ".join(src(k) + ": " + src(v) for k, v in e[1]) + "}"
    if t == "neg":
        # unary minus binds tighter than subscripts, calls and filters: `-x|abs` is `(-x)|abs`
        inner = src(e[1])
        return "(-" + (inner if e[1][0] in ATOMS + ("var", "list", "tuple", "map") or (inner.startswith("(") and inner.endswith(")") and e[1][0] not in ("filter", "item", "slice")) else "(" + inner + ")") + ")"
    if t == "not": return "(not " + src(e[1]) + ")"
    if t == "bin": return "(" + src(e[2]) + " " + e[1] + " " + src(e[3]) + ")"
    if t == "cmp":
        s = src(e[1])
        for op, r in e[2]:
            s += " " + ("not in" if op == "notin" else op) + " " + src(r)
        return "(" + s + ")"
    if t == "and": return "(" + src(e[1]) + " and " + src(e[2]) + ")"
    if t == "or": return "(" + src(e[1]) + " or " + src(e[2]) + ")"
    if t == "ifexpr":
        return "(" + src(e[2]) + " if " + src(e[1]) + ((" else " + src(e[3])) if e[3] is not None else "") + ")"
    if t == "item": return "(" + src(e[1]) + ")[" + src(e[2]) + "]"
    if t == "slice":
        return "(" + src(e[1]) + ")[" + ":".join("" if x is None else src(x) for x in e[2:5]) + "]"
    if t == "filter":
        args = [src(a) for a in e[3]] + [k + "=" + src(v) for k, v in e[4]]
        return "(" + src(e[2]) + ")|" + e[1] + (("(" + ", ".join(args) + ")") if args else "")
    if t == "test":
        return "(" + src(e[2]) + (" is not " if e[4] else " is ") + e[1] + (("(" + ", ".join(src(a) for a in e[3]) + ")") if e[3] else "") + ")"
    if t == "call":
        args = [src(a) for a in e[2]] + [k + "=" + src(v) for k, v in e[3]]
        return e[1] + "(" + ", ".join(args) + ")"
    if t == "xcall":        # ("xcall", recv|None, name, [(kind, key|None, expr)..])  kind: pos kw psplat ksplat
        args = [{"pos": "", "kw": (k or "") + "=", "psplat": "*", "ksplat": "**"}[kd] + src(x) for kd, k, x in e[3]]
        return (("(" + src(e[1]) + ")|") if e[1] is not None else "") + e[2] + "(" + ", ".join(args) + ")"
    raise ValueError(t)


def kids(e):
    """children in source order, with a rebuild function"""
    t = e[0]
    if t in ATOMS or t == "var": return [], lambda c: e
    if t in ("list", "tuple"): return list(e[1]), lambda c: (t, list(c))
    if t == "map":
        flat = [x for kv in e[1] for x in kv]
        return flat, lambda c: ("map", [(c[i], c[i + 1]) for i in range(0, len(c), 2)])
    if t in ("neg", "not"): return [e[1]], lambda c: (t, c[0])
    if t == "bin": return [e[2], e[3]], lambda c: ("bin", e[1], c[0], c[1])
    if t == "cmp":
        return [e[1]] + [r for _, r in e[2]], lambda c: ("cmp", c[0], [(op, c[i + 1]) for i, (op, _) in enumerate(e[2])])
    if t in ("and", "or"): return [e[1], e[2]], lambda c: (t, c[0], c[1])
    if t == "ifexpr":
        # source order: true-expr, condition, false-expr
        ks = [e[2], e[1]] + ([e[3]] if e[3] is not None else [])
        return ks, lambda c: ("ifexpr", c[1], c[0], c[2] if e[3] is not None else None)
    if t == "item": return [e[1], e[2]], lambda c: ("item", c[0], c[1])
    if t == "slice":
        idx = [i for i in (2, 3, 4) if e[i] is not None]
        def rb(c):
            out = list(e)
            out[1] = c[0]
            for j, i in enumerate(idx):
                out[i] = c[1 + j]
            return tuple(out)
        return [e[1]] + [e[i] for i in idx], rb
    if t == "filter":
        na = len(e[3])
        return [e[2]] + list(e[3]) + [v for _, v in e[4]], lambda c: ("filter", e[1], c[0], list(c[1:1 + na]), [(k, c[1 + na + i]) for i, (k, _) in enumerate(e[4])])
    if t == "test":
        return [e[2]] + list(e[3]), lambda c: ("test", e[1], c[0], list(c[1:]), e[4])
    if t == "call":
        na = len(e[2])
        return list(e[2]) + [v for _, v in e[3]], lambda c: ("call", e[1], list(c[:na]), [(k, c[na + i]) for i, (k, _) in enumerate(e[3])])
    if t == "xcall":
        off = 0 if e[1] is None else 1
        return ([] if e[1] is None else [e[1]]) + [x for _, _, x in e[3]], \
            lambda c: ("xcall", None if e[1] is None else c[0], e[2], [(kd, k, c[off + i]) for i, (kd, k, _) in enumerate(e[3])])
    raise ValueError(t)


def count_atoms(e):
    if e[0] in ATOMS: return 1
    return sum(count_atoms(k) for k in kids(e)[0])


def count_nodes(e):
    return 1 + sum(count_nodes(k) for k in kids(e)[0])


def kinds_of(e, acc):
    acc[e[0] if e[0] not in ("bin", "filter", "call", "test") else e[0] + ":" + e[1]] += 1
    if e[0] == "cmp":
        acc["cmp_chain" if len(e[2]) > 1 else "cmp_single"] += 1
        for op, _ in e[2]:
            acc["cmp:" + op] += 1
    if e[0] in ("filter", "call") and (e[4] if e[0] == "filter" else e[3]):
        acc["kwargs"] += 1
    for k in kids(e)[0]:
        kinds_of(k, acc)


def subexprs(e):
    yield e
    for k in kids(e)[0]:
        yield from subexprs(k)


# ---- printer self-test: the parser's AST of the printed source must be the generated AST ----
P_BIN = {"Add": "+", "Sub": "-", "Mul": "*", "Div": "/", "FloorDiv": "//", "Rem": "%", "Pow": "**", "Concat": "~"}
P_CMP = {"Eq": "==", "Ne": "!=", "Lt": "<", "Lte": "<=", "Gt": ">", "Gte": ">=", "In": "in", "NotIn": "notin"}


def from_parsed(j):
    k, f = j["expr"], j["inner"][0]
    if k == "Const":
        v = f["value"]
        if v is None: return ("none",)
        if isinstance(v, bool): return ("bool", v)
        if isinstance(v, int): return ("int", v)
        if isinstance(v, float): return ("float", f2b(v))
        if isinstance(v, str): return ("str", v)
        raise ValueError(v)
    if k == "Var": return ("var", f["id"])
    if k == "UnaryOp": return ("not" if f["op"] == "Not" else "neg", from_parsed(f["expr"]))
    if k == "BinOp":
        a, b, op = from_parsed(f["left"]), from_parsed(f["right"]), f["op"]
        if op in P_BIN: return ("bin", P_BIN[op], a, b)
        if op in P_CMP: return ("cmp", a, [(P_CMP[op], b)])
        return ("and" if op == "ScAnd" else "or", a, b)
    if k == "Compare": return ("cmp", from_parsed(f["expr"]), [(P_CMP[o["op"]], from_parsed(o["expr"])) for o in f["ops"]])
    if k == "IfExpr": return ("ifexpr", from_parsed(f["test_expr"]), from_parsed(f["true_expr"]), from_parsed(f["false_expr"]) if f["false_expr"] else None)
    if k in ("Filter", "Test", "Call"):
        pos = [from_parsed(a["Pos"]) for a in f["args"] if "Pos" in a]
        kw = [(a["Kwarg"][0], from_parsed(a["Kwarg"][1])) for a in f["args"] if "Kwarg" in a]
        if k == "Filter": return ("filter", f["name"], from_parsed(f["expr"]), pos, kw)
        if k == "Test": return ("test", f["name"], from_parsed(f["expr"]), pos, False)
        return ("call", from_parsed(f["expr"])[1], pos, kw)
    if k == "GetItem": return ("item", from_parsed(f["expr"]), from_parsed(f["subscript_expr"]))
    if k == "Slice": return ("slice", from_parsed(f["expr"])) + tuple(from_parsed(f[x]) if f[x] else None for x in ("start", "stop", "step"))
    if k in ("List", "Tuple"): return (k.lower(), [from_parsed(x) for x in f["items"]])
    if k == "Map": return ("map", [(from_parsed(a), from_parsed(b)) for a, b in zip(f["keys"], f["values"])])
    raise ValueError(k)


def canon(e):
    """the generated AST in the parser's normal form: `a not in b` alone is not(a in b), `is not` is not(is)"""
    ks, rb = kids(e)
    e = rb([canon(k) for k in ks]) if ks else e
    if e[0] == "cmp" and len(e[2]) == 1 and e[2][0][0] == "notin":
        return ("not", ("cmp", e[1], [("in", e[2][0][1])]))
    if e[0] == "test" and e[4]:
        return ("not", ("test", e[1], e[2], e[3], False))
    return e


def from_parsed_d(j):
    """parser AST -> part D AST (calls keep the order of their arguments, splats included)"""
    k, f = j["expr"], j["inner"][0]
    if k in ("Call", "Filter"):
        args = []
        for a in f["args"]:
            if "Pos" in a: args.append(("pos", None, from_parsed_d(a["Pos"])))
            elif "Kwarg" in a: args.append(("kw", a["Kwarg"][0], from_parsed_d(a["Kwarg"][1])))
            elif "PosSplat" in a: args.append(("psplat", None, from_parsed_d(a["PosSplat"])))
            else: args.append(("ksplat", None, from_parsed_d(a["KwargSplat"])))
        if k == "Filter": return ("xcall", from_parsed_d(f["expr"]), f["name"], args)
        return ("xcall", None, from_parsed_d(f["expr"])[1], args)
    if k in ("List", "Tuple"): return (k.lower(), [from_parsed_d(x) for x in f["items"]])
    if k == "Map": return ("map", [(from_parsed_d(a), from_parsed_d(b)) for a, b in zip(f["keys"], f["values"])])
    return from_parsed(j)


def printer_ok_d(e, item):
    try:
        return from_parsed_d(json.loads(item["ast_json"])) == e
    except Exception:
        return False


def printer_ok(e, item):
    try:
        return from_parsed(json.loads(item["ast_json"])) == canon(e)
    except Exception:
        return False


def tv_atom(e):
    t = e[0]
    if t == "int": return {"t": "int", "v": str(e[1])}
    if t == "float": return {"t": "float", "bits": str(e[1])}
    if t == "str": return {"t": "str", "v": e[1]}
    if t == "bool": return {"t": "bool", "v": bool(e[1])}
    if t == "none": return {"t": "none"}
    return None


def tv_literal(e):
    """typed value of a literal unit (atom, negated number, list/tuple/map of literal units), else None"""
    t = e[0]
    if t in ATOMS: return tv_atom(e)
    if t == "neg":
        a = e[1]
        if a[0] == "int" and a[1] < 2 ** 127:       # beyond: negation fails (no literal); -(2^127): ops::neg keeps the u128 (C08's pinned finding)
            return {"t": "int", "v": str(-a[1])}
        if a[0] == "float": return {"t": "float", "bits": str(a[1] ^ (1 << 63))}
        return None
    if t in ("list", "tuple"):
        items = [tv_literal(x) for x in e[1]]
        return None if any(i is None for i in items) else {"t": t, "v": items}
    if t == "map":
        items = [(tv_literal(k), tv_literal(v)) for k, v in e[1]]
        if any(k is None or v is None for k, v in items): return None
        # a literal map with duplicate keys keeps the last value; from_pairs does the same
        return {"t": "map", "v": [[k, v] for k, v in items]}
    return None


def hoist_atoms(e, subset):
    """replaces the atoms whose (source-order) index is in `subset` by variables h<i>"""
    ctx = {}
    counter = [0]

    def go(x):
        if x[0] in ATOMS:
            i = counter[0]
            counter[0] += 1
            if i in subset:
                ctx["h%d" % i] = tv_atom(x)
                return ("var", "h%d" % i)
            return x
        ks, rb = kids(x)
        return rb([go(k) for k in ks]) if ks else x
    return go(e), ctx


def literal_units(e):
    """maximal non-atom literal units, in source order"""
    if e[0] not in ATOMS and tv_literal(e) is not None:
        return [e]
    return [u for k in kids(e)[0] for u in literal_units(k)]


def hoist_units(e, subset):
    ctx = {}
    counter = [0]

    def go(x):
        if x[0] not in ATOMS and tv_literal(x) is not None:
            i = counter[0]
            counter[0] += 1
            if i in subset:
                ctx["u%d" % i] = tv_literal(x)
                return ("var", "u%d" % i)
            return x
        ks, rb = kids(x)
        return rb([go(k) for k in ks]) if ks else x
    return go(e), ctx


# ---------------------------------------------------------------------------------------------
# generator A (rich literal syntax)
# ---------------------------------------------------------------------------------------------
INT_SMALL = [0, 1, 2, 3, 5, 7, 10]
INT_POOL = INT_SMALL + [0, 1, 2, 255, 2 ** 31 - 1, 2 ** 31, 2 ** 32, 2 ** 53, 2 ** 53 + 1, 2 ** 63 - 1, 2 ** 63, 2 ** 63 + 1, 2 ** 64 - 1,
                        2 ** 64, 2 ** 64 + 1, 2 ** 127 - 1, 2 ** 127, 2 ** 127 + 1, 2 ** 128 - 1]
FLOAT_POOL = [f2b(x) for x in (0.0, 0.0, 0.5, 1.0, 1.0, 1.5, 2.0, 3.0, 0.1, 1e16, 1e300, 1e-320, 9007199254740992.0,
                               1.7976931348623157e308, 9.223372036854775808e18, 1.8446744073709552e19, 1.7014118346046923e38)]
STR_POOL = ["", "", "a", "ab", "abc", "b", "0", "1", " ", "A", "<b>", "'", "é", "True", "none", "1.0"]
BASE_CTX = {"ci": {"t": "int", "v": "5"}, "cs": {"t": "str", "v": "ctx"}, "cl": {"t": "list", "v": [{"t": "int", "v": "1"}, {"t": "int", "v": "2"}, {"t": "int", "v": "3"}]},
            "cm": {"t": "map", "v": [[{"t": "str", "v": "a"}, {"t": "int", "v": "1"}]]}, "cz": {"t": "int", "v": "0"}}
MACRO_PRELUDE = "{% macro m(a, b=2, c='z') %}<{{ a }}|{{ b }}|{{ c }}>{% endmacro %}"


class GenA:
    def __init__(self, rng):
        self.r = rng

    def small(self):
        return ("int", self.r.choice([0, 1, 2, 3]))

    def atom(self, want="any"):
        r = self.r
        if want == "any":
            want = r.choice(["num", "num", "str", "bool", "none", "num", "str"])
        if want == "num":
            if r.chance(1, 4): return ("float", r.choice(FLOAT_POOL))
            return ("int", r.choice(INT_POOL if r.chance(1, 2) else INT_SMALL))
        if want == "str": return ("str", r.choice(STR_POOL))
        if want == "bool": return ("bool", r.chance(1, 2))
        if want == "none": return ("none",)
        if want == "seq":
            n = r.below(3)
            return (r.choice(["list", "list", "tuple"]), [self.atom() for _ in range(n)])
        if want == "map":
            n = r.below(3)
            return ("map", [(self.atom(r.choice(["str", "str", "num", "bool", "none"])), self.atom()) for _ in range(n)])
        return self.atom("any")

    def leaf(self, want):
        r = self.r
        if r.chance(1, 12):
            return ("var", {"num": "ci", "str": "cs", "seq": "cl", "map": "cm", "bool": "cz"}.get(want, "u"))
        if want == "num" and r.chance(1, 5):
            return ("neg", self.atom("num"))
        return self.atom(want)

    def gen(self, d, want="any"):
        r = self.r
        if want == "any":
            want = r.choice(["num", "num", "str", "bool", "bool", "seq", "map", "mixed", "mixed"])
        if d <= 0 or r.chance(1, 6):
            return self.leaf(want if want != "mixed" else "any")
        g = self.gen
        if r.chance(1, 10):
            # deliberately ill-typed arithmetic / comparison between arbitrary operands (no repetition operators)
            op = r.choice(["+", "-", "//", "%", "/", "~"])
            return ("bin", op, g(d - 1, "any"), g(d - 1, "any"))
        if want == "num":
            c = r.below(12)
            if c <= 4: return ("bin", r.choice(["+", "-", "*", "//", "%", "/", "+", "-", "*"]), g(d - 1, "num"), g(d - 1, "num"))
            if c == 5: return ("bin", "**", g(d - 1, "num"), ("int", r.choice([0, 1, 2, 3, 63, 64, 127, 128, 2 ** 32])) if r.chance(3, 4) else self.atom("num"))
            if c == 6: return ("neg", g(d - 1, "num"))
            if c == 7: return ("filter", r.choice(["abs", "int", "float", "round"]), g(d - 1, "num"), [], [])
            if c == 8: return ("filter", "length", g(d - 1, r.choice(["seq", "str", "map"])), [], [])
            if c == 9: return ("ifexpr", g(d - 1, "bool"), g(d - 1, "num"), g(d - 1, "num"))
            if c == 10: return ("item", g(d - 1, "seq"), ("int", r.choice([0, 1, 2])) if r.chance(3, 4) else ("neg", ("int", 1)))
            return ("filter", r.choice(["sum", "min", "max", "first", "last"]), ("list", [self.atom("num") for _ in range(r.below(3))]), [], [])
        if want == "str":
            c = r.below(10)
            if c <= 2: return ("bin", "~", g(d - 1, "any"), g(d - 1, "any"))
            if c == 3: return ("bin", "+", g(d - 1, "str"), g(d - 1, "str"))
            if c == 4: return ("bin", "*", g(d - 1, "str"), self.small()) if r.chance(1, 2) else ("bin", "*", self.small(), g(d - 1, "str"))
            if c == 5: return ("filter", r.choice(["upper", "lower", "string", "trim", "title", "capitalize"]), g(d - 1, "str" if r.chance(3, 4) else "any"), [], [])
            if c == 6: return ("filter", "indent", g(d - 1, "str"), [], self.kwargs([("width", "small"), ("first", "bool"), ("blank", "bool")]))
            if c == 7: return ("filter", "join", g(d - 1, "seq"), [self.atom("str")] if r.chance(1, 2) else [], [])
            if c == 8: return ("call", "m", [g(d - 1, "any")] if r.chance(1, 2) else [], self.kwargs([("a", "any"), ("b", "any"), ("c", "any")]))
            return ("filter", "tojson", g(d - 1, "any"), [], self.kwargs([("indent", "small")]))
        if want == "bool":
            c = r.below(12)
            kind = r.choice(["num", "num", "str", "seq", "any"])
            if c <= 2: return ("cmp", g(d - 1, kind), [(r.choice(["==", "!=", "<", "<=", ">", ">="]), g(d - 1, kind))])
            if c <= 4:
                n = 2 + r.below(2)
                return ("cmp", g(d - 1, kind), [(r.choice(["==", "!=", "<", "<=", ">", ">=", "<", "<="]), g(d - 1, kind)) for _ in range(n)])
            if c == 5: return ("cmp", g(d - 1, "any"), [(r.choice(["in", "notin"]), g(d - 1, r.choice(["seq", "seq", "str", "map", "any"])))])
            if c == 6:
                if r.chance(1, 3):      # containment at the end of a chain, string in string
                    return ("cmp", self.atom("str"), [(r.choice(["<", "<=", "!=", ">"]), self.atom("str")), (r.choice(["in", "notin"]), self.atom("str"))])
                return ("cmp", g(d - 1, "num"), [("<", g(d - 1, "num")), (r.choice(["in", "notin"]), g(d - 1, "seq"))])
            if c == 7: return ("not", g(d - 1, "any"))
            if c == 8: return ("test", r.choice(["odd", "even", "defined", "none", "string", "number", "sequence", "true", "false"]), g(d - 1, "any"), [], r.chance(1, 4))
            if c == 9: return ("test", r.choice(["eq", "ne", "lt", "ge", "divisibleby", "in"]), g(d - 1, "any"), [g(d - 1, "any")], False)
            return (r.choice(["and", "or"]), g(d - 1, "bool"), g(d - 1, "bool"))
        if want == "seq":
            c = r.below(10)
            if c <= 2: return (r.choice(["list", "list", "tuple"]), [g(d - 1, "any") for _ in range(r.below(3))])
            if c == 3: return ("bin", "+", g(d - 1, "seq"), g(d - 1, "seq"))
            if c == 4: return ("bin", "*", g(d - 1, "seq"), self.small())
            if c == 5: return ("filter", r.choice(["list", "reverse"]), g(d - 1, "seq"), [], [])
            if c == 6: return ("filter", "sort", g(d - 1, "seq"), [], self.kwargs([("reverse", "bool"), ("case_sensitive", "bool")]))
            if c == 7: return ("filter", "unique", g(d - 1, "seq"), [], self.kwargs([("case_sensitive", "bool")]))
            if c == 8: return ("filter", "dictsort", g(d - 1, "map"), [], self.kwargs([("by", "byval"), ("reverse", "bool"), ("case_sensitive", "bool")]))
            return ("slice", g(d - 1, "seq"), self.small() if r.chance(1, 2) else None, self.small() if r.chance(1, 2) else None, None)
        if want == "map":
            c = r.below(6)
            if c <= 1: return ("map", [(self.atom(r.choice(["str", "num", "bool"])), g(d - 1, "any")) for _ in range(r.below(3))])
            if c <= 3: return ("call", "dict", [], self.kwargs([("a", "any"), ("b", "any"), ("k", "any")], atleast=1))
            if c == 4: return ("call", "dict", [g(d - 1, "map")], self.kwargs([("a", "any"), ("z", "any")]))
            return ("filter", "default", ("var", "u"), [], self.kwargs([("value", "any")]))
        # mixed: operators that hand back one of their operands
        c = r.below(8)
        if c <= 3: return (r.choice(["and", "or"]), g(d - 1, "any"), g(d - 1, "any"))
        if c == 4: return ("ifexpr", g(d - 1, "any"), g(d - 1, "any"), g(d - 1, "any") if r.chance(2, 3) else None)
        if c == 5: return ("filter", "default", g(d - 1, "any") if r.chance(1, 2) else ("var", "u"), [g(d - 1, "any")] + ([("bool", True)] if r.chance(1, 3) else []), [])
        if c == 6: return ("not", ("not", g(d - 1, "any")))
        return ("item", g(d - 1, "map"), self.atom("str"))

    def kwargs(self, spec, atleast=0):
        r = self.r
        out = []

        def val(kind):
            if kind == "small": return self.small()             # widths / indents stay small: huge ones are C01's allocation findings
            if kind == "bool": return ("bool", r.chance(1, 2))
            if kind == "byval": return ("str", r.choice(["value", "key"]))
            return self.atom() if r.chance(4, 5) else ("neg", self.atom("num"))
        for k, kind in spec:
            if r.chance(1, 2) or len(out) < atleast:
                out.append((k, val(kind)))
        if out and r.chance(1, 8):      # a keyword given twice
            k, kind = r.choice([sp for sp in spec if sp[0] in [o[0] for o in out]])
            out.append((k, val(kind)))
        return out


# ---------------------------------------------------------------------------------------------
# part A, chain family: every operator at every position of comparison chains of 2..4 operators
# over operands that are equal by value but differ in kind (true / 1 / 1.0, false / 0 / 0.0, a list
# and the lazy concatenation of its halves, a string and its safe twin, a map and the same map
# written in another key order).  A chain folds with ==, the VM compares the non-final links with
# CompareAndPreserve: literal and hoisted forms must agree for every operator there too.
# ---------------------------------------------------------------------------------------------
def chain_family(rng, extra):
    I = lambda n: ("int", n)
    S = lambda x: ("str", x)
    T, F, ONE, ZERO = ("bool", True), ("bool", False), I(1), I(0)
    ONEF, ZEROF = ("float", f2b(1.0)), ("float", f2b(0.0))
    L12, L12C, T12 = ("list", [I(1), I(2)]), ("bin", "+", ("list", [I(1)]), ("list", [I(2)])), ("tuple", [I(1), I(2)])
    SA, SAS = S("a"), ("filter", "safe", S("a"), [], [])
    M1, M2 = ("map", [(S("a"), I(1)), (S("b"), I(2))]), ("map", [(S("b"), I(2)), (S("a"), I(1))])
    BIG, BIGF = I(2 ** 63), ("float", f2b(9.223372036854775808e18))
    pairs = [(T, ONE), (T, ONEF), (ONE, ONEF), (F, ZERO), (F, ZEROF), (ZERO, ZEROF), (L12, L12C), (L12, T12), (SA, SAS), (M1, M2), (BIG, BIGF),
             (("list", []), ("tuple", [])), (S(""), ("none",)), (ONE, S("1"))]
    pool = [T, F, ONE, ZERO, ONEF, ZEROF, L12, L12C, T12, SA, SAS, M1, M2, ("none",), S(""), ("list", []), I(2), S("b")]
    ops = ["==", "!=", "<", "<=", ">", ">="]
    out = []
    for a, b in pairs + [(y, x) for x, y in pairs]:
        for nops in (2, 3, 4):
            for pos in range(nops):
                for op in ("==", "!="):
                    # the links before `pos` hold (a == a), so that evaluation reaches the link under test
                    operands = [a] * (pos + 1) + [b] + [rng.choice([a, b, rng.choice(pool)]) for _ in range(nops - pos - 1)]
                    chain = [("==", operands[i + 1]) for i in range(pos)] + [(op, operands[pos + 1])] + \
                            [(rng.choice(ops), operands[i + 1]) for i in range(pos + 1, nops)]
                    out.append(("cmp", operands[0], chain))
    for _ in range(extra):
        nops = 2 + rng.below(3)
        out.append(("cmp", rng.choice(pool), [(rng.choice(ops + ["==", "!=", "in", "notin"]), rng.choice(pool)) for _ in range(nops)]))
    return out


def contain_family(rng, thorough):
    """`needle in container` / `not in`: literal containers of 0..8 items (lists, tuples, maps, strings) that hold, at every
    position, a value equal to the needle only across kinds (bool / int / float, a string and its safe twin, a list
    and a tuple or a lazy concatenation); needle, container and items are hoisted in all combinations by variants_of"""
    I = lambda n: ("int", n)
    S = lambda x: ("str", x)
    T, F = ("bool", True), ("bool", False)
    ONEF, ZEROF = ("float", f2b(1.0)), ("float", f2b(0.0))
    pairs = [(I(1), T), (T, I(1)), (I(1), ONEF), (ONEF, I(1)), (T, ONEF), (ONEF, T), (I(0), F), (F, I(0)), (F, ZEROF), (ZEROF, I(0)),
             (S("a"), ("filter", "safe", S("a"), [], [])), (I(2 ** 63), ("float", f2b(9.223372036854775808e18))), (("float", f2b(9.223372036854775808e18)), I(2 ** 63)),
             (("list", [I(1), I(2)]), ("tuple", [I(1), I(2)])), (("tuple", [I(1), I(2)]), ("bin", "+", ("list", [I(1)]), ("list", [I(2)]))),
             (("none",), S("")), (I(1), S("1")), (S("1"), I(1)), (I(1), I(1)), (S("a"), S("a"))]
    fill_i = [I(20), I(30), I(40), I(50), I(60), I(70), I(80), I(90)]
    fill_s = [S("p"), S("q"), S("r"), S("s"), S("t"), S("u"), S("v"), S("w")]
    out = []
    for needle, partner in pairs:
        for kind in ("list", "tuple", "map", "str"):
            for size in range(0, 9):
                positions = list(range(size)) if thorough else sorted(set([0, size - 1, rng.below(max(size, 1))]) & set(range(size)))
                for pos in positions or [None]:
                    fill = fill_s if rng.chance(1, 3) else fill_i
                    items = [fill[i] for i in range(size)]
                    if pos is not None:
                        items[pos] = partner
                    if kind == "list": cont = ("list", items)
                    elif kind == "tuple": cont = ("tuple", items)
                    elif kind == "map":
                        if any(x[0] not in ATOMS for x in items): continue
                        cont = ("map", [(x, I(0)) for x in items])
                    else:
                        if needle[0] not in ("str", "int") or partner[0] not in ("str", "int"): continue
                        cont = S("".join(str(x[1]) for x in items if x[0] in ("str", "int")))
                    op = rng.choice(["in", "notin"])
                    out.append(("cmp", needle, [(op, cont)]))
                    if rng.chance(1, 6):
                        out.append(("cmp", I(0), [("<", needle if needle[0] in ("int", "float") else I(1)), (op, cont)]))
    return out


# ---------------------------------------------------------------------------------------------
# part A, representation family: a hoisted value need not be held the way the parser holds the
# literal - a short string literal is an inline small string, a variable may hold the same text
# on the heap (Arc<str>), as a safe string or as the result of `~`; an integer literal is a u64
# (or u128), a variable may hold it as i64 / i128 / u128.  Where the value is only looked up or
# compared (map keys, `in`, ==, subscripts, unique) the representation must not matter.
# ---------------------------------------------------------------------------------------------
REPS = {"str": ["arc", "safe", "string"], "int": ["i64", "u64", "i128", "u128"]}


def subst_var(e, name, new):
    if e == ("var", name):
        return new
    ks, rb = kids(e)
    return rb([subst_var(k, name, new) for k in ks]) if ks else e


def rep_variants(e, only=None):
    """single-atom hoists with the variable held in every other representation (+ produced by `~` for strings),
    and the all-atoms hoist with mixed representations"""
    out = []
    atoms = [x for x in subexprs_atoms(e)]
    for i, a in enumerate(atoms):
        if a[0] not in REPS or (only is not None and i not in only):
            continue
        for rep in REPS[a[0]]:
            e2, ctx = hoist_atoms(e, {i})
            ctx = {k: dict(v, rep=rep) for k, v in ctx.items()}
            out.append(("atoms:%d rep:%s" % (i, rep), e2, ctx))
        if a[0] == "str":
            e2, ctx = hoist_atoms(e, {i})
            out.append(("atoms:%d rep:concat" % i, subst_var(e2, "h%d" % i, ("bin", "~", ("var", "h%d" % i), ("str", ""))), ctx))
    if only is None and atoms:
        e2, ctx = hoist_atoms(e, set(range(len(atoms))))
        for j, (k, v) in enumerate(sorted(ctx.items())):
            if v["t"] in REPS:
                ctx[k] = dict(v, rep=REPS[v["t"]][j % len(REPS[v["t"]])])
        out.append(("atoms:all rep:mixed", e2, ctx))
    return out


def subexprs_atoms(e):
    """the atoms in the order hoist_atoms numbers them"""
    if e[0] in ATOMS:
        yield e
        return
    for k in kids(e)[0]:
        yield from subexprs_atoms(k)


def rep_family(rng, thorough):
    I = lambda n: ("int", n)
    S = lambda x: ("str", x)
    keys = ["color", "size", "a", "", "twenty-two bytes long!!", "é"]
    out = []
    for k in keys:
        other = "size" if k != "size" else "w"
        m2 = ("map", [(S(k), I(1)), (S(other), I(2))])
        out += [("item", m2, S(k)), ("cmp", S(k), [("in", ("map", [(S(k), I(1))]))]), ("cmp", S(k), [("notin", m2)]),
                ("filter", "length", ("map", [(S(k), I(1)), (S(k), I(2))]), [], []), ("item", ("map", [(S(k), I(1)), (S(k), I(2))]), S(k)),
                ("cmp", S(k), [("==", S(k))]), ("cmp", S(k), [("==", S(k)), ("!=", S(other))]), ("cmp", S(k), [("in", ("list", [S(other), S(k)]))]),
                ("filter", "length", ("filter", "list", ("filter", "unique", ("list", [S(k), S(k), S(other)]), [], []), [], []), [], []),
                ("item", ("call", "dict", [m2], []), S(k)), ("cmp", S(k), [("in", ("var", "cm"))]), ("item", ("var", "cm"), S(k)),
                ("filter", "default", ("item", m2, S(k)), [I(0)], []),
                ("filter", "length", ("filter", "dictsort", m2, [], []), [], [])]        # (never an expression that hands the key itself back: a safe key is a different value)
    for n in [0, 1, 2, 255, 2 ** 31, 2 ** 63 - 1, 2 ** 63, 2 ** 64 - 1, 2 ** 64, 2 ** 127 - 1]:
        mi = ("map", [(I(n), I(7)), (I(n + 1), I(8))])
        out += [("item", mi, I(n)), ("cmp", I(n), [("in", mi)]), ("filter", "length", ("map", [(I(n), I(1)), (I(n), I(2))]), [], []),
                ("cmp", I(n), [("==", I(n))]), ("cmp", I(n), [("in", ("list", [I(n + 1), I(n)]))]),
                ("filter", "length", ("filter", "list", ("filter", "unique", ("list", [I(n), I(n), I(3)]), [], []), [], []), [], []),
                ("cmp", I(n), [("<", I(n + 1)), ("<=", I(n + 1))]), ("bin", "-", I(n + 1), I(n))]
    return [e for e in out if e != ("none",)]


# ---------------------------------------------------------------------------------------------
# generator C (core fragment, where Lang/Interp.v is faithful: typed so that no operator meets
# operand kinds the reference evaluator does not model)
# ---------------------------------------------------------------------------------------------
L_INT = [0, 1, 2, 3, 5, 7, 10, 255, 1000, 2 ** 31 - 1, 2 ** 63 - 1]
L_STR = ["", "a", "ab", "abc", "b", "0", "A b"]


class GenL:
    def __init__(self, rng):
        self.r = rng

    def i(self, d):
        r = self.r
        if d <= 0 or r.chance(1, 4):
            if r.chance(1, 10): return ("var", "ci")
            return ("int", r.choice(L_INT))
        c = r.below(9)
        if c <= 2: return ("bin", r.choice(["+", "-", "*"]), self.i(d - 1), self.i(d - 1))
        if c == 3: return ("bin", r.choice(["//", "%"]), self.i(d - 1), self.i(d - 1))
        if c == 4: return ("neg", self.i(d - 1))
        if c == 5: return ("filter", "abs", self.i(d - 1), [], [])
        if c == 6: return ("filter", "length", self.l(d - 1) if r.chance(1, 2) else self.s(d - 1), [], [])
        if c == 7: return ("ifexpr", self.b(d - 1), self.i(d - 1), self.i(d - 1))
        # ill-typed arithmetic: an integer with a string or none (both sides reject it the same way)
        return ("bin", r.choice(["+", "-", "//", "%"]), self.i(d - 1), self.s(d - 1) if r.chance(1, 2) else ("none",))

    def s(self, d):
        r = self.r
        if d <= 0 or r.chance(1, 4):
            if r.chance(1, 10): return ("var", "cs")
            return ("str", r.choice(L_STR))
        c = r.below(5)
        if c == 0: return ("bin", "~", self.scalar(d - 1, False), self.scalar(d - 1, False))     # (Lang/Interp.v shows none as "none", the engine as "None")
        if c == 1: return ("bin", "+", self.s(d - 1), self.s(d - 1))
        if c == 2: return ("filter", r.choice(["upper", "lower", "trim", "capitalize"]), self.s(d - 1), [], [])
        if c == 3: return ("filter", "string", self.i(d - 1), [], [])
        return (r.choice(["and", "or"]), self.s(d - 1), self.s(d - 1))

    def scalar(self, d, none_ok=True):
        r = self.r
        c = r.below(5)
        if c == 0: return self.i(d)
        if c == 1: return self.s(d)
        if c == 2: return self.b(d)
        if c == 3 and none_ok: return ("none",)
        return self.i(d)

    def b(self, d):
        r = self.r
        if d <= 0 or r.chance(1, 5):
            return ("bool", r.chance(1, 2))
        c = r.below(11)
        if c <= 1: return ("cmp", self.i(d - 1), [(r.choice(["==", "!=", "<", "<=", ">", ">="]), self.i(d - 1))])
        if c == 2: return ("cmp", self.s(d - 1), [(r.choice(["==", "!=", "<", "<=", ">", ">="]), self.s(d - 1))])
        if c == 3: return ("cmp", self.i(d - 1), [(r.choice(["==", "!=", "<", "<=", ">", ">="]), self.i(d - 1)) for _ in range(2 + r.below(2))])
        if c == 4: return ("cmp", self.any(d - 1), [(r.choice(["==", "!="]), self.any(d - 1))])
        if c == 5: return ("cmp", self.scalar(d - 1), [(r.choice(["in", "notin"]), self.l(d - 1))])
        if c == 6: return ("cmp", self.i(d - 1), [("<", self.i(d - 1)), (r.choice(["in", "notin"]), self.l(d - 1) if r.chance(4, 5) else self.i(d - 1))])
        if c == 7: return ("not", self.any(d - 1))
        if c == 8: return ("test", r.choice(["odd", "even"]), self.i(d - 1), [], r.chance(1, 4))
        if c == 9: return ("cmp", self.scalar(d - 1), [("in", self.i(d - 1))])            # containment in a number: rejected
        return (r.choice(["and", "or"]), self.b(d - 1), self.b(d - 1))

    def l(self, d):
        r = self.r
        if d <= 0 or r.chance(1, 2):
            n = r.below(4)
            k = r.below(3)
            return ("list", [("int", r.choice(L_INT)) if k == 0 else ("str", r.choice(L_STR)) if k == 1 else self.atom() for _ in range(n)])
        if r.chance(1, 8): return ("var", "cl")
        return ("list", [self.scalar(d - 1) for _ in range(r.below(3))])

    def atom(self):
        r = self.r
        c = r.below(4)
        return ("int", r.choice(L_INT)) if c == 0 else ("str", r.choice(L_STR)) if c == 1 else ("bool", r.chance(1, 2)) if c == 2 else ("none",)

    def mkey(self, d):
        """a map key: a constant scalar (str / int / bool / none), now and then a computed one"""
        r = self.r
        c = r.below(10)
        if c <= 3: return ("str", r.choice(["a", "b", "z", "", "A b"]))
        if c <= 5: return ("int", r.choice([0, 1, 2, 255]))
        if c == 6: return ("bool", r.chance(1, 2))
        if c == 7: return ("none",)
        if c == 8: return ("var", r.choice(["cs", "ci"]))
        return self.s(d - 1) if d > 0 and r.chance(1, 2) else self.i(max(d - 1, 0))

    def m(self, d):
        """a map: literal (constant or computed keys and values, duplicate keys included) or the context's map"""
        r = self.r
        if r.chance(1, 6): return ("var", "cm")
        n = r.below(4)
        const = r.chance(1, 2)
        pairs = []
        for _ in range(n):
            k = self.mkey(0 if const else d)
            v = self.atom() if const or d <= 0 or r.chance(1, 2) else self.scalar(d - 1)
            pairs.append((k, v))
        if pairs and r.chance(1, 5):
            pairs.append((pairs[0][0], self.atom()))          # the same key again: the last value wins
        return ("map", pairs)

    def muse(self, d):
        """an expression that uses a map where the folder may meet it"""
        r = self.r
        c = r.below(9)
        if c == 0: return self.m(d)
        if c == 1: return ("filter", "length", self.m(d), [], [])
        if c == 2: return ("cmp", self.mkey(d), [(r.choice(["in", "notin"]), self.m(d))])
        if c == 3: return ("cmp", self.m(d), [(r.choice(["==", "!="]), self.m(d))])
        if c == 4: return ("item", self.m(d), self.mkey(0))
        if c == 5: return (r.choice(["and", "or"]), self.m(d), self.any(max(d - 1, 0)))
        if c == 6: return ("not", self.m(d))
        if c == 7: return ("test", "mapping", self.m(d) if r.chance(2, 3) else self.any(max(d - 1, 0)), [], r.chance(1, 4))
        return ("cmp", self.m(d), [("==", self.m(d)), (r.choice(["==", "!="]), self.m(d))])

    def eqchain(self, d):
        """==/!= chains over scalars that are equal across kinds (true == 1, false == 0)"""
        r = self.r
        pool = [("bool", True), ("int", 1), ("bool", False), ("int", 0), ("str", "a"), ("none",), ("int", 2), ("str", "")]
        return ("cmp", r.choice(pool), [(r.choice(["==", "!="]), r.choice(pool) if r.chance(3, 4) else self.i(max(d - 1, 0)))     # (<= / >= across bool and int: Lang/Interp.v decides them with ==, the engine by kind)
                                        for _ in range(2 + r.below(3))])

    def any(self, d):
        r = self.r
        c = r.below(11)
        if c == 8: return self.muse(d)
        if c == 9: return self.muse(d) if r.chance(1, 2) else self.eqchain(d)
        if c == 10: return self.eqchain(d)
        if c == 0: return self.i(d)
        if c == 1: return self.s(d)
        if c == 2: return self.b(d)
        if c == 3: return self.l(d)
        if c == 4: return self.atom()
        if d <= 0: return self.atom()
        if c == 5: return (r.choice(["and", "or"]), self.any(d - 1), self.any(d - 1))
        if c == 6: return ("ifexpr", self.b(d - 1), self.any(d - 1), self.any(d - 1) if r.chance(2, 3) else None)
        return ("filter", "default", ("var", "u") if r.chance(1, 2) else self.any(d - 1), [self.atom()], [])


def to_lang(e):
    """rich AST -> tools/langenc.py AST (same tags; filters lose the empty kwargs field)"""
    t = e[0]
    if t == "filter":
        assert not e[4]
        return ("filter", e[1], to_lang(e[2]), [to_lang(a) for a in e[3]])
    if t == "test":
        return ("test", e[1], to_lang(e[2]), [to_lang(a) for a in e[3]], e[4])
    ks, rb = kids(e)
    return rb([to_lang(k) for k in ks]) if ks else e


LANG_CTX = {"ci": 5, "cs": "ctx", "cl": [1, 2, 3], "cm": {"a": 1, "z": "q", 2: "two"}}


def tv_py(v):
    if v is None: return {"t": "none"}
    if isinstance(v, bool): return {"t": "bool", "v": v}
    if isinstance(v, int): return {"t": "int", "v": str(v)}
    if isinstance(v, str): return {"t": "str", "v": v}
    if isinstance(v, list): return {"t": "list", "v": [tv_py(x) for x in v]}
    if isinstance(v, dict): return {"t": "map", "v": [[tv_py(k), tv_py(x)] for k, x in v.items()]}
    raise ValueError(v)


def py_tv(tv):
    t = tv["t"]
    if t == "none": return None
    if t == "bool": return bool(tv["v"])
    if t == "int": return int(tv["v"])
    if t == "str": return tv["v"]
    if t == "list": return [py_tv(x) for x in tv["v"]]
    raise ValueError(tv)


def sv_enc(sv):
    """structural value of the harness -> the integer encoding of C04/Runner.v::enc_value"""
    k = sv.get("k")
    if k == "undef": return [0]
    if k == "none": return [1]
    if k == "bool": return [2, 1 if sv["v"] else 0]
    if k == "int": return [3, int(sv["v"])]
    if k == "str": return [4, len(sv["v"])] + [ord(c) for c in sv["v"]]
    if k in ("seq", "iter"):
        out = [5, len(sv["v"])]
        for x in sv["v"]:
            out += sv_enc(x)
        return out
    if k == "map":                                   # Runner.v::enc_value: 8 n (k v)*, entries in the map's own order
        out = [8, len(sv["v"])]
        for a, b in sv["v"]:
            out += sv_enc(a) + sv_enc(b)
        return out
    return ["other:" + str(k)]


def fold_part(out):
    """the leading `fold` part of a runner output / expected output"""
    def val(i):
        t = out[i]
        if t in (0, 1, 6, 7) or isinstance(t, str): return i + 1
        if t in (2, 3): return i + 2
        if t == 4: return i + 2 + out[i + 1]
        if t == 5:
            j = i + 2
            for _ in range(out[i + 1]):
                j = val(j)
            return j
        if t == 8:
            j = i + 2
            for _ in range(2 * out[i + 1]):
                j = val(j)
            return j
        return i + 1
    try:
        return out[:1] if out[:1] != [1] else out[:val(1)]
    except Exception:
        return out


def model_norm(out):
    """the model tells the silent undefined (tag 6) from the ordinary one (tag 0); the harness cannot.
    Rewrites value tags only (never string lengths or characters)."""
    out = list(out)

    def val(i):
        t = out[i]
        if t == 6:
            out[i] = 0
            return i + 1
        if t in (2, 3): return i + 2
        if t == 4: return i + 2 + out[i + 1]
        if t == 5:
            j = i + 2
            for _ in range(out[i + 1]):
                j = val(j)
            return j
        if t == 8:
            j = i + 2
            for _ in range(2 * out[i + 1]):
                j = val(j)
            return j
        return i + 1
    try:
        i = 1
        if out[0] == 1:
            i = val(1)
        if out[i] == 0:
            val(i + 1)
    except Exception:
        pass
    return out


# ---------------------------------------------------------------------------------------------
# part D: collections and call arguments against C04/Coll.v (runner c04-coll)
# ---------------------------------------------------------------------------------------------
D_FUNCS = {"cargs": 50, "cfilt": 51}
D_KIND = {"pos": 0, "kw": 1, "psplat": 2, "ksplat": 3}
D_RHO = {"ci": 5, "cs": "ctx", "cl": [1, 2, 3], "cm": {"a": 1, "z": "q"}}


class GenD:
    def __init__(self, rng):
        self.r = rng

    def atom(self):
        r = self.r
        c = r.below(6)
        if c <= 1: return ("int", r.choice([0, 1, 2, 3, 7, 255, 2 ** 63, 2 ** 64 + 1]))
        if c <= 3: return ("str", r.choice(["", "a", "b", "ab", "A", "z", "é", "0"]))
        if c == 4: return ("bool", r.chance(1, 2))
        return ("none",)

    def key(self):
        r = self.r
        c = r.below(8)
        if c <= 2: return ("str", r.choice(["a", "b", "c", "z", "", "B"]))
        if c <= 4: return ("int", r.choice([0, 1, 2, 10]))
        if c == 5: return ("bool", r.chance(1, 2))
        if c == 6: return ("none",)
        return ("var", r.choice(["ci", "cs"]))

    def gen(self, d):
        r = self.r
        if d <= 0 or r.chance(1, 4):
            if r.chance(1, 6): return ("var", r.choice(["ci", "cs", "cl", "cm", "u"]))
            return self.atom()
        c = r.below(10)
        if c <= 1: return ("list", [self.gen(d - 1) if r.chance(1, 3) else self.atom() for _ in range(r.below(4))])
        if c <= 3: return ("tuple", [self.gen(d - 1) if r.chance(1, 3) else self.atom() for _ in range(r.below(4))])
        if c <= 5: return ("map", [(self.key(), self.gen(d - 1) if r.chance(1, 3) else self.atom()) for _ in range(r.below(4))])
        return self.call(d)

    def splat_operand(self, d, kw):
        r = self.r
        c = r.below(8)
        if kw:
            if c <= 2: return ("var", "cm")
            if c <= 5: return ("map", [(("str", r.choice(["a", "b", "k"])), self.atom()) for _ in range(r.below(3))])
            if c == 6: return ("var", "cl")                       # not a map: rejected
            return ("int", 5)
        if c <= 1: return ("var", "cl")
        if c <= 3: return ("list", [self.atom() for _ in range(r.below(3))])
        if c == 4: return ("tuple", [self.atom() for _ in range(r.below(3))])
        if c == 5: return ("var", "cm")                           # a map splices its keys
        if c == 6: return ("map", [(("str", r.choice(["a", "b"])), self.atom()) for _ in range(r.below(3))])
        return ("int", 5)                                          # not iterable: rejected

    def call(self, d):
        r = self.r
        args = []
        for _ in range(r.below(4)):
            if r.chance(1, 4): args.append(("psplat", None, self.splat_operand(d - 1, False)))
            else: args.append(("pos", None, self.gen(d - 1) if r.chance(1, 2) else self.atom()))
        for _ in range(r.below(4)):
            if r.chance(1, 5): args.append(("ksplat", None, self.splat_operand(d - 1, True)))
            else:
                v = self.atom() if r.chance(3, 4) else self.gen(d - 1)
                args.append(("kw", r.choice(["a", "b", "c", "a"]), v))
        if args and r.chance(1, 10):
            args.append(("psplat", None, self.splat_operand(d - 1, False)))     # `*x` after a keyword argument is accepted by the parser
        if r.chance(1, 3):
            return ("xcall", self.gen(d - 1) if r.chance(1, 2) else self.atom(), "cfilt", args)
        return ("xcall", None, "cargs", args)


def d_enc_expr(e, N):
    t = e[0]
    if t == "int": return [0, e[1]]
    if t == "str": return [1] + langenc.s_enc(e[1])
    if t == "bool": return [2, 1 if e[1] else 0]
    if t == "none": return [3]
    if t == "var": return [4, N.id(e[1])]
    if t == "list": return [5, len(e[1])] + sum((d_enc_expr(x, N) for x in e[1]), [])
    if t == "tuple": return [6, len(e[1])] + sum((d_enc_expr(x, N) for x in e[1]), [])
    if t == "map": return [7, len(e[1])] + sum((d_enc_expr(k, N) + d_enc_expr(v, N) for k, v in e[1]), [])
    if t == "xcall":
        out = [8] + ([0] if e[1] is None else [1] + d_enc_expr(e[1], N)) + [D_FUNCS[e[2]], len(e[3])]
        for kd, k, x in e[3]:
            out += [D_KIND[kd]] + (langenc.s_enc(k) if kd == "kw" else []) + d_enc_expr(x, N)
        return out + [0]
    raise ValueError(t)


def d_enc_val(v):
    if v is None: return [1]
    if isinstance(v, bool): return [2, 1 if v else 0]
    if isinstance(v, int): return [3, v]
    if isinstance(v, str): return [4] + langenc.s_enc(v)
    if isinstance(v, list): return [5, len(v)] + sum((d_enc_val(x) for x in v), [])
    if isinstance(v, dict): return [11, len(v)] + sum((d_enc_val(k) + d_enc_val(x) for k, x in v.items()), [])
    raise ValueError(v)


def d_tv(v):
    if isinstance(v, dict): return {"t": "map", "v": [[tv_py(k), d_tv(x)] for k, x in v.items()]}
    if isinstance(v, list): return {"t": "list", "v": [d_tv(x) for x in v]}
    return tv_py(v)


def d_parse_val(toks, i):
    """model value tokens -> tree"""
    t = toks[i]
    if t == 0: return ("undef",), i + 1
    if t == 1: return ("none",), i + 1
    if t == 2: return ("bool", toks[i + 1] != 0), i + 2
    if t == 3: return ("int", toks[i + 1]), i + 2
    if t == 4:
        n = toks[i + 1]
        return ("str", "".join(chr(c) for c in toks[i + 2:i + 2 + n])), i + 2 + n
    if t in (5, 10):
        n, j, items = toks[i + 1], i + 2, []
        for _ in range(n):
            v, j = d_parse_val(toks, j)
            items.append(v)
        return ("list" if t == 5 else "tuple", items), j
    if t in (11, 12):
        n, j, items = toks[i + 1], i + 2, []
        for _ in range(n):
            k, j = d_parse_val(toks, j)
            v, j = d_parse_val(toks, j)
            items.append((k, v))
        return ("map" if t == 11 else "kwargs", items), j
    if t == 13:
        f, n, j, items = toks[i + 1], toks[i + 2], i + 3, []
        for _ in range(n):
            v, j = d_parse_val(toks, j)
            items.append(v)
        return ("res", f, items), j
    if t == 14: return ("macro", toks[i + 1]), i + 2
    raise ValueError(toks[i:i + 5])


def d_sv_tree(sv):
    k = sv.get("k")
    if k == "undef": return ("undef",)
    if k == "none": return ("none",)
    if k == "bool": return ("bool", bool(sv["v"]))
    if k == "int": return ("int", int(sv["v"]))
    if k == "str": return ("str", sv["v"])
    if k in ("seq", "iter"): return ("list", [d_sv_tree(x) for x in sv["v"]])
    if k == "tuple": return ("tuple", [d_sv_tree(x) for x in sv["v"]])
    if k in ("map", "kwargs"): return (k, [(d_sv_tree(a), d_sv_tree(b)) for a, b in sv["v"]])
    return ("other", json.dumps(sv)[:60])


def d_probe_view(t):
    """a model value as the engine's probes show it: a call result is [positional, keyword map]"""
    k = t[0]
    if k in ("list", "tuple"): return (k, [d_probe_view(x) for x in t[1]])
    if k in ("map", "kwargs"): return (k, [(d_probe_view(a), d_probe_view(b)) for a, b in t[1]])
    if k == "res":
        args = list(t[2])
        kw = []
        if args and args[-1][0] == "kwargs":
            kw = args.pop()[1]
        return ("list", [("list", [d_probe_view(x) for x in args]), ("map", [(d_probe_view(a), d_probe_view(b)) for a, b in kw])])
    return t


def d_tree_toks(t):
    k = t[0]
    if k == "undef": return [0]
    if k == "none": return [1]
    if k == "bool": return [2, 1 if t[1] else 0]
    if k == "int": return [3, t[1]]
    if k == "str": return [4, len(t[1])] + [ord(c) for c in t[1]]
    if k in ("list", "tuple"): return [5 if k == "list" else 10, len(t[1])] + sum((d_tree_toks(x) for x in t[1]), [])
    if k in ("map", "kwargs"): return [11 if k == "map" else 12, len(t[1])] + sum((d_tree_toks(a) + d_tree_toks(b) for a, b in t[1]), [])
    return ["other"]


D_OPS = {"BuildList": 3, "BuildTuple": 4, "BuildMap": 5, "BuildKwargs": 6, "MergeKwargs": 7, "UnpackLists": 8}


def d_engine_code(code, N):
    """the engine's instruction listing of `{{ E }}` in the token form of runner c04-coll"""
    out = []
    for op, arg in code:
        if op == "Emit": break
        if op == "LoadConst": out += [1] + d_tree_toks(d_sv_tree(arg))
        elif op == "Lookup": out += [2, N.id(arg)]
        elif op in D_OPS: out += [D_OPS[op], arg if isinstance(arg, int) else "none"]
        elif op in ("CallFunction", "ApplyFilter"): out += [9, D_FUNCS.get(arg[0], "f:" + str(arg[0])), 0 if arg[1] is None else arg[1] + 1]
        else: out += ["op:" + op]
    return out


def d_case(e, rho_py):
    N = langenc.Names()
    toks = [len(rho_py)]
    for n in sorted(rho_py):
        toks += [N.id(n)] + d_enc_val(rho_py[n])
    return toks + d_enc_expr(e, N), N


def d_split(out):
    """runner output -> (code tokens, run result tokens, ceval result tokens)"""
    n = out[0]
    code = out[1:1 + n]
    m = out[1 + n]
    return code, out[2 + n:2 + n + m], out[2 + n + m:]


def d_check(e, rho_py, item, mout):
    """None if engine and model agree on this expression, else a description"""
    if not mout or mout == [9] or mout[0] == "CRASH":
        return "model could not decode / crashed: %r" % (mout[:6],)
    mcode, mrun, mceval = d_split(mout)
    N = d_case(e, rho_py)[1]
    if "code" not in item:
        return "engine did not load: %r" % (item.get("load"),)
    ecode = d_engine_code(item["code"], N)
    if ecode != mcode:
        return "instruction streams differ: engine %r model %r" % (ecode, mcode)
    ev = item.get("eval") or {}
    if mrun[:1] == [0]:
        want = d_probe_view(d_parse_val(mrun, 1)[0])
        got = d_sv_tree(ev["ok"]) if "ok" in ev else ("error", ev.get("err"))
        if got != want:
            return "values differ: engine %r model %r" % (got, want)
    elif "ok" in ev:
        return "the model's VM fails, the engine yields %r" % (d_sv_tree(ev["ok"]),)
    if mrun != mceval:
        return "model VM and reference semantics differ: %r vs %r" % (mrun, mceval)
    return None


# ---------------------------------------------------------------------------------------------
# part E: literal-versus-variable transparency at STATEMENT level.  A template is a list of
# segments: source text and ("E", expression) holes; the literal form prints the holes as written,
# a hoisted form replaces a subset of their literal atoms by context variables.
# part F: the same call site evaluated repeatedly with literal vs hoisted keyword arguments.
# ---------------------------------------------------------------------------------------------
def seg_src(segs):
    return "".join(x if isinstance(x, str) else src(x[1]) for x in segs)


def seg_atoms(segs):
    return sum(count_atoms(x[1]) for x in segs if not isinstance(x, str))


def seg_hoist(segs, subset):
    exprs = [x[1] for x in segs if not isinstance(x, str)]
    wrapped, ctx = hoist_atoms(("list", exprs), subset)
    it = iter(wrapped[1])
    return [x if isinstance(x, str) else ("E", next(it)) for x in segs], ctx


def seg_variants(segs):
    k = seg_atoms(segs)
    if k <= 6:
        subsets = [set(s) for n in range(1, k + 1) for s in itertools.combinations(range(k), n)]
    else:
        subsets = [{i} for i in range(k)] + [set(range(k))] + [set(range(0, k, 2))]
    out = [("literal", segs, {})]
    for s in subsets:
        s2, ctx = seg_hoist(segs, s)
        out.append(("atoms:" + ",".join(map(str, sorted(s))), s2, ctx))
    return out


E_TEMPLATES = {"base": "<{% block title %}base title{% endblock %}|{% block body %}base body{% endblock %}>",
               "inc": "(inc:{{ iv }})", "lib": "{% macro f(x=1) %}F{{ x }}{% endmacro %}"}
E_CTX = {"iv": {"t": "int", "v": "7"}}
_I = lambda n: ("int", n)
_S = lambda x: ("str", x)
COND_POOL = [("bool", True), ("bool", False), _I(0), _I(1), _S(""), _S("a"), ("list", []), ("list", [_I(0)]), ("none",), ("map", []), ("tuple", []),
             ("cmp", _I(1), [("<", _I(2)), ("<", _I(3))]), ("cmp", _I(3), [("<", _I(2)), ("<", _I(3))]), ("not", ("list", [])), ("and", _I(0), _I(1)),
             ("or", _S(""), _I(2)), ("cmp", _I(1), [("==", _I(2))]), ("neg", _I(0)), ("float", f2b(0.0)), ("bin", "-", _I(1), _I(1)), ("cmp", _S("a"), [("in", _S("abc"))])]


class GenS:
    def __init__(self, rng):
        self.r = rng
        self.n = 0
        self.uses = []
        self.free_base_blocks = []

    def fresh(self, p):
        self.n += 1
        return "%s%d" % (p, self.n)

    def cond(self):
        return ("E", self.r.choice(COND_POOL))

    def val(self):
        r = self.r
        c = r.below(6)
        if c == 0: return ("E", _I(r.choice([0, 1, 2, 42])))
        if c == 1: return ("E", _S(r.choice(["", "a", "<b>", "x y"])))
        if c == 2: return ("E", ("bool", r.chance(1, 2)))
        if c == 3: return ("E", ("none",))
        if c == 4: return ("E", ("list", [_I(1), _S("a")]))
        return ("E", ("bin", "+", _I(1), _I(r.choice([1, 2]))))

    def decl(self, allow_block):
        r = self.r
        c = r.below(8)
        if c <= 2 and allow_block:
            if self.free_base_blocks and r.chance(1, 2):
                name = self.free_base_blocks.pop()
            else:
                name = self.fresh("b")
            self.uses.append("[{{ self." + name + "() }}]")
            return ["{% block " + name + " %}B-" + name, "{{ ", self.val(), " }}{% endblock %}"]
        if c == 3:
            name = self.fresh("m")
            self.uses.append("[{{ " + name + "() if " + name + " is defined else '-' }}]")
            return ["{% macro " + name + "(a=", self.val(), ") %}M{{ a }}{% endmacro %}"]
        if c == 4:
            name = self.fresh("s")
            self.uses.append("[{{ " + name + " if " + name + " is defined else '-' }}]")
            return ["{% set " + name + " = ", self.val(), " %}"]
        if c == 5:
            name = self.fresh("l")
            self.uses.append("[{{ " + name + ".f(2) if " + name + " is defined else '-' }}]")
            return ["{% import ", ("E", _S("lib" if r.chance(15, 16) else "missing")), " as " + name + " %}"]
        if c == 6:
            name = self.fresh("f")
            self.uses.append("[{{ " + name + "(3) if " + name + " is defined else '-' }}]")
            return ["{% from ", ("E", _S("lib")), " import f as " + name + " %}"]
        tgt = r.choice([_S("inc"), _S("inc"), ("list", [_S("missing"), _S("inc")]), _S("missing")])
        return ["{% include ", ("E", tgt), " ignore missing %}" if tgt == _S("missing") and r.chance(7, 8) or r.chance(1, 3) else " %}"]

    def body(self, d, allow_block=True):
        out = []
        for _ in range(1 + self.r.below(3)):
            c = self.r.below(4)
            if c == 0: out += [self.fresh("t")]
            elif c <= 2 or d <= 0: out += self.decl(allow_block)
            else: out += self.stmt(d - 1, allow_block)
        return out

    def stmt(self, d, allow_block=True):
        r = self.r
        c = r.below(10)
        if c <= 3:
            out = ["{% if ", self.cond(), " %}"] + self.body(d, allow_block)
            if r.chance(1, 3): out += ["{% elif ", self.cond(), " %}"] + self.body(d, allow_block)
            if r.chance(1, 2): out += ["{% else %}"] + self.body(d, allow_block)
            return out + ["{% endif %}"]
        if c == 4:
            it = r.choice([("list", [_I(1), _I(2)]), ("list", []), _S("ab"), ("tuple", [_I(1)]), ("list", [_I(1), _I(2)]), ("list", []), ("map", [(_S("k"), _I(1))]), ("none",),
                           _I(5) if r.chance(1, 4) else ("list", [_I(3)])])
            out = ["{% for x in ", ("E", it), " %}<{{ x }}>"] + self.body(d, allow_block)
            if r.chance(1, 2): out += ["{% else %}"] + self.body(d, allow_block)
            return out + ["{% endfor %}"]
        if c == 5:
            return ["{% with a = ", self.val(), " %}{{ a }}"] + self.body(d, allow_block) + ["{% endwith %}"]
        if c == 6:
            v = r.choice([("bool", True), ("bool", False), _S("html"), _S("none"), _S("bogus") if r.chance(1, 4) else _S("html"), _I(1), ("none",)])
            return ["{% autoescape ", ("E", v), " %}{{ ", ("E", _S("<b>")), " }}"] + self.body(d, allow_block) + ["{% endautoescape %}"]
        if c == 7:
            return ["{% filter replace(", ("E", _S(r.choice(["B", "t", "-"]))), ", ", ("E", _S(r.choice(["X", ""]))), ") %}"] + self.body(d, allow_block) + ["{% endfilter %}"]
        if c == 8:
            w = self.fresh("w")
            return ["{% macro " + w + "(p) %}<{{ p }}{{ caller() }}>{% endmacro %}{% call " + w + "(", self.val(), ") %}"] + self.body(d, False) + ["{% endcall %}"]
        return self.decl(allow_block)

    def template(self):
        r = self.r
        if r.chance(1, 3):
            # a child template: what it declares at top level (blocks, also inside branches) is what counts
            self.free_base_blocks = ["body", "title"]
            head = ["{% extends ", ("E", _S("base" if r.chance(29, 30) else "missing")), " %}"]
            segs = head + self.stmt(2) + self.body(1)
            if "body" in self.free_base_blocks:
                segs += ["{% block body %}"] + self.uses + ["{% endblock %}"]
            return segs
        segs = self.stmt(2) + self.body(1)
        return segs + self.uses


# ---- part F: call sites ----
F_CTX = {"txt": {"t": "str", "v": "a\nb"}, "cm": {"t": "map", "v": [[{"t": "str", "v": "b"}, {"t": "int", "v": "1"}], [{"t": "str", "v": "A"}, {"t": "int", "v": "2"}]]},
         "cl": {"t": "list", "v": [{"t": "str", "v": "b"}, {"t": "str", "v": "A"}, {"t": "str", "v": "a"}]},
         "cl2": {"t": "list", "v": [{"t": "map", "v": [[{"t": "str", "v": "a"}, {"t": "int", "v": "1"}]]}, {"t": "map", "v": [[{"t": "str", "v": "a"}, {"t": "int", "v": "2"}]]},
                                     {"t": "map", "v": [[{"t": "str", "v": "b"}, {"t": "int", "v": "3"}]]}]}}
_W = ("var", "w")
_T, _F, _N = ("bool", True), ("bool", False), ("none",)


def f_sites():
    """(name, builder(kwargs) -> call expression using the selector variable w, keyword candidates, selector sequences)"""
    flt = lambda name, recv, pos: (lambda kw: ("filter", name, recv, list(pos), kw))
    fn = lambda name, pos: (lambda kw: ("call", name, list(pos), kw))
    sel_w = [[None, 3], [3, None], [None, None, 3], [3, 3]]
    sel_b = [[True, False], [False, True], [True, True, False]]
    sel_1 = [[1, 1], [1, 1, 1]]
    return [
        ("indent", flt("indent", ("var", "txt"), [_W]), [("width", _I(2)), ("first", _T), ("blank", _T), ("zz", _I(1))], sel_w),
        ("indent2", flt("indent", ("var", "txt"), [_I(1), _W]), [("first", _T), ("width", _I(2)), ("blank", _F)], sel_b + [[None, True]]),
        ("tojson", flt("tojson", ("var", "cm"), [_W]), [("indent", _I(2)), ("zz", _I(1))], [[None, 1], [1, None], [None, True, None]]),
        ("groupby", lambda kw: ("filter", "list", ("filter", "groupby", ("var", "cl2"), [_W], kw), [], []),
         [("attribute", _S("a")), ("default", _I(0)), ("case_sensitive", _T), ("zz", _I(1))], [[None, "a"], ["a", None], ["b", None, "a"]]),
        ("dictsort", flt("dictsort", ("var", "cm"), []), [("by", _S("value")), ("case_sensitive", _T), ("reverse", _T), ("zz", _I(1))], sel_1),
        ("sort", flt("sort", ("var", "cl"), []), [("reverse", _T), ("case_sensitive", _T), ("zz", _I(1))], sel_1),
        ("sort_attr", flt("sort", ("var", "cl2"), []), [("attribute", _S("a")), ("reverse", _T)], sel_1),
        ("unique", flt("unique", ("var", "cl"), []), [("case_sensitive", _T), ("attribute", _S("x")), ("zz", _I(1))], sel_1),
        ("map", lambda kw: ("filter", "list", ("filter", "map", ("var", "cl2"), [], kw), [], []), [("attribute", _S("a")), ("default", _I(0)), ("zz", _I(1))], sel_1),
        ("format", flt("format", _S("%(x)s-%(y)s"), []), [("x", _I(1)), ("y", _S("q")), ("zz", _I(1))], sel_1),
        ("dict", fn("dict", []), [("a", _I(1)), ("b", _S("x")), ("a", _I(3))], sel_1),
        ("dict_w", fn("dict", [("var", "cm")]), [("b", _I(5)), ("k", _N)], sel_1),
        ("namespace", lambda kw: ("item", ("call", "namespace", [], kw), _S("a")), [("a", _I(1)), ("b", _I(2))], sel_1),
        ("cshow", fn("cshow", [_W]), [("unit", _S("kg")), ("zz", _I(1))], sel_w),
        ("ckw", flt("ckw", _I(9), [_W]), [("a", _I(1)), ("b", _I(2)), ("zz", _I(1))], sel_b + [[False, False, True]]),
        ("macro", fn("mk", [_W]), [("a", _I(1)), ("b", _S("x")), ("zz", _I(1))], sel_w),
        ("cargs", fn("cargs", [_W]), [("a", _I(1)), ("b", _N)], sel_w),
    ]


F_MACRO = "{% macro mk(p, a=0, b=0) %}<{{ p }}|{{ a }}|{{ b }}>{% endmacro %}"


def f_lit(v):
    return ("none",) if v is None else ("bool", v) if isinstance(v, bool) else ("int", v) if isinstance(v, int) else ("str", v)


def f_templates(call, seq):
    """the three ways the same call site runs more than once: [(mode, segments, contexts)]"""
    e = ("E", call)
    ws = {"t": "list", "v": [tv_py(v) for v in seq]}
    calls = "".join("{{ rr(" + src(f_lit(v)) + ") }}" for v in seq)
    return [("loop", [F_MACRO + "{% for w in ws %}[{{ ", e, " }}]{% endfor %}"], [{"ws": ws}]),
            ("renders", [F_MACRO + "[{{ ", e, " }}]"], [{"w": tv_py(v)} for v in seq]),
            ("macro", [F_MACRO + "{% macro rr(w) %}[{{ ", e, " }}]{% endmacro %}" + calls], [{}])]


def multi_obs(it):
    if it is None or "renders" not in it:
        return ("crash", json.dumps(it, sort_keys=True)[:200])
    return (json.dumps(it.get("load"), sort_keys=True), json.dumps(it.get("renders"), sort_keys=True))


# ---------------------------------------------------------------------------------------------
# running the harness (several processes)
# ---------------------------------------------------------------------------------------------
# profiles: False = default features, debug; True = default features, release;
#           "po" / "po-debug" = feature preserve_order (IndexMap maps), release / debug, in the target dir C07 uses for it
def po_target_dir():
    import vlib as _v
    return os.path.join(_v.CACHE, "target-po" + _v._TAG)


def cargo_build_po(release):
    import vlib as _v
    h = _v.harness_dir()
    env = dict(ENV)
    env["CARGO_TARGET_DIR"] = po_target_dir()
    with _v.Lock("cargo" + _v._TAG):
        lock_dst = os.path.join(h, "Cargo.lock")
        if not os.path.exists(lock_dst):
            sh(["cp", os.path.join(_v.REPO, "Cargo.lock"), lock_dst])
        cmd = ["cargo", "build", "--offline", "--quiet", "--bin", "c04", "--features", "preserve_order"] + (["--release"] if release else [])
        rc, o, e = sh(cmd, cwd=h, timeout=3000, env=env)
        return rc == 0, o + e


def c04_bin(profile):
    if isinstance(profile, str):
        return os.path.join(po_target_dir(), "release" if profile == "po" else "debug", "c04")
    return bin_path("c04", profile)


def prof(profile):
    return {False: "debug", True: "release", "po": "preserve_order release", "po-debug": "preserve_order debug"}[profile]


def po_unstable(e):
    """IndexMap finds a key through its hash; a bool and a number that are == hash differently (C07's known finding
    bool-number, likewise int vs float), so whether `1 in {true: 0}` holds depends on the per-map random hasher state -
    even two evaluations of the same expression in one render disagree.  Such expressions are left to the default
    build: a map (literal or dict()) together with numeric-ish atoms of more than one kind."""
    subs = list(subexprs(e))
    has_map = any(x[0] == "map" or (x[0] == "call" and x[1] in ("dict", "namespace")) or x == ("var", "cm") for x in subs)
    kinds = {x[0] for x in subs if x[0] in ("bool", "int", "float")}
    return has_map and len(kinds) >= 2


def run_c04(reqs, release=False, workers=12):
    if not reqs:
        return []
    env = dict(ENV)
    env["MJVERIF_WATCHDOG_MS"] = "30000"
    n = max(1, min(workers, len(reqs) // 8 + 1))
    chunks = [reqs[i::n] for i in range(n)]
    with concurrent.futures.ThreadPoolExecutor(n) as ex:
        outs = list(ex.map(lambda c: run_json([c04_bin(release)], c, env=env), chunks))
    res = [None] * len(reqs)
    for j, o in enumerate(outs):
        for i, r in enumerate(o):
            res[j + i * n] = r
    return res


def run_c04_robust(reqs, release=False):
    """like run_c04; a request on which the process died or hung is re-run item by item, so that
    only the items that really kill the process are marked {"panic": "process died"}"""
    res = run_c04(reqs, release)
    for i, r in enumerate(res):
        if not (isinstance(r, dict) and isinstance(r.get("items"), list) and len(r["items"]) == len(reqs[i]["items"])):
            single = run_c04([{"undefined": reqs[i].get("undefined", "lenient"), "items": [it]} for it in reqs[i]["items"]], release)
            res[i] = {"items": [(s.get("items") or [{"panic": "process died"}])[0] if isinstance(s, dict) and s.get("items") else {"panic": "process died"} for s in single], "rerun": True}
    return res


def obs(it):
    """the comparable behaviour of one item: load status, rendered text / error kind, structural value / error kind"""
    if it is None or "panic" in it or "load" not in it:
        return ("crash", json.dumps(it, sort_keys=True)[:200])
    return (json.dumps(it.get("load"), sort_keys=True), json.dumps(it.get("render"), sort_keys=True), json.dumps(it.get("eval"), sort_keys=True))


def variants_of(e):
    """[(label, expr, ctx)] - variant 0 is the all-literal form; then every non-empty subset of the atoms; then unit hoists"""
    k = count_atoms(e)
    out = [("literal", e, {})]
    if k <= 6:
        subsets = [set(s) for n in range(1, k + 1) for s in itertools.combinations(range(k), n)]
    else:
        subsets = [{i} for i in range(k)] + [set(range(k))]
    for s in subsets:
        e2, ctx = hoist_atoms(e, s)
        out.append(("atoms:" + ",".join(map(str, sorted(s))), e2, ctx))
    units = literal_units(e)
    if units:
        usets = [{i} for i in range(len(units))] + ([set(range(len(units)))] if len(units) > 1 else [])
        for s in usets[:12]:
            e2, ctx = hoist_units(e, s)
            out.append(("units:" + ",".join(map(str, sorted(s))), e2, ctx))
    return out


def uses_macro(e):
    return any(x[0] == "call" and x[1] == "m" for x in subexprs(e))


def request_for(e, mode, vs=None):
    vs = vs or variants_of(e)
    items = []
    for _, e2, ctx in vs:
        c = dict(BASE_CTX)
        c.update(ctx)
        it = {"expr": src(e2), "ctx": c}
        if uses_macro(e2):
            it["prelude"] = MACRO_PRELUDE
        items.append(it)
    items[0]["ast"] = True
    return {"undefined": mode, "items": items}


def disagreements(vs, resp):
    """indices of variants whose behaviour differs from the all-literal variant; plus fold-value check"""
    items = (resp or {}).get("items") or []
    if len(items) != len(vs):
        return [("harness", 0, json.dumps(resp)[:200])]
    bad = []
    o0 = obs(items[0])
    # (a panic inside the engine that every variant shows alike is C01's business, not a difference)
    for i in range(1, len(vs)):
        oi = obs(items[i])
        if oi != o0:
            bad.append(("differs", i, None))
    # a folded constant must be the value the fully hoisted variant computes at run time
    k = count_atoms(vs[0][1])
    if "const" in items[0] and k >= 1:
        full = next((i for i, v in enumerate(vs) if v[0] == "atoms:" + ",".join(map(str, range(k)))), None)
        if full is not None:
            ev = items[full].get("eval")
            if not (isinstance(ev, dict) and "ok" in ev and ev["ok"] == items[0]["const"]):
                bad.append(("folded-value", full, None))
    return bad


def reductions(e):
    """smaller candidates: the sub-expressions, and for a comparison chain the chains with one link less"""
    out = list(kids(e)[0])
    if e[0] == "cmp" and len(e[2]) > 2:
        out = [("cmp", e[1], e[2][:-1]), ("cmp", e[2][0][1], e[2][1:])] + out
    return out


def shrink(e, mode, release):
    """greedy descent to a smallest failing sub-expression, then to one failing variant"""
    def failing(x):
        if count_atoms(x) == 0:
            return None
        vs = variants_of(x)
        resp = run_c04([request_for(x, mode, vs)], release)[0]
        b = disagreements(vs, resp)
        return (vs, resp, b) if b else None
    cur = e
    info = failing(cur)
    if info is None:
        return None
    budget = 60
    progress = True
    while progress and budget > 0:
        progress = False
        for k in reductions(cur):
            budget -= 1
            inf2 = failing(k)
            if inf2 is not None:
                cur, info, progress = k, inf2, True
                break
    return cur, info


# ---------------------------------------------------------------------------------------------
# part B: deferred errors
# ---------------------------------------------------------------------------------------------
FIXED_FAILING = [
    ("bin", "//", ("int", 1), ("int", 0)), ("bin", "%", ("int", 1), ("int", 0)), ("bin", "+", ("int", 1), ("str", "a")),
    ("bin", "+", ("int", 2 ** 127 - 1), ("int", 1)), ("bin", "*", ("int", 2 ** 64), ("int", 2 ** 64)), ("neg", ("str", "a")),
    ("bin", "**", ("int", 2), ("int", 128)), ("cmp", ("int", 1), [("in", ("int", 5))]), ("cmp", ("int", 1), [("notin", ("int", 5))]),
    ("cmp", ("int", 1), [("<", ("int", 2)), ("in", ("int", 5))]), ("neg", ("int", 2 ** 127 + 1)), ("bin", "-", ("str", "a"), ("str", "b")),
    ("bin", "//", ("float", f2b(1.0)), ("str", "x")), ("bin", "/", ("int", 1), ("none",)), ("list", [("bin", "//", ("int", 1), ("int", 0))]),
    ("bin", "+", ("bin", "//", ("int", 1), ("int", 0)), ("int", 1)), ("not", ("bin", "%", ("int", 7), ("int", 0))),
    ("and", ("int", 1), ("bin", "//", ("int", 1), ("int", 0))), ("or", ("int", 0), ("bin", "//", ("int", 1), ("int", 0))),
    ("bin", "*", ("str", "ab"), ("int", 2 ** 63)), ("bin", "-", ("int", 0), ("int", 2 ** 127 + 5)),
]


def deferred_templates(f):
    s = src(f)
    guarded = [
        ("{% if false %}{{ " + s + " }}{% endif %}ok", "ok"),
        ("{{ (" + s + ") if false else 2 }}", "2"),
        ("{{ 2 if true else (" + s + ") }}", "2"),
        ("{{ true or (" + s + ") }}", "True"),
        ("{{ false and (" + s + ") }}", "False"),
        ("{% for i in [] %}{{ " + s + " }}{% endfor %}ok", "ok"),
        ("{% macro q() %}{{ " + s + " }}{% endmacro %}ok", "ok"),
        ("{% if 0 %}{% set x = " + s + " %}{% endif %}ok", "ok"),
        ("{{ 3 if 1 < 0 else 4 }}{% if 1 > 2 %}{{ [" + s + "] }}{% endif %}", "4"),
    ]
    executed = [
        "{{ " + s + " }}", "{% set x = " + s + " %}ok", "{% if " + s + " %}a{% endif %}", "{{ [" + s + "] }}",
        "{{ dict(a=" + s + ") }}", "{% for i in [1] %}{{ " + s + " }}{% endfor %}", "{{ 1 if true else 2 }}{{ " + s + " }}",
    ]
    return guarded, executed


# ---------------------------------------------------------------------------------------------
def main():
    chk = Check("C04", "proof")
    chk.cov["trusted_base"] = TRUSTED_COMMON + [
        "Print Assumptions of the C04 theorems: see coverage.theorems",
        "part A/B (transparency and deferred-error oracles) use no model: harness/src/bin/c04.rs builds context values the way the parser builds constants (u64 / u128 / f64 from bits / str / bool / none / list / tuple / map) and reports load status, rendered text, ErrorKind, instruction names and a structural description of values",
        "part C ties C04/Model.v::as_const to ast.rs::as_const on generated core-fragment expressions only (fold status, folded value, run-time value); Lang/Interp.v is the specification of run-time evaluation; tools/langenc.py + Lang/Codec.v are unverified glue"]
    chk.assumptions = [
        "part A: expressions over the literal syntax (unary, + - * / // % **, ~, comparison chains, and/or/not, in / not in, lists, tuples, maps, negated literals, if-expressions, subscripts, slices, filters and functions with literal keyword arguments, macro calls with keyword arguments, tests); ints from a boundary pool up to 2^128-1, floats by bit pattern (no NaN/inf literals exist), short strings; <= 6 literals: every subset hoisted; 4 undefined behaviours",
        "part D: collection literals (lists, tuples, maps with int/str/bool/none keys incl. duplicates) and calls of two probe callables (function `cargs`, filter `cfilt`: they return what they were given) with positional, keyword, `*x` and `**m` arguments, duplicate keywords, literal and hoisted values; BTreeMap build of the engine (no preserve_order)",
        "part A representation family: hoisted strings held as Arc<str> / safe / owned / result of `~`, hoisted integers held at every width, in positions where the value is only looked up or compared (never handed back); the harness builds them on request (\"rep\" of a typed value)",
        "part A also runs on the engine built with feature preserve_order (IndexMap maps; C07's target dir): quick = the chain and containment families + 600 random expressions in the release build, thorough = everything in both builds",
        "part E: templates whose STATEMENTS carry the constants - if / elif / for / with / set / autoescape / include / extends / import / from-import / filter-block arguments / macro defaults / call blocks -, with declarations of template-wide effect (blocks used through self.name() or inheritance, macros, set, imports) in taken and untaken branches; one environment with a base, an included and an imported template; literal form against every hoisted subset (<= 6 literals), lenient / strict / chainable",
        "part F: every builtin callable that takes keyword arguments (indent, tojson, groupby, dictsort, sort, unique, map, format, dict, namespace), macros and probe callables that consume keywords conditionally and call assert_all_used; subsets of their keywords incl. unexpected and duplicate ones; the call site runs 2-3 times (loop, macro called repeatedly, one template rendered repeatedly on one environment) with different positional selectors; literal keywords against every hoisted subset",
        "part C: core fragment of Lang/Interp.v (unbounded ints represented up to i128, ASCII strings, bools, none, lists, maps with scalar keys - literals with constant / computed / duplicate keys, a map variable, `in`, ==, subscripts, length, truthiness -, ==/!= chains across bool/int; typed so that operators meet the operand kinds the reference evaluator models)",
        "a value is 'the same' when it is built from the literal's text exactly like the parser's constant (u64 if it fits, else u128; negated units: i64 if it fits, else i128)"]
    okm, blog = build_models("C04")
    proofs_ok = chk.run_proofs()
    okc, clog = cargo_build(["c04"], release=False)
    okr, clog2 = cargo_build(["c04"], release=True)
    po_profiles = ["po-debug", "po"] if chk.thorough else ["po"]
    for pp in po_profiles:
        okp, clogp = cargo_build_po(pp == "po")
        okr, clog2 = okr and okp, clog2 + clogp
    if not (okc and okr):
        chk.violation("harness does not build against the current tree", {"theorem_or_correspondence": "build harness/src/bin/c04.rs", "log": (clog + clog2)[-1500:]}, True)
        chk.finish()
    if not okm:
        chk.violation("model build failed", {"theorem_or_correspondence": "coq/theories/C04 build", "log": blog[-1500:]}, True)
        chk.finish()

    hist = collections.Counter()
    kinds = collections.Counter()

    # ---------------- part A -------------------------------------------------------------------
    exprs = []
    rep_all, rep_needle = set(), set()        # sources of the expressions that also get representation variants
    if chk.replay:
        rp = json.load(open(chk.replay))["replay"]
        if "ast" in rp:
            exprs.append((eval(rp["ast"]), rp.get("undefined", "lenient")))
            rep_all.add(src(exprs[-1][0]))
    else:
        n = 80000 if chk.thorough else 4000
        g = GenA(chk.rng)
        seeds = [("and", ("int", 0), ("int", 1)), ("and", ("int", 1), ("str", "")), ("or", ("int", 0), ("list", [])),
                 ("not", ("list", [])), ("cmp", ("int", 1), [("<", ("int", 2)), ("<", ("int", 3))]),
                 ("call", "dict", [], [("a", ("int", 1)), ("b", ("neg", ("int", 2)))]),
                 ("filter", "default", ("var", "u"), [], [("value", ("int", 1))]),
                 ("bin", "//", ("int", 1), ("int", 0)), ("neg", ("int", 2 ** 127)), ("neg", ("int", 2 ** 63)),
                 ("bin", "+", ("int", 2 ** 128 - 1), ("int", 2 ** 128 - 1)), ("tuple", [("int", 1), ("str", "a")]),
                 ("map", [(("str", "a"), ("int", 1)), (("str", "a"), ("int", 2))]),
                 ("cmp", ("str", "a"), [("in", ("str", "abc"))]), ("bin", "~", ("float", f2b(1.0)), ("none",)),
                 ("and", ("float", f2b(0.0)), ("int", 1)), ("and", ("neg", ("float", f2b(0.0))), ("str", "x")),
                 ("and", ("none",), ("bool", True)), ("and", ("tuple", []), ("int", 1)), ("and", ("map", []), ("int", 1))]
        if os.environ.get("C04_NO_SEEDS"):          # (for experiments: does random generation alone find a defect?)
            seeds = []
        for s in seeds:
            exprs.append((s, "lenient"))
        fam = chain_family(chk.rng, 2000 if chk.thorough else 150)
        if os.environ.get("C04_NO_SEEDS"):
            fam = []
        for e in fam:
            exprs.append((e, chk.rng.choice(MODES)))
            hist["partA_chain_family"] += 1
        cfam = [] if os.environ.get("C04_NO_SEEDS") else contain_family(chk.rng, chk.thorough)
        for e in cfam:
            exprs.append((e, chk.rng.choice(MODES)))
            hist["partA_containment_family"] += 1
        rfam = [] if os.environ.get("C04_NO_SEEDS") else rep_family(chk.rng, chk.thorough)
        for e in rfam:
            exprs.append((e, "lenient"))
            rep_all.add(src(e))
            hist["partA_representation_family"] += 1
        for e in cfam:
            rep_needle.add(src(e))
        n += len(fam) + len(cfam) + len(rfam)
        po_limit = len(exprs) + (0 if chk.thorough else 600)
        tries = 0
        while len(exprs) < n and tries < 20 * n:
            tries += 1
            e = g.gen(1 + chk.rng.below(3))
            k = count_atoms(e)
            if k == 0 or k > 6 or count_nodes(e) < 2:
                continue
            exprs.append((e, chk.rng.choice(MODES)))
    nvariants = 0
    nontriv = set()
    failing_consts = []
    bad_a = []
    printer_bad = []
    BATCH = 4000
    if chk.replay or chk.thorough:
        po_limit = len(exprs)
    for b0 in range(0, len(exprs), BATCH):          # batches keep the memory of the thorough tier flat
        bex = exprs[b0:b0 + BATCH]
        vss = [variants_of(e) + (rep_variants(e) if src(e) in rep_all else rep_variants(e, only=[0]) if src(e) in rep_needle else []) for e, _ in bex]
        reqs = [request_for(e, md, vs) for (e, md), vs in zip(bex, vss)]
        nvariants += sum(len(v) for v in vss)
        for rel in [False, True] + po_profiles:
            if isinstance(rel, str):
                # the preserve_order build: the families and the first random expressions (quick), everything (thorough)
                sel = [j for j in range(len(bex)) if b0 + j < po_limit and not po_unstable(bex[j][0])]
                part = run_c04_robust([reqs[j] for j in sel], release=rel)
                resp = [None] * len(bex)
                for j, r in zip(sel, part):
                    resp[j] = r
                hist["partA_preserve_order_expressions"] += len(sel)
            else:
                resp = run_c04_robust(reqs, release=rel)
            for j, ((e, md), vs, r) in enumerate(zip(bex, vss, resp)):
                if r is None:
                    continue
                b = disagreements(vs, r)
                if b:
                    if len(bad_a) < 200:
                        bad_a.append((b0 + j, rel, b, vs, reqs[j]))
                    else:
                        bad_a.append((b0 + j, rel, b, None, None))
                if rel is not False:
                    continue
                items = (r or {}).get("items") or [{}]
                it0 = items[0]
                if "load" not in it0:
                    hist["literal_form_panics_like_all_variants"] += 1
                    continue
                if not printer_ok(e, it0):
                    printer_bad.append(src(e))
                folded = "const" in it0
                rr = it0.get("render") or {}
                hist["literal_form_folded" if folded else "literal_form_runtime"] += 1
                hist["render_ok" if "ok" in rr else "render_err_" + ERR_NAMES.get(rr.get("err"), str(rr.get("err")))] += 1
                hist["literals_%d" % count_atoms(e)] += 1
                hist["mode_" + md] += 1
                kinds_of(e, kinds)
                if "err" in rr and all(x[0] != "var" for x in subexprs(e)) and len(failing_consts) < (400 if chk.thorough else 60):
                    if all(x[0] not in ("filter", "call", "test", "item", "slice") for x in subexprs(e)):
                        failing_consts.append(e)
                if count_atoms(e) >= 2 and len(vs) >= 4 and it0.get("load") == "ok":
                    nontriv.add(src(e) + "|" + md)
    seen = set()
    for i, rel, b, vs_i, req_i in bad_a:
        if len(seen) >= 4 or vs_i is None:
            break
        e, md = exprs[i]
        sh = shrink(e, md, rel)
        if sh is None:
            small, vs = e, vs_i
            resp = run_c04_robust([req_i], rel)[0]
            b2 = b
        else:
            small, (vs, resp, b2) = sh
        key = src(small)
        if key in seen:
            continue
        seen.add(key)
        kind, vi, _ = b2[0]
        items = (resp or {}).get("items") or []
        lit, var = (items[0] if items else None), (items[vi] if vi < len(items) else None)
        c = dict(BASE_CTX)
        c.update(vs[vi][2])
        used = {k: v for k, v in c.items() if k in [x[1] for x in subexprs(vs[vi][1]) if x[0] == "var"]}
        chk.violation("literal and variable forms of an expression behave differently" if kind != "folded-value" else "a folded constant is not the value computed at run time",
                      {"template_literal": "{{ " + src(small) + " }}", "template_hoisted": "{{ " + src(vs[vi][1]) + " }}", "context": used, "undefined": md,
                       "variant": vs[vi][0], "profile": prof(rel),
                       "literal_form": {k: (lit or {}).get(k) for k in ("load", "render", "eval", "ops", "const")},
                       "hoisted_form": {k: (var or {}).get(k) for k in ("load", "render", "eval", "ops")},
                       "found_in": "{{ " + src(e) + " }}", "ast": repr(small)})

    # ---------------- part B -------------------------------------------------------------------
    fails = list(FIXED_FAILING) + (failing_consts if not chk.replay else [])
    if chk.replay:
        rp = json.load(open(chk.replay))["replay"]
        fails = [eval(rp["failing_ast"])] if "failing_ast" in rp else []
    breqs, bmeta = [], []
    for f in fails:
        guarded, executed = deferred_templates(f)
        full, ctx = hoist_atoms(f, set(range(count_atoms(f))))
        c = dict(BASE_CTX)
        c.update(ctx)
        items = [{"expr": src(full), "ctx": c}] + [{"src": t, "ctx": BASE_CTX} for t, _ in guarded] + [{"src": t, "ctx": BASE_CTX} for t in executed]
        breqs.append({"undefined": "lenient", "items": items})
        bmeta.append((f, guarded, executed))
    nb = 0
    for rel in (False, True):
        bresp = run_c04(breqs, release=rel)
        for (f, guarded, executed), r in zip(bmeta, bresp):
            items = (r or {}).get("items") or []
            if len(items) != 1 + len(guarded) + len(executed):
                chk.violation("harness failure on a deferred-error case", {"theorem_or_correspondence": "c04 harness", "expr": src(f), "response": json.dumps(r)[:300]}, True)
                continue
            ev = items[0].get("eval") or {}
            if "err" not in ev:
                hist["partB_not_failing_at_runtime"] += 1
                continue
            kind = ev["err"]
            for (t, want), it in zip(guarded, items[1:1 + len(guarded)]):
                nb += 1
                if it.get("load") != "ok" or it.get("render") != {"ok": want}:
                    chk.violation("a failing constant expression in a position that is never executed is reported anyway" if it.get("load") == "ok" else "a failing constant expression makes loading fail",
                                  {"template": t, "context": {}, "expected": {"load": "ok", "render": {"ok": want}}, "got": {"load": it.get("load"), "render": it.get("render")},
                                   "profile": prof(rel), "failing_ast": repr(f)})
            for t, it in zip(executed, items[1 + len(guarded):]):
                nb += 1
                if it.get("load") != "ok" or it.get("render") != {"err": kind}:
                    chk.violation("a failing constant expression is not reported with the run-time error when executed" if it.get("load") == "ok" else "a failing constant expression makes loading fail",
                                  {"template": t, "context": {}, "expected": {"load": "ok", "render": {"err": kind}}, "got": {"load": it.get("load"), "render": it.get("render")},
                                   "profile": prof(rel), "failing_ast": repr(f)})
    hist["partB_failing_constant_expressions"] = len(fails)

    # ---------------- part C -------------------------------------------------------------------
    lexprs = []
    if chk.replay:
        rp = json.load(open(chk.replay))["replay"]
        if "lang_ast" in rp:
            lexprs.append((eval(rp["lang_ast"]), rp.get("undefined", "lenient")))
    else:
        gl = GenL(chk.rng)
        nl = 150000 if chk.thorough else 8000
        for s in [("and", ("int", 0), ("int", 1)), ("and", ("int", 1), ("str", "")), ("or", ("str", ""), ("list", [])), ("not", ("list", [])),
                  ("cmp", ("int", 1), [("notin", ("list", [("int", 1)]))]), ("list", [("neg", ("int", 1))]), ("bin", "//", ("int", 1), ("int", 0)),
                  ("cmp", ("int", 3), [(">", ("int", 2)), (">", ("int", 1)), (">", ("bin", "//", ("int", 1), ("int", 0)))]),
                  ("cmp", ("int", 1), [(">", ("int", 2)), (">", ("bin", "//", ("int", 1), ("int", 0)))]),
                  ("cmp", ("int", 1), [(">", ("int", 2)), ("in", ("int", 3))]),
                  ("map", [(("str", "b"), ("int", 1)), (("str", "a"), ("int", 2)), (("str", "b"), ("int", 3))]),
                  ("map", [(("bool", True), ("int", 1)), (("int", 1), ("int", 2)), (("none",), ("str", "n"))]),
                  ("map", [(("var", "cs"), ("int", 1)), (("str", "a"), ("neg", ("int", 2)))]),
                  ("item", ("map", [(("str", "a"), ("int", 1))]), ("str", "a")), ("or", ("map", []), ("var", "cm")),
                  ("cmp", ("str", "z"), [("in", ("var", "cm"))]),
                  ("cmp", ("int", 1), [("==", ("bool", True)), ("==", ("int", 1))]), ("cmp", ("int", 1), [("!=", ("bool", True)), ("!=", ("int", 0))])]:
            lexprs.append((s, "lenient"))
        while len(lexprs) < nl:
            e = gl.any(1 + chk.rng.below(3))
            if count_nodes(e) < 2 or count_atoms(e) > 8:
                continue
            lexprs.append((e, chk.rng.choice(["lenient", "strict", "lenient", "semistrict", "chainable"])))
    creqs, cases, ccases_h = [], [], []
    for e, md in lexprs:
        k = count_atoms(e)
        full, hctx = hoist_atoms(e, set(range(k)))
        c = {n: tv_py(v) for n, v in LANG_CTX.items()}
        c2 = dict(c)
        c2.update(hctx)
        creqs.append({"undefined": md, "items": [{"expr": src(e), "ctx": c, "ast": True}, {"expr": src(full), "ctx": c2, "ast": True}]})
        N = langenc.Names()
        ctxl = []
        for n in sorted(LANG_CTX):
            ctxl += [N.id(n)] + langenc.value(LANG_CTX[n])
        cases.append([langenc.MODES[md], len(LANG_CTX)] + ctxl + langenc.expr(to_lang(e), N))
        N2 = langenc.Names()
        pyc = dict(LANG_CTX)
        pyc.update({n: py_tv(v) for n, v in hctx.items()})
        ctxl2 = []
        for n in sorted(pyc):
            ctxl2 += [N2.id(n)] + langenc.value(pyc[n])
        ccases_h.append([langenc.MODES[md], len(pyc)] + ctxl2 + langenc.expr(to_lang(full), N2))
    model = run_model("C04", "c04", cases) if cases else []
    model_h = run_model("C04", "c04", ccases_h) if cases else []
    msub = run_model("C04", "c04-sub", cases) if cases else []
    msub_h = run_model("C04", "c04-sub", ccases_h) if cases else []
    bad_c = []
    bad_sub = []
    for rel in (False, True):
        cresp = run_c04(creqs, release=rel)
        for i, ((e, md), r) in enumerate(zip(lexprs, cresp)):
            items = (r or {}).get("items") or []
            if len(items) != 2 or "load" not in items[0]:
                bad_c.append((i, rel, "harness", None, None))
                continue
            if not rel and not (printer_ok(e, items[0]) and printer_ok(hoist_atoms(e, set(range(count_atoms(e))))[0], items[1])):
                printer_bad.append(src(e))
            for it, ms in ((items[0], msub[i]), (items[1], msub_h[i])):
                # the folding decisions below the top node: instruction counts predicted by fold_sub
                ops = it.get("ops") or []
                if ms[:1] != [-1] and [ops.count("LoadConst"), ops.count("Lookup")] != ms:
                    bad_sub.append((i, rel, src(e), ops, ms))
            for which, it, m in ((0, items[0], model[i]), (1, items[1], model_h[i])):
                folded = it.get("ops") == ["LoadConst", "Emit"]
                exp = ([1] + sv_enc(it["const"])) if folded and "const" in it else [0]
                ev = it.get("eval") or {}
                exp += ([0] + sv_enc(ev["ok"])) if "ok" in ev else [1, ev.get("err")]
                if exp != model_norm(m):
                    bad_c.append((i, rel, "literal" if which == 0 else "hoisted", exp, m))
                elif not rel and which == 0:
                    hist["partC_folded" if folded else "partC_runtime"] += 1
                    hist["partC_eval_ok" if "ok" in ev else "partC_eval_err"] += 1
                    if any(x[0] == "map" or x == ("var", "cm") for x in subexprs(e)):
                        hist["partC_with_maps"] += 1
    # kernel cross-check of the extraction
    small = sorted(range(len(cases)), key=lambda i: (len(cases[i]), max(abs(x) for x in cases[i])))[:16]
    kern = kernel_eval("run", [cases[i] for i in small], "k_C04", imports="Common.Base C04.Runner") if cases else []
    kern_ok = kern is not None and all(kern[j] == model[small[j]] for j in range(len(small)))
    seen_c = set()
    old_explains = 0
    for i, rel, which, exp, m in bad_c:
        if len(seen_c) >= 3:
            break
        e, md = lexprs[i]
        if which == "harness":
            chk.violation("harness failure on a core-fragment case", {"theorem_or_correspondence": "c04 harness", "expr": src(e)}, True)
            seen_c.add("h")
            continue
        # smallest sub-expression on which engine and model still disagree
        cur = e
        def dis(x):
            N = langenc.Names()
            ctxl = []
            for n in sorted(LANG_CTX):
                ctxl += [N.id(n)] + langenc.value(LANG_CTX[n])
            case = [langenc.MODES[md], len(LANG_CTX)] + ctxl + langenc.expr(to_lang(x), N)
            mm = run_model("C04", "c04", [case])[0]
            mo = run_model("C04", "c04-old", [case])[0]
            rr = run_c04([{"undefined": md, "items": [{"expr": src(x), "ctx": {n: tv_py(v) for n, v in LANG_CTX.items()}}]}], rel)[0]
            it = ((rr or {}).get("items") or [{}])[0]
            folded = it.get("ops") == ["LoadConst", "Emit"]
            ex = ([1] + sv_enc(it["const"])) if folded and "const" in it else [0]
            ev = it.get("eval") or {}
            ex += ([0] + sv_enc(ev["ok"])) if "ok" in ev else [1, ev.get("err")]
            return (ex, mm, mo, it) if ex != model_norm(mm) else None
        info = dis(cur)
        if info is None and which == "hoisted":
            info = (exp, m, None, None)
        progress = info is not None and which == "literal"
        while progress:
            progress = False
            for k in kids(cur)[0]:
                inf2 = dis(k)
                if inf2 is not None:
                    cur, info, progress = k, inf2, True
                    break
        if src(cur) in seen_c:
            continue
        seen_c.add(src(cur))
        ex, mm, mo, it = info if info else (exp, m, None, None)
        # does the transparency oracle fail on this very expression?  then it is a failing input
        vs = variants_of(cur)
        rr = run_c04([request_for(cur, md, vs)], rel)[0] if count_atoms(cur) else None
        b = disagreements(vs, rr) if rr else []
        rep = {"template": "{{ " + src(cur) + " }}", "context": {n: tv_py(v) for n, v in LANG_CTX.items()}, "undefined": md, "profile": prof(rel),
               "engine": {"folded_then_value": ex, "ops": (it or {}).get("ops")}, "model_fixed_folder": mm, "model_folder_as_found": mo,
               "lang_ast": repr(cur), "form": which}
        if which == "hoisted":
            full, hctx = hoist_atoms(e, set(range(count_atoms(e))))
            rep["template"] = "{{ " + src(full) + " }}"
            rep["context"] = dict({n: tv_py(v) for n, v in LANG_CTX.items()}, **hctx)
        if mo is not None and fold_part(ex) == fold_part(model_norm(mo)) and fold_part(ex) != fold_part(model_norm(mm)):
            old_explains += 1
            rep["note"] = "the engine behaves like the model of ast.rs as found (as_const_old), not like the repaired folder"
        if b:
            rep["variant_disagreeing"] = vs[b[0][1]][0]
            rep["template_hoisted"] = "{{ " + src(vs[b[0][1]][1]) + " }}"
            chk.violation("the constant folder disagrees with run-time evaluation (model as_const vs engine)", rep)
        else:
            rep["theorem_or_correspondence"] = "C04/Model.v::as_const vs compiler/ast.rs::as_const / Lang/Interp.v vs vm"
            chk.violation("model and engine disagree on a core-fragment expression", rep, True)

    # ---------------- part D -------------------------------------------------------------------
    dexprs = []
    if chk.replay:
        rp = json.load(open(chk.replay))["replay"]
        if "coll_ast" in rp:
            dexprs.append(eval(rp["coll_ast"]))
    else:
        gd = GenD(chk.rng)
        k_ = lambda s_: ("str", s_)
        for sd in [("map", [(k_("b"), ("int", 1)), (k_("a"), ("int", 2)), (k_("b"), ("int", 3))]), ("map", [(("bool", True), ("int", 1)), (("int", 1), ("int", 2))]),
                   ("tuple", [("int", 1)]), ("tuple", []), ("list", [("tuple", [("int", 1), ("int", 2), ("int", 3)])]),
                   ("xcall", None, "cargs", [("pos", None, ("int", 1)), ("kw", "a", ("int", 2)), ("kw", "b", ("int", 3)), ("kw", "a", ("int", 4))]),
                   ("xcall", None, "cargs", [("psplat", None, ("list", [("int", 1), ("int", 2)])), ("pos", None, ("int", 3)), ("ksplat", None, ("var", "cm")), ("kw", "c", ("int", 4))]),
                   ("xcall", ("int", 5), "cfilt", [("kw", "a", ("int", 1)), ("psplat", None, ("var", "cl"))]),
                   ("xcall", None, "cargs", [("kw", "a", ("var", "u"))]), ("xcall", None, "cargs", [("ksplat", None, ("int", 5))])]:
            dexprs.append(sd)
        nd = 40000 if chk.thorough else 2500
        while len(dexprs) < nd:
            e = gd.gen(1 + chk.rng.below(3))
            if count_nodes(e) < 2:
                continue
            dexprs.append(e)
    dreqs, dcases, dmeta = [], [], []
    for e in dexprs:
        k = count_atoms(e)
        full, hctx = hoist_atoms(e, set(range(k)))
        for form, rho_py in ((e, dict(D_RHO)), (full, dict(D_RHO, **{n: py_tv(v) for n, v in hctx.items()}))):
            dreqs.append({"undefined": "lenient", "items": [{"expr": src(form), "ctx": {n: d_tv(v) for n, v in rho_py.items()}, "code": True, "ast": True}]})
            dcases.append(d_case(form, rho_py)[0])
            dmeta.append((form, rho_py))
    dmodel = run_model("C04", "c04-coll", dcases) if dcases else []
    bad_d = []
    for rel in (False, True):
        dresp = run_c04(dreqs, release=rel)
        for i, ((form, rho_py), r) in enumerate(zip(dmeta, dresp)):
            item = ((r or {}).get("items") or [{}])[0]
            why = d_check(form, rho_py, item, dmodel[i])
            if why:
                bad_d.append((i, rel, why))
            elif not rel:
                hist["partD_" + ("folded" if item.get("ops") == ["LoadConst", "Emit"] else "kwargs_static" if any(c[0] == "LoadConst" and isinstance(c[1], dict) and c[1].get("k") == "kwargs" for c in item.get("code", [])) else "other")] += 1
                hist["partD_eval_" + ("ok" if "ok" in (item.get("eval") or {}) else "err")] += 1
                if not printer_ok_d(form, item):
                    printer_bad.append(src(form))
    seen_d = set()
    for i, rel, why in sorted(bad_d, key=lambda b: len(src(dmeta[b[0]][0])))[:3]:
        form, rho_py = dmeta[i]
        # smallest sub-expression that still disagrees
        cur, progress = form, True
        def dis_d(x):
            it = ((run_c04([{"undefined": "lenient", "items": [{"expr": src(x), "ctx": {n: d_tv(v) for n, v in rho_py.items()}, "code": True}]}], rel)[0] or {}).get("items") or [{}])[0]
            mo = run_model("C04", "c04-coll", [d_case(x, rho_py)[0]])[0]
            return d_check(x, rho_py, it, mo)
        while progress:
            progress = False
            for k in kids(cur)[0]:
                w2 = dis_d(k)
                if w2:
                    cur, why, progress = k, w2, True
                    break
        if src(cur) in seen_d:
            continue
        seen_d.add(src(cur))
        # is it a failing input of the property itself (literal vs hoisted form on the engine)?
        rep = {"template": "{{ " + src(cur) + " }}", "context": rho_py, "profile": prof(rel), "disagreement": why[:600], "coll_ast": repr(cur)}
        vs = variants_of(cur) if count_atoms(cur) else None
        b = []
        if vs:
            rq = {"undefined": "lenient", "items": [{"expr": src(v[1]), "ctx": dict({n: d_tv(x) for n, x in rho_py.items()}, **v[2])} for v in vs]}
            rr = run_c04_robust([rq], rel)[0]
            b = disagreements(vs, rr)
        if b:
            rep["template_hoisted"] = "{{ " + src(vs[b[0][1]][1]) + " }}"
            rep["variant_disagreeing"] = vs[b[0][1]][0]
            chk.violation("a folded collection / statically collected keyword map differs from what the run-time constructor builds", rep)
        else:
            rep["theorem_or_correspondence"] = "C04/Coll.v (as_const of List/Tuple/Map, compile_call_args, Build*/MergeKwargs/UnpackLists) vs ast.rs / codegen.rs / vm"
            chk.violation("model and engine disagree on a collection literal or a call's arguments", rep, True)

    # ---------------- parts E and F -------------------------------------------------------------
    def run_multi(cases, what_e, kind):
        """cases: [(label, segments, base templates, contexts, undefined mode, ast tag)];  literal vs every hoisted form"""
        reqs, meta = [], []
        for label, segs, tmpls, ctxs, md, tag in cases:
            vs = seg_variants(segs)
            items = []
            for _, s2, hctx in vs:
                t = dict(tmpls)
                t["main"] = seg_src(s2)
                items.append({"templates": t, "main": "main", "ctxs": [dict(c, **hctx) for c in ctxs]})
            reqs.append({"undefined": md, "items": items})
            meta.append((label, segs, vs, md, tag))
        nbad, nvar = 0, sum(len(m[2]) for m in meta)
        reported = 0
        for rel in (False, True):
            resp = run_c04_robust(reqs, release=rel)
            for (label, segs, vs, md, tag), rq, r in zip(meta, reqs, resp):
                items = (r or {}).get("items") or []
                if len(items) != len(vs):
                    continue
                o0 = multi_obs(items[0])
                diff = [i for i in range(1, len(vs)) if multi_obs(items[i]) != o0]
                if not rel:
                    hist[kind + "_" + ("ok" if all("ok" in x for x in (items[0].get("renders") or [{}])) else "err")] += 1
                if diff:
                    nbad += 1
                    if reported < 3:
                        reported += 1
                        i = min(diff, key=lambda j: len(vs[j][0]))
                        chk.violation(what_e, {"template_literal": rq["items"][0]["templates"]["main"], "template_hoisted": rq["items"][i]["templates"]["main"],
                                               "other_templates": {k: v for k, v in rq["items"][0]["templates"].items() if k != "main"},
                                               "contexts_hoisted": rq["items"][i]["ctxs"], "undefined": md, "variant": vs[i][0], "profile": prof(rel),
                                               "literal_form": {"load": items[0].get("load"), "renders": items[0].get("renders")},
                                               "hoisted_form": {"load": items[i].get("load"), "renders": items[i].get("renders")},
                                               "case": label, tag: repr((segs, rq["items"][0]["ctxs"]))})
        return nbad, nvar

    ecases = []
    if chk.replay:
        rp = json.load(open(chk.replay))["replay"]
        if "stmt_case" in rp:
            segs, ctxs = eval(rp["stmt_case"])
            ecases.append(("replay", segs, dict(E_TEMPLATES), ctxs, rp.get("undefined", "lenient"), "stmt_case"))
    else:
        ne = 12000 if chk.thorough else 900
        E = lambda x: ("E", x)
        for segs in [["{% if ", E(("bool", False)), " %}{% block note %}NOTE{% endblock %}{% endif %}[{{ self.note() }}]"],
                     ["{% if ", E(("bool", True)), " %}x{% else %}{% block n2 %}N2{% endblock %}{% endif %}[{{ self.n2() }}]"],
                     ["{% extends ", E(("str", "base")), " %}{% if ", E(("bool", False)), " %}{% block title %}child title{% endblock %}{% endif %}"],
                     ["{% if ", E(("int", 0)), " %}{% macro q() %}Q{% endmacro %}{% endif %}[{{ q() }}]"],
                     ["{% for x in ", E(("list", [])), " %}{% block lb %}LB{% endblock %}{% endfor %}[{{ self.lb() }}]"],
                     ["{% autoescape ", E(("str", "html")), " %}{{ ", E(("str", "<b>")), " }}{% endautoescape %}"],
                     ["{% include ", E(("list", [("str", "missing"), ("str", "inc")])), " %}"]]:
            ecases.append(("seed", segs, dict(E_TEMPLATES), [dict(E_CTX)], "lenient", "stmt_case"))
        tries = 0
        while len(ecases) < ne and tries < 20 * ne:
            tries += 1
            segs = GenS(chk.rng).template()
            k = seg_atoms(segs)
            if k == 0 or k > 9:
                continue
            ecases.append(("gen", segs, dict(E_TEMPLATES), [dict(E_CTX)], chk.rng.choice(["lenient", "lenient", "strict", "chainable"]), "stmt_case"))
    bad_e, nvar_e = run_multi(ecases, "literal and variable forms of a statement-level constant behave differently", "partE")

    fcases = []
    if chk.replay:
        rp = json.load(open(chk.replay))["replay"]
        if "repeat_case" in rp:
            segs, ctxs = eval(rp["repeat_case"])
            fcases.append(("replay", segs, {}, ctxs, rp.get("undefined", "lenient"), "repeat_case"))
    else:
        for name, build, cands, seqs in f_sites():
            subsets = [c for n in range(1, len(cands) + 1) for c in itertools.combinations(range(len(cands)), n)]
            if not chk.thorough and len(subsets) > 8:
                subsets = [subsets[i] for i in sorted(set([0, len(subsets) - 1] + [chk.rng.below(len(subsets)) for _ in range(7)]))]
            for sub in subsets:
                kw = [cands[i] for i in sub]
                call = build(kw)
                if count_atoms(call) > 6:
                    continue
                for seq in (seqs if chk.thorough else seqs[:3]):
                    for mode, segs, ctxs in f_templates(call, seq):
                        fcases.append((name + ":" + mode, segs, {}, [dict(F_CTX, **c) for c in ctxs], "lenient", "repeat_case"))
    bad_f, nvar_f = run_multi(fcases, "a call site that runs more than once treats literal keyword arguments differently from the same values in variables", "partF")

    if bad_sub and not chk.violations:
        i, rel, s_, ops, ms = min(bad_sub, key=lambda b: len(b[2]))
        chk.violation("the engine folds sub-expressions differently from the model (fold_sub)",
                      {"theorem_or_correspondence": "C04/Model.v::fold_sub vs codegen.rs::compile_expr (recursive as_const)", "template": "{{ " + s_ + " }}",
                       "engine_ops": ops, "model_loadconst_lookup": ms, "profile": prof(rel), "lang_ast": repr(lexprs[i][0])}, True)
    chk.cov["evaluations"] = 2 * (nvariants + 2 * len(lexprs) + len(dmeta) + nvar_e + nvar_f) + nb
    chk.cov["distinct_nontrivial"] = len(nontriv)
    chk.cov["rule"] = ("part A: generated expressions x EVERY subset of their literal positions hoisted into typed context variables (+ whole literal units), each variant loaded, rendered as `{{ E }}` and `{{ [E] }}` and evaluated through compile_expression, debug and release; "
                       "non-trivial = distinct (expression, undefined behaviour) with >= 2 literals and >= 4 variants whose literal form loads; "
                       "part B: failing constant expressions x 9 never-executed + 7 executed positions; part C: core-fragment expressions, engine fold status / folded value / run-time value vs extracted as_const + reference evaluator, literal and fully hoisted form; "
                       "parts E / F: statement-level constants and repeatedly executed call sites, literal form vs every hoisted subset, load status + every render's text / ErrorKind; "
                       "part D: collection literals and probe calls, literal and fully hoisted form: the engine's instruction stream of `{{ E }}` (opcodes, counts, constants incl. statically collected keyword maps) and its value vs the extracted model of as_const / compile_call_args / Build* (C04/Coll.v) and its reference semantics")
    chk.cov["samples"] = ["{{ " + src(exprs[i][0]) + " }}" for i in (0, len(exprs) // 3, 2 * len(exprs) // 3, len(exprs) - 1) if exprs] + \
                         ["{{ " + src(lexprs[i][0]) + " }}" for i in (len(lexprs) // 2, len(lexprs) - 1) if lexprs]
    chk.cov["distribution"] = {"outcomes": dict(hist), "constructs": dict(kinds)}
    chk.cov["partA"] = {"expressions": len(exprs), "variants": nvariants, "disagreeing_expressions": len(bad_a)}
    chk.cov["partB"] = {"failing_constant_expressions": len(fails), "template_checks": nb}
    chk.cov["partC"] = {"expressions": len(lexprs), "engine_vs_model_disagreements": len(bad_c), "subexpression_folding_disagreements": len(bad_sub), "explained_by_folder_as_found": old_explains}
    chk.cov["partE"] = {"templates": len(ecases), "variants": nvar_e, "disagreeing_templates": bad_e}
    chk.cov["partF"] = {"call_site_templates": len(fcases), "variants": nvar_f, "disagreeing_templates": bad_f}
    chk.cov["partD"] = {"expressions": len(dexprs), "forms": len(dmeta), "engine_vs_model_disagreements": len(bad_d)}
    chk.cov["kernel_crosscheck"] = {"cases": len(small), "agree": kern_ok}
    chk.cov["printer_selftest"] = {"expressions": len(exprs) + 2 * len(lexprs) + len(dmeta), "parser_ast_differs": len(printer_bad)}
    if printer_bad and not chk.violations:
        chk.violation("the parser reads a generated source differently from the generated AST (generator/printer defect)",
                      {"theorem_or_correspondence": "tools/props/C04.py::src vs compiler/parser.rs", "sources": printer_bad[:5]}, True)
    if not chk.violations and not chk.replay:
        total = max(1, hist["literal_form_folded"] + hist["literal_form_runtime"])
        if hist["literal_form_folded"] < total // 10 or hist["render_ok"] < total // 4:
            chk.violation("generator degenerated: too few folded / successfully rendered expressions", {"theorem_or_correspondence": "tools/props/C04.py distribution", "hist": dict(hist)}, True)
        if not kern_ok:
            chk.violation("kernel evaluation disagrees with the extracted model", {"theorem_or_correspondence": "vm_compute cross-check of extraction"}, True)
    if not chk.violations and not proofs_ok:
        chk.violation("proof obligations of C04 do not check", {"theorem_or_correspondence": chk.proof["problems"]}, True)
    chk.finish()


if __name__ == "__main__":
    main()
