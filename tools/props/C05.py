#!/usr/bin/env python3
"""C05 - scoped constructs restore scope, capture and escape state on every path (DESIGN.md §3 C05).

Deciding method: the Coq-verified checker `check_ann` (theorem check_ann_sound: acceptance implies
every abstract path balanced) is extracted and run on the REAL instruction streams the current
compiler emits for generated templates and for the repository's fixtures; a dynamic oracle renders
the same templates (sentinel after the constructs must reach the output; no panic; no hang)."""
import os, sys, collections, itertools, glob
sys.path.insert(0, os.path.dirname(os.path.dirname(os.path.abspath(__file__))))
from vlib import *
import proggen, absinstr, langenc

SENT = "«END»"

def nestings(depth):
    """all nestings (outer -> inner) of the scoped constructs, with a break/continue at the innermost point"""
    K = ["for", "forfilter", "forelse", "with", "setblock", "filterblock", "autoescape", "if", "forrec"]
    def wrap(kind, inner, lvl):
        v = "x%d" % lvl
        if kind == "for": return "{%% for %s in l %%}%s{%% endfor %%}" % (v, inner)
        if kind == "forfilter": return "{%% for %s in l if %s != 9 %%}%s{%% endfor %%}" % (v, v, inner)
        if kind == "forelse": return "{%% for %s in l %%}%s{%% else %%}E{%% endfor %%}" % (v, inner)
        if kind == "forrec": return "{%% for %s in l recursive %%}%s{%% endfor %%}" % (v, inner)
        if kind == "with": return "{%% with %s = 1 %%}%s{%% endwith %%}" % (v, inner)
        if kind == "setblock": return "{%% set %s %%}%s{%% endset %%}[{{ %s }}]" % (v, inner, v)
        if kind == "filterblock": return "{%% filter upper %%}%s{%% endfilter %%}" % inner
        if kind == "autoescape": return "{%% autoescape 'html' %%}%s{%% endautoescape %%}" % inner
        if kind == "if": return "{%% if t %%}%s{%% endif %%}" % inner
    for n in range(1, depth + 1):
        for combo in itertools.product(K, repeat=n):
            if not any(k.startswith("for") for k in combo):
                continue
            for ctl in ("break", "continue"):
                for guarded in (True, False):
                    core = "a{{ x0 }}" + ("{%% if c %%}{%% %s %%}{%% endif %%}" % ctl if guarded else "{%% %s %%}" % ctl) + "b"
                    src = core
                    for lvl, kind in enumerate(reversed(combo)):
                        src = wrap(kind, src, lvl) + "."
                    yield "{% set x0 = 7 %}" + src + SENT


def else_controls():
    """loop controls in the else block of a loop, with and without an enclosing loop, under scoped constructs"""
    for ctl in ("break", "continue"):
        for guard in ("", "c"):
            inner = ("{%% if c %%}{%% %s %%}{%% endif %%}" % ctl) if guard else "{%% %s %%}" % ctl
            core = "{% for a in k %}x{% else %}e" + inner + "f{% endfor %}"
            yield core + SENT
            yield "{% for o in l %}<" + core + ">{% endfor %}" + SENT
            yield "{% for o in l %}{% with w = o %}<" + core + ">{% endwith %}{% endfor %}" + SENT
            yield "{% for o in l %}{% set z %}<" + core + ">{% endset %}{{ z }}{% endfor %}" + SENT


def escape_state_family():
    """nested autoescape blocks (also around the other scoped constructs and loop controls): after every
    block the escape mode must be the one before it.  Returns (source, expected output) for a template
    whose initial mode is none (name without html extension); v = '<'."""
    modes = [("true", True), ("false", False), ("'html'", True), ("'none'", False)]
    def show(esc):
        return "&lt;" if esc else "<"
    out = []
    for a, ea in modes:
        for b, eb in modes:
            out.append(("{%% autoescape %s %%}{%% autoescape %s %%}{{ v }}{%% endautoescape %%}{{ v }}{%% endautoescape %%}{{ v }}" % (a, b),
                        show(eb) + show(ea) + show(False)))
            for c, ec in modes:
                out.append(("{%% autoescape %s %%}{%% autoescape %s %%}{%% autoescape %s %%}{{ v }}{%% endautoescape %%}{{ v }}{%% endautoescape %%}{{ v }}{%% endautoescape %%}{{ v }}" % (a, b, c),
                            show(ec) + show(eb) + show(ea) + show(False)))
            out.append(("{%% autoescape %s %%}{%% for i in l %%}{%% autoescape %s %%}{%% if c %%}{%% continue %%}{%% endif %%}{{ v }}{%% endautoescape %%}{{ v }}{%% endfor %%}{{ v }}{%% endautoescape %%}{{ v }}" % (a, b),
                        None))
            out.append(("{%% autoescape %s %%}{%% with q = 1 %%}{%% autoescape %s %%}{{ v }}{%% endautoescape %%}{%% endwith %%}{{ v }}{%% set z %%}{%% autoescape %s %%}{{ v }}{%% endautoescape %%}{{ v }}{%% endset %%}{{ z }}{%% endautoescape %%}{{ v }}" % (a, b, b),
                        show(eb) + show(ea) + show(eb) + show(ea) + show(False)))
    return out


def fixture_templates():
    out = []
    for f in sorted(glob.glob(os.path.join(REPO, "minijinja/tests/inputs/*.txt")) + glob.glob(os.path.join(REPO, "minijinja/tests/inputs/*.html"))):
        try:
            txt = open(f, encoding="utf8").read()
        except Exception:
            continue
        # fixtures start with a JSON context line followed by '---'
        parts = txt.split("\n---\n", 1)
        out.append((os.path.basename(f), parts[1] if len(parts) == 2 else txt))
    return out


def main():
    chk = Check("C05", "proof")
    chk.cov["trusted_base"] = TRUSTED_COMMON + [
        "Print Assumptions: check_ann_sound, verdict_sound closed under the global context",
        "tools/absinstr.py: translation of the real Instruction JSON dump into the abstract instructions (operand-stack arities, successor targets) - unverified glue; the abstract shape machine of C05/Model.v is the semantics the theorem speaks about, its agreement with eval_impl is checked dynamically (renders) not proved",
        "recursive-loop calls (FastRecurse / loop()) and macro, block, include, super() calls are summarised as balanced calls (each callee stream/entry point is checked separately)"]
    chk.assumptions = ["the annotation inferencer is unverified; only its result is trusted through check_ann",
                       "typing a LoadConst(0) as an empty counted bundle is sound; the translator chooses where (filtered-loop accumulator)"]
    okm, blog = build_models("C05")
    proofs_ok = chk.run_proofs()
    okc, clog = cargo_build(["prog"], release=False)
    okr, clog2 = cargo_build(["prog"], release=True)
    if not (okc and okr):
        chk.violation("harness does not build against the current tree", {"theorem_or_correspondence": "build harness/src/bin/prog.rs", "log": (clog + clog2)[-1500:]}, True)
        chk.finish()
    if not okm:
        chk.violation("model build failed", {"theorem_or_correspondence": "coq/theories/C05 build", "log": blog[-1500:]}, True)
        chk.finish()
    # ---- templates ----
    templates = []
    gen_asts = {}      # template index -> AST, for the state-restoration differential
    expected = {}      # template index -> expected output (None: only the consistency oracle)
    if chk.replay:
        rp = json.load(open(chk.replay))
        templates.append(("replay", rp["replay"]["template"]))
    else:
        depth = 3 if chk.thorough else 2
        for i, t in enumerate(nestings(depth)):
            templates.append(("nest%d" % i, t))
        for i, t in enumerate(else_controls()):
            templates.append(("elsectl%d" % i, t))
        if not chk.thorough:
            # sample of the 3-deep nestings in quick
            all3 = list(nestings(3))
            for j in range(400):
                templates.append(("nest3s%d" % j, all3[chk.rng.below(len(all3))]))
        nrand = 6000 if chk.thorough else 600
        for j in range(nrand):
            g = proggen.Gen(chk.rng, {"autoescape": True, "recursive": False, "strings_with_meta": True}, max_depth=3 + chk.rng.below(2))
            ctx, kinds = proggen.default_context(chk.rng)
            body = g.template(kinds) + [("raw", SENT)]
            gen_asts[len(templates)] = body
            templates.append(("gen%d" % j, proggen.body_src(body)))
        for k, (src, exp) in enumerate(escape_state_family()):
            expected[len(templates)] = exp
            templates.append(("escstate%d" % k, src + SENT))
        for name, src in fixture_templates():
            templates.append(("fixture:" + name, src))
    hist = collections.Counter()
    # ---- static: verified checker on the real instruction streams ----
    reqs = [{"templates": {"main": src}, "main": "main", "ctx": {}, "ops": ["instructions"]} for _, src in templates]
    dumps = run_prog(reqs)
    streams = []   # (template index, stream name, instrs)
    for ti, d in enumerate(dumps):
        ins = d.get("instructions")
        if not ins:
            hist["not_compiled"] += 1
            continue
        streams.append((ti, "main", ins["main"]))
        for bn, b in sorted(ins["blocks"].items()):
            streams.append((ti, "block:" + bn, b))
    # what the VM pops when a recursion call returns is read from vm/mod.rs of the tree under test
    try:
        vmrule = absinstr.vm_return_rule(REPO)
    except (absinstr.TranslatorError, OSError) as ex:
        chk.violation("the return path of a recursion call in vm/mod.rs is not recognised by the translator",
                      {"theorem_or_correspondence": "tools/absinstr.py::vm_return_rule (Instruction::PopLoopFrame arm)", "error": str(ex)}, True)
        chk.finish()
    absinstr.set_rule(vmrule)
    chk.cov["vm_return_rule"] = [list(o) for o in vmrule["ops"]]
    cases = []
    for ti, sn, instrs in streams:
        try:
            cases.append(absinstr.encode(instrs))
        except ValueError as ex:
            chk.violation("instruction not known to the translator", {"theorem_or_correspondence": "tools/absinstr.py", "error": str(ex), "template": templates[ti][1]}, True)
            cases.append([0, 0])
    verdicts = run_model("C05", "c05", cases)
    rejected = []
    for k, v in enumerate(verdicts):
        if v[:1] == [1]:
            continue
        # try alternative typings of zero constants before believing a rejection
        ti, sn, instrs = streams[k]
        alts = list(absinstr.typings(instrs))[1:]
        ok = False
        if alts:
            rs = run_model("C05", "c05", [absinstr.encode(instrs, t) for t in alts])
            ok = any(r[:1] == [1] for r in rs)
        if not ok:
            rejected.append((k, v))
    for op in ("PushWith", "PushLoop", "BeginCapture", "PushAutoEscape", "BuildMacro", "Jump", "FastRecurse", "CallBlock"):
        hist["streams_with_" + op] = sum(1 for _, _, ins in streams if any(i["op"] == op for i in ins))
    hist["streams"] = len(streams)
    hist["instructions"] = sum(len(ins) for _, _, ins in streams)
    # ---- dynamic: render, sentinel must arrive, no crash ----
    ctxs = [{"l": [1, 2, 3], "c": True, "t": True, "n": 3, "m": 2, "s": "a<b", "k": [1, 2], "v": "<"},
            {"l": [1, 2, 3], "c": False, "t": True, "n": 0, "m": -2, "s": "", "k": [], "v": "<"},
            {"l": [], "c": True, "t": False, "n": 7, "m": 10, "s": "Q'", "k": [1], "v": "<"}]
    # what the reference interpreter (Lang/Interp.v, extracted for C03) renders for the generated programs:
    # scope, capture and auto-escape state after every construct show in the rest of the output
    ref = {}
    if gen_asts and build_models("C03")[0]:
        keys = [(ti, ci) for ti in sorted(gen_asts) for ci in range(len(ctxs))]
        outs = run_model("C03", "c03", [langenc.request(gen_asts[ti], ctxs[ci])[0] for ti, ci in keys])
        for k, o in zip(keys, outs):
            ref[k] = o
    dyn_reqs, dyn_idx = [], []
    for ti, (name, src) in enumerate(templates):
        if name.startswith("fixture:"):
            continue
        for ci, ctx in enumerate(ctxs):
            dyn_reqs.append({"templates": {"main": src, "inc0.txt": "i0", "inc1.txt": "{{ n }}"}, "main": "main", "ctx": ctx, "ops": ["render"]})
            dyn_idx.append((ti, ci))
    dyn_bad = []
    for rel in (False, True):
        res = run_prog(dyn_reqs, release=rel, watchdog_ms=8000)
        for (ti, ci), r in zip(dyn_idx, res):
            rr = r.get("render", r)
            if "ok" in rr:
                hist["render_ok"] += 1
                if not rr["ok"].endswith(SENT):
                    dyn_bad.append((ti, ci, rel, "text after the construct did not reach the output", rr["ok"][-60:]))
                elif expected.get(ti) is not None and rr["ok"] != expected[ti] + SENT:
                    dyn_bad.append((ti, ci, rel, "auto-escape state not restored after a construct", "got %r expected %r" % (rr["ok"], expected[ti] + SENT)))
                elif (ti, ci) in ref and ref[(ti, ci)][:1] == [0] and "".join(chr(c) for c in ref[(ti, ci)][2:]) != rr["ok"]:
                    dyn_bad.append((ti, ci, rel, "output differs from the reference semantics (scope / capture / escape state after a construct)",
                                    "got %r expected %r" % (rr["ok"][-120:], "".join(chr(c) for c in ref[(ti, ci)][2:])[-120:])))
                    hist["ref_mismatch"] += 1
                elif (ti, ci) in ref:
                    hist["ref_agree"] += 1
            elif "err" in rr:
                hist["render_err_%s" % ERR_NAMES.get(rr["err"], rr["err"])] += 1
            else:
                dyn_bad.append((ti, ci, rel, "crash", json.dumps(r)[:200]))
    # ---- evidence ----
    nontriv = set()
    for ti, sn, ins in streams:
        ops = {i["op"] for i in ins}
        if ops & {"PushWith", "BeginCapture", "PushAutoEscape", "PushLoop"}:
            nontriv.add(json.dumps(ins, sort_keys=True))
    chk.cov["programs"] = len(streams)
    chk.cov["evaluations"] = len(streams) + 2 * len(dyn_reqs)
    chk.cov["distinct_nontrivial"] = len(nontriv)
    chk.cov["rule"] = ("templates: every nesting of the 9 scoped constructs up to depth %s with break/continue (guarded and bare) at the innermost point, "
                       "seeded typed random templates, and the repository's test fixtures; each compiled by the CURRENT compiler, every stream (template body, macro bodies, blocks) "
                       "checked on all paths by the extracted verified checker, and rendered under 3 contexts x {debug, release} with a sentinel after the constructs. "
                       "non-trivial = distinct instruction stream containing at least one frame/capture/auto-escape/loop push" % ("3" if chk.thorough else "2 (+400 sampled depth-3)"))
    chk.cov["samples"] = [templates[i][1] for i in (0, len(templates) // 2, max(0, len(templates) - 200))]
    chk.cov["distribution"] = dict(hist)
    chk.cov["streams_rejected"] = len(rejected)
    chk.cov["dynamic_failures"] = len(dyn_bad)
    # ---- verdicts ----
    seen = set()
    for ti, ci, rel, what, detail in dyn_bad[:5]:
        if ti in seen:
            continue
        seen.add(ti)
        chk.violation(what, {"template": templates[ti][1], "context": ctxs[ci], "profile": "release" if rel else "debug", "observed": detail})
    for k, v in rejected[:5]:
        ti, sn, instrs = streams[k]
        if ti in seen:
            continue
        seen.add(ti)
        pcb = v[2] if len(v) > 2 else None
        info = {"template": templates[ti][1], "stream": sn, "rejected_at_pc": pcb,
                "instruction": instrs[pcb] if pcb is not None and pcb < len(instrs) else None,
                "note": "the template is the failing input: some path through its compiled code discards a frame/capture/auto-escape/operand it did not create or ends unbalanced"}
        if len(v) > 5 and v[1] > 0:
            info["analysis"] = "activation of the recursive loop at pc %d entered by the call before pc %d (%s)" % (v[3], v[4], "capturing" if v[5] else "not capturing")
        chk.violation("a control-flow path of the compiled code is not balanced (verified checker rejects the stream)", info)
    if not chk.violations and not proofs_ok:
        chk.violation("proof obligations of C05 do not check", {"theorem_or_correspondence": chk.proof["problems"]}, True)
    chk.finish()


if __name__ == "__main__":
    main()
