#!/usr/bin/env python3
"""C05 - scoped constructs restore scope, capture and escape state on every path (DESIGN.md §3 C05).

Deciding method:
 (1) static: the Coq-verified checker `check_rec` (theorems check_ann_sound / check_rec_sound: acceptance implies
     that the real, interprocedural shape machine - recursion calls into recursive loops to any depth included - is
     never stuck and ends balanced) is extracted and run on the REAL instruction streams the current compiler emits
     for generated templates and for the repository's fixtures; what the VM pops when a recursion call returns is
     read from vm/mod.rs of the tree under test (tools/absinstr.py::vm_return_rule);
 (2) trace: every render runs under the shape observer (hook __verif::set_shape_observer); the observed run of each
     activation of eval_impl is replayed step by step through the extracted abstract machine (runner c05-trace):
     next pc must be an abstract successor, observed depths must be the abstract shape's;
 (3) oracles on the rendered output: sentinel after the constructs, escape-state family, the recursive-loop family
     with its expected output computed by the extracted Gallina oracle C05/RecLoop.v, and the reference interpreter
     (Lang/Interp) for generated programs without recursion calls."""
import os, sys, collections, itertools, glob
from concurrent.futures import ThreadPoolExecutor
sys.path.insert(0, os.path.dirname(os.path.dirname(os.path.abspath(__file__))))
from vlib import *
import proggen, absinstr, langenc

SENT = "«END»"
NPROC = 12

def nestings(depth):
    """all nestings (outer -> inner) of the scoped constructs, with a break/continue at the innermost point"""
    K = ["for", "forfilter", "forelse", "with", "setblock", "filterblock", "autoescape", "if", "forrec"]
    def wrap(kind, inner, lvl):
        v = "x%d" % lvl
        if kind == "for": return "{%% for %s in l %%}%s{%% endfor %%}" % (v, inner)
        if kind == "forfilter": return "{%% for %s in l if %s != 9 %%}%s{%% endfor %%}" % (v, v, inner)
        if kind == "forelse": return "{%% for %s in l %%}%s{%% else %%}E{%% endfor %%}" % (v, inner)
        if kind == "forrec": return "{%% for %s in l recursive %%}%s{%% endfor %%}" % (v, inner)
        if kind == "with": return "{%% with %s = 1 %%}%s{%% endwith %%}" % (v, inner)
        if kind == "setblock": return "{%% set %s %%}%s{%% endset %%}[{{ %s }}]" % (v, inner, v)
        if kind == "filterblock": return "{%% filter upper %%}%s{%% endfilter %%}" % inner
        if kind == "autoescape": return "{%% autoescape 'html' %%}%s{%% endautoescape %%}" % inner
        if kind == "if": return "{%% if t %%}%s{%% endif %%}" % inner
    for n in range(1, depth + 1):
        for combo in itertools.product(K, repeat=n):
            if not any(k.startswith("for") for k in combo):
                continue
            for ctl in ("break", "continue"):
                for guarded in (True, False):
                    core = "a{{ x0 }}" + ("{%% if c %%}{%% %s %%}{%% endif %%}" % ctl if guarded else "{%% %s %%}" % ctl) + "b"
                    src = core
                    for lvl, kind in enumerate(reversed(combo)):
                        src = wrap(kind, src, lvl) + "."
                    yield "{% set x0 = 7 %}" + src + SENT


def else_controls():
    """loop controls in the else block of a loop, with and without an enclosing loop, under scoped constructs"""
    for ctl in ("break", "continue"):
        for guard in ("", "c"):
            inner = ("{%% if c %%}{%% %s %%}{%% endif %%}" % ctl) if guard else "{%% %s %%}" % ctl
            core = "{% for a in k %}x{% else %}e" + inner + "f{% endfor %}"
            yield core + SENT
            yield "{% for o in l %}<" + core + ">{% endfor %}" + SENT
            yield "{% for o in l %}{% with w = o %}<" + core + ">{% endwith %}{% endfor %}" + SENT
            yield "{% for o in l %}{% set z %}<" + core + ">{% endset %}{{ z }}{% endfor %}" + SENT


def escape_state_family():
    """nested autoescape blocks (also around the other scoped constructs and loop controls): after every
    block the escape mode must be the one before it.  Returns (source, expected output) for a template
    whose initial mode is none (name without html extension); v = '<'."""
    modes = [("true", True), ("false", False), ("'html'", True), ("'none'", False)]
    def show(esc):
        return "&lt;" if esc else "<"
    out = []
    for a, ea in modes:
        for b, eb in modes:
            out.append(("{%% autoescape %s %%}{%% autoescape %s %%}{{ v }}{%% endautoescape %%}{{ v }}{%% endautoescape %%}{{ v }}" % (a, b),
                        show(eb) + show(ea) + show(False)))
            for c, ec in modes:
                out.append(("{%% autoescape %s %%}{%% autoescape %s %%}{%% autoescape %s %%}{{ v }}{%% endautoescape %%}{{ v }}{%% endautoescape %%}{{ v }}{%% endautoescape %%}{{ v }}" % (a, b, c),
                            show(ec) + show(eb) + show(ea) + show(False)))
            # per context (l = [1,2,3] / c true: every iteration continues; c false: none does; l = []): the mode after the loop is the outer block's
            out.append(("{%% autoescape %s %%}{%% for i in l %%}{%% autoescape %s %%}{%% if c %%}{%% continue %%}{%% endif %%}{{ v }}{%% endautoescape %%}{{ v }}{%% endfor %%}{{ v }}{%% endautoescape %%}{{ v }}" % (a, b),
                        [show(ea) + show(False), (show(eb) + show(ea)) * 3 + show(ea) + show(False), show(ea) + show(False)]))
            out.append(("{%% autoescape %s %%}{%% for i in l %%}{%% autoescape %s %%}{%% if i == 2 %%}{%% continue %%}{%% endif %%}{{ v }}{%% endautoescape %%}{{ v }}{%% endfor %%}{{ v }}{%% endautoescape %%}{{ v }}" % (a, b),
                        [(show(eb) + show(ea)) * 2 + show(ea) + show(False)] * 2 + [show(ea) + show(False)]))
            out.append(("{%% autoescape %s %%}{%% for i in l %%}{%% autoescape %s %%}{%% if i == 2 %%}{%% break %%}{%% endif %%}{{ v }}{%% endautoescape %%}{{ v }}{%% endfor %%}{{ v }}{%% endautoescape %%}{{ v }}" % (a, b),
                        [show(eb) + show(ea) + show(ea) + show(False)] * 2 + [show(ea) + show(False)]))
            out.append(("{%% autoescape %s %%}{%% with q = 1 %%}{%% autoescape %s %%}{{ v }}{%% endautoescape %%}{%% endwith %%}{{ v }}{%% set z %%}{%% autoescape %s %%}{{ v }}{%% endautoescape %%}{{ v }}{%% endset %%}{{ z }}{%% endautoescape %%}{{ v }}" % (a, b, b),
                        show(eb) + show(ea) + show(eb) + show(ea) + show(False)))
    return out


# ---------------------------------------------------------------------------------------------
# the recursive-loop family (oracle: coq/theories/C05/RecLoop.v, runner c05-rec)
# ---------------------------------------------------------------------------------------------
POS = ["emit", "set", "filterarg", "filterin", "catl", "catr", "listitem", "test", "macroarg", "ifcond", "via"]
BK = ["with", "setblock", "filterblock", "autoescape"]
REC_PRELUDE = ("{% macro mm() %}m{% endmacro %}{% macro idm(x) %}{{ x }}{% endmacro %}"
               "{% macro callit(l, c) %}({{ l(c) }}){% endmacro %}{% set ns = namespace() %}"
               "{% from 'reclib' import xcall %}")
REC_AUX = {"reclib": "lib text that must stay silent{% macro helper() %}h{% endmacro %}{% macro xcall(l, c) %}({{ l(c) }}){% endmacro %}",
           "recinc": "{{ loop(n.children) }}"}


def rec_item_src(it, callee):
    """source text of one body item; callee = name under which the recursive loop object is reachable here"""
    k = it[0]
    call = "%s(n.children)" % callee
    if k == "txt": return chr(it[1])
    if k == "name": return "{{ n.name }}"
    if k == "lt": return "{{ lt }}"
    if k == "call":
        p = it[1]
        if p == "emit": return "{{ %s }}" % call
        if p == "set": return "{%% set s = %s %%}({{ s }})" % call
        if p == "filterarg": return "{{ 'x'|replace('x', %s) }}" % call
        if p == "filterin": return "{{ %s|replace('#', '#') }}" % call
        if p == "catl": return "{{ %s ~ n.name }}" % call
        if p == "catr": return "{{ n.name ~ %s }}" % call
        if p == "listitem": return "{{ [n.name, %s]|join('/') }}" % call
        if p == "test": return "{%% if %s is string %%}T{%% else %%}F{%% endif %%}" % call
        if p == "macroarg": return "{{ idm(%s) }}" % call
        if p == "ifcond": return "{%% if %s %%}Y{%% else %%}N{%% endif %%}" % call
        if p == "via": return "{%% if n.via %%}{{ callit(%s, n.children) }}{%% else %%}{{ %s }}{%% endif %%}" % (callee, call)
    if k == "quiet":
        return {"do": "{% do range(1) %}", "fromimport": "{% from 'reclib' import helper %}", "set": "{% set unused = 1 %}",
                "setns": "{% set ns.l = loop %}", "setlp": "{% set lp = loop %}"}[it[1]]
    if k == "macrocall": return "{{ mm() }}"
    if k == "block":
        inner = "".join(rec_item_src(x, callee) for x in it[2])
        if it[1] == "with": return "{% with w = 1 %}" + inner + "{% endwith %}"
        if it[1] == "setblock": return "{% set z %}" + inner + "{% endset %}{{ z }}"
        if it[1] == "filterblock": return "{% filter replace('#', '#') %}" + inner + "{% endfilter %}"
        if it[1] == "autoescape": return "{% autoescape true %}" + inner + "{% endautoescape %}"
    if k == "forn":
        _, n, ctl, b1, b2 = it
        s = "{%% for q in range(%d) %%}" % n + "".join(rec_item_src(x, "lp") for x in b1)
        if ctl is not None:
            s += "{%% if q == %d %%}{%% %s %%}{%% endif %%}" % (ctl[1], "break" if ctl[0] else "continue")
        return s + "".join(rec_item_src(x, "lp") for x in b2) + "{% endfor %}"
    if k == "innerrec":
        return "{% for m in n.children recursive %}[{{ m.name }}{{ loop(m.children) }}]" + ("{% else %}0" if it[1] else "") + "{% endfor %}"
    if k == "fail":
        how = it[2]
        if how.startswith("block_"):
            # a loop() call from a block nested in the loop body: a block is compiled into its OWN instruction stream (same
            # template name), the loop's pc means nothing there - the engine must refuse the call
            c = BLOCK_CALLS[how.split("_", 2)[1]] % ("lp" if how.split("_", 2)[1] == "lp" else callee)
            where = how.split("_", 2)[2]
            blk = "{% block ch %}" + c + "{% endblock %}"
            return {"plain": blk, "with": "{% with w = 1 %}" + blk + "{% endwith %}", "for": "{% for q in [1] %}{% block ch %}" + (BLOCK_CALLS[how.split("_", 2)[1]] % "lp") + "{% endblock %}{% endfor %}",
                    "nested": "{% block outer_b %}<" + blk + ">{% endblock %}", "self": "{{ self.ch() }}", "child": "{% block ch %}{% endblock %}"}[where]
        return {"macro_other": "{{ xcall(%s, n.children) }}" % callee, "include": "{% include 'recinc' %}"}[how]
    raise ValueError(it)


def rec_item_enc(it):
    k = it[0]
    if k == "txt": return [0, it[1]]
    if k == "name": return [1]
    if k == "lt": return [2]
    if k == "call": return [3, POS.index(it[1])]
    if k == "quiet": return [4]
    if k == "macrocall": return [5]
    if k == "block":
        return [6, BK.index(it[1]), len(it[2])] + [x for y in it[2] for x in rec_item_enc(y)]
    if k == "forn":
        _, n, ctl, b1, b2 = it
        return ([7, n, 0 if ctl is None else 1, 1 if (ctl and ctl[0]) else 0, ctl[1] if ctl else 0, len(b1)] + [x for y in b1 for x in rec_item_enc(y)]
                + [len(b2)] + [x for y in b2 for x in rec_item_enc(y)])
    if k == "innerrec": return [8, 1 if it[1] else 0]
    if k == "fail": return [9, it[1]]
    raise ValueError(it)


def rec_tree_enc(ts):
    out = []
    for t in ts:
        out += [ord(t["name"]), 1 if t["via"] else 0, len(t["children"])] + rec_tree_enc(t["children"])
    return out


BLOCK_CALLS = {"emit": "{{ %s(n.children) }}", "filter": "{{ %s(n.children)|upper }}", "set": "{%% set s = %s(n.children) %%}({{ s }})",
               "cat": "{{ n.name ~ %s(n.children) }}", "lp": "{{ %s(n.children) ~ 'x' }}"}


def rec_templates(body, has_else, after):
    """-> (source of main, additional templates): members whose call sits in a block declared elsewhere (self.ch()) or overridden by a child"""
    src = rec_template(body, has_else, after)
    hows = [it[2] for it in body if it[0] == "fail" and it[2].startswith("block_")]
    for how in hows:
        call = BLOCK_CALLS[how.split("_", 2)[1]] % "loop"
        if how.endswith("_self"):
            src += "{% if false %}{% block ch %}" + call + "{% endblock %}{% endif %}"
        elif how.endswith("_child"):
            return "{% extends 'rec_lay' %}{% block ch %}" + call + "{% endblock %}", {"rec_lay": src}
    return src, {}


def rec_template(body, has_else, after):
    """-> source of the family member: prelude, the loop, the optional call after the loop, the sentinel"""
    src = REC_PRELUDE + "{% for n in tree recursive %}{% set lp = loop %}" + "".join(rec_item_src(x, "loop") for x in body)
    src += ("{% else %}-" if has_else else "") + "{% endfor %}"
    if after:
        src += "{% set l2 = ns.l %}{{ '(' ~ l2(tree2) ~ ')' }}"
    return src + "|{{ lt }}after"


def rec_case(body, has_else, tree, tree2):
    return [1 if has_else else 0, len(body)] + [x for y in body for x in rec_item_enc(y)] + [len(tree)] + rec_tree_enc(tree) + \
           [0 if tree2 is None else 1, len(tree2 or [])] + rec_tree_enc(tree2 or [])


def rec_trees():
    """trees of depth 0..4 including empty child lists; `via` only on top-level nodes"""
    def N(name, *ch, via=False):
        return {"name": name, "via": via, "children": list(ch)}
    return [
        [],
        [N("a", via=True)],
        [N("a", N("b"), via=True)],
        [N("a", N("b"), N("c", N("d")), via=True), N("e")],
        [N("a", N("b", N("c", N("d", N("e")))), N("f")), N("g", N("h"), via=True)],
        [N("a"), N("b", N("c"), N("d", N("e", N("f"), N("g")), N("h")), via=True), N("i", N("j", N("k", N("l", N("m")))))],
    ]


def rec_family(rng, nrandom):
    """-> list of (label, body, has_else, after?) ; systematic part: every call position x else x wrapper"""
    out = []
    def wrappers(call, p):
        ws = [("plain", [call]), ("with", [("block", "with", [("txt", 119), call])]), ("setblock", [("block", "setblock", [call, ("txt", 122)])]),
              ("forn", [("forn", 2, None, [("txt", 113)], [call])]),
              ("fornbreak", [("forn", 3, (True, 1), [call], [("txt", 98)])]),
              ("forncontinue", [("forn", 3, (False, 0), [("txt", 99)], [call])]),
              ("nested2", [("block", "with", [("block", "setblock", [("forn", 2, (False, 1), [call], [("name",)])])])])]
        if p not in ("via",):
            ws.append(("filterblock", [("block", "filterblock", [call, ("txt", 102)])]))
        if p in ("emit", "set"):
            ws.append(("autoescape", [("block", "autoescape", [("lt",), call, ("lt",)]), ("lt",)]))
        return ws
    extras_sets = [[], [("quiet", "do")], [("quiet", "fromimport")], [("quiet", "do"), ("quiet", "fromimport"), ("innerrec", True)]]
    for p in POS:
        for has_else in (False, True):
            for wn, w in wrappers(("call", p), p):
                ex = extras_sets[(len(out)) % len(extras_sets)]
                esc_family = wn == "autoescape"
                pre = [("txt", 91), ("name",)] if p not in ("catl", "catr", "listitem") else [("txt", 91)]
                body = pre + list(ex) + w + ([("macrocall",)] if p not in ("via",) and not esc_family and len(out) % 3 == 0 else []) + [("txt", 93)]
                out.append(("sys:%s:%s:%s" % (p, "else" if has_else else "noelse", wn), body, has_else, False))
    # the call after the loop through a loop object stored in a namespace; the error families
    for has_else in (False, True):
        for p in ("emit", "catr", "set", "listitem"):
            out.append(("after:%s:%s" % (p, has_else), [("quiet", "setns"), ("txt", 91), ("name",), ("call", p), ("txt", 93)], has_else, True))
        out.append(("err:macro_other:%s" % has_else, [("txt", 91), ("name",), ("fail", 3, "macro_other"), ("txt", 93)], has_else, False))
        out.append(("err:include:%s" % has_else, [("txt", 91), ("name",), ("fail", 16, "include"), ("txt", 93)], has_else, False))
        for cs in BLOCK_CALLS:
            for where in ("plain", "with", "for", "nested", "self", "child"):
                if has_else and (len(out) % 2):
                    continue
                out.append(("err:block_%s_%s:%s" % (cs, where, has_else), [("txt", 91), ("name",), ("fail", 3, "block_%s_%s" % (cs, where)), ("txt", 93)], has_else, False))
    # random bodies
    def rnd_items(depth, esc, via_family, in_forn, budget):
        items = []
        n = 1 + rng.below(4)
        for _ in range(n):
            r = rng.below(14)
            if r <= 1: items.append(("txt", 97 + rng.below(26)))
            elif r == 2: items.append(("name",))
            elif r == 3: items.append(("lt",))
            elif r <= 6 and budget[0] > 0:
                budget[0] -= 1
                if esc: p = ("emit", "set")[rng.below(2)]
                elif via_family: p = ("via", "emit", "set", "catr", "catl", "listitem", "filterarg", "filterin", "ifcond", "test")[rng.below(10)]
                else: p = POS[rng.below(10)]
                items.append(("call", p))
            elif r == 7: items.append(("quiet", ("do", "fromimport", "set")[rng.below(3)]))
            elif r == 8 and not via_family: items.append(("macrocall",))
            elif r <= 10 and depth > 0:
                ks = ["with", "setblock"] + ([] if esc else ["filterblock"]) + (["autoescape"] if esc else [])
                bk = ks[rng.below(len(ks))]
                items.append(("block", bk, rnd_items(depth - 1, esc, via_family, in_forn, budget)))
            elif r == 11 and depth > 0 and not in_forn:
                k = 1 + rng.below(3)
                ctl = None if rng.below(3) == 0 else (rng.below(2) == 0, rng.below(k))
                items.append(("forn", k, ctl, rnd_items(depth - 1, esc, via_family, True, budget), rnd_items(depth - 1, esc, via_family, True, budget)))
            elif r == 12: items.append(("innerrec", rng.below(2) == 0))
            else: items.append(("txt", 46))
        return items
    for j in range(nrandom):
        fam = rng.below(4)      # 0,1: general; 2: escape family (calls inside autoescape); 3: via-macro family
        budget = [2]            # at most two calls per body execution: the output grows like calls^depth
        if fam == 2:
            inner = rnd_items(2, True, False, False, budget)
            body = [("txt", 91), ("lt",), ("block", "autoescape", inner), ("lt",), ("txt", 93)]
        else:
            body = [("txt", 91)] + rnd_items(2, False, fam == 3, False, budget) + [("txt", 93)]
        if budget[0] == 2:
            body.insert(1, ("call", "emit"))
        out.append(("rnd%d:%d" % (fam, j), body, rng.below(2) == 0, False))
    return out


# ---------------------------------------------------------------------------------------------
# multi-template families (PYTHON TEST ORACLES: the expected output is composed from the known
# output of each piece; they are not extracted from Coq)
# ---------------------------------------------------------------------------------------------
MT_AUX = {
    "assigns": "{% set sv = 'X' %}{% set other = 'O' %}",
    "mt_lay": "[{% block body %}{% endblock %}]|END",
    "mt_ibase": "IB({% block x %}{% endblock %})",
    "mt_inc_ext": "{% extends 'mt_ibase' %}dropped{% block x %}ix{% endblock %}",
    "mt_mbase": "mbase-text{% block x %}{% endblock %}",
    "mt_macros_ext": "{% extends 'mt_mbase' %}silenced{% macro m() %}<M>{% endmacro %}",
    "mt_inc2": "x{% from 'mt_macros_ext' import m %}{{ m() }}y",
    "mt_inc3": "u{% include 'mt_inc_ext' %}v",
}
SV_PROBE = "{{ 'P' if sv == 'P' else 'CHANGED' }}"


def scope_ways():
    """ways of assigning the sentinel variable sv inside a construct: (label, source, leaks into the enclosing frame?)"""
    return [("set", "{% set sv = 'X' %}", True),
            ("setblock", "{% set sv %}X{% endset %}", True),
            ("with", "{% with sv = 'X' %}w{% endwith %}", False),
            ("fortarget", "{% for sv in ['X'] %}f{% endfor %}", False),
            ("include", "{% include 'assigns' %}", True),
            ("import", "{% import 'assigns' as sv %}", True),
            ("fromimport", "{% from 'assigns' import sv %}", True),
            ("fromimportas", "{% from 'assigns' import other as sv %}", True),
            ("macrodef", "{% macro sv() %}M{% endmacro %}", True)]


def scope_constructs():
    """(label, wrap(body) -> source, restores the variables?, text the construct itself writes around the body's)"""
    return [("for", lambda b: "{% for i in [1] %}" + b + "{% endfor %}", True),
            ("forelse", lambda b: "{% for i in [] %}n{% else %}" + b + "{% endfor %}", False),   # the else block runs in the enclosing frame
            ("with", lambda b: "{% with w = 1 %}" + b + "{% endwith %}", True),
            ("block", lambda b: "{% block bk%d %}" + b + "{% endblock %}", True),
            ("macro", lambda b: "{% macro mc%d() %}" + b + "{% endmacro %}{{ mc%d() }}", True),
            ("callblock", lambda b: "{% call wrapit() %}" + b + "{% endcall %}", True),
            ("if", lambda b: "{% if true %}" + b + "{% endif %}", False),
            ("setblock", lambda b: "{% set zz %}" + b + "{% endset %}{{ zz }}", False),
            ("filterblock", lambda b: "{% filter replace('#', '#') %}" + b + "{% endfilter %}", False),
            ("autoescape", lambda b: "{% autoescape true %}" + b + "{% endautoescape %}", False)]


def scope_family():
    """-> (label, templates, expected output).  After every construct the sentinel variable is shown."""
    out = []
    cons = scope_constructs()
    uid = [0]
    def inst(w, body):
        uid[0] += 1
        s = w(body)
        return s.replace("%d", str(uid[0])) if "%d" in s else s
    prelude = "{% macro wrapit() %}<{{ caller() }}>{% endmacro %}{% set sv = 'P' %}"
    def wtxt(label):          # text the construct writes itself
        return {"callblock": ("<", ">")}.get(label, ("", ""))
    for wl, wsrc, leaks in scope_ways():
        wout = {"with": "w", "fortarget": "f"}.get(wl, "")
        for cl, cw, restores in cons:
            # one level: construct around the assignment
            src = prelude + inst(cw, wsrc + "(" + SV_PROBE + ")") + "|" + SV_PROBE + "|END"
            inside = "CHANGED" if leaks else "P"
            after = "P" if restores else inside
            exp = wtxt(cl)[0] + wout + "(" + inside + ")" + wtxt(cl)[1] + "|" + after + "|END"
            out.append(("scope:%s:%s" % (cl, wl), {"main": src}, exp))
            # two levels: a second construct between, the variable shown after the inner and after the outer one
            for cl2, cw2, restores2 in cons:
                if cl2 == "block" and cl in ("macro", "callblock"):
                    continue        # blocks cannot be declared inside macros
                src = prelude + inst(cw, inst(cw2, wsrc + "(" + SV_PROBE + ")") + "~" + SV_PROBE + "~") + "|" + SV_PROBE + "|END"
                after2 = "P" if restores2 else inside
                after1 = "P" if restores else after2
                exp = (wtxt(cl)[0] + wtxt(cl2)[0] + wout + "(" + inside + ")" + wtxt(cl2)[1] + "~" + after2 + "~" + wtxt(cl)[1] + "|" + after1 + "|END")
                out.append(("scope2:%s:%s:%s" % (cl, cl2, wl), {"main": src}, exp))
        # blocks reached through inheritance: the child's block runs from the layout and must not change the layout's variables
        lay = "{% set sv = 'P' %}<{% block bk %}{% endblock %}>|" + SV_PROBE + "|END"
        child = "{% extends 'scope_lay' %}{% block bk %}" + wsrc + "(" + SV_PROBE + "){% endblock %}"
        inside = "CHANGED" if leaks else "P"
        out.append(("scope:childblock:%s" % wl, {"main": child, "scope_lay": lay}, "<" + wout + "(" + inside + ")>|P|END"))
        lay2 = "{% set sv = 'P' %}<{% block bk %}" + wsrc + "(" + SV_PROBE + "){% endblock %}>|" + SV_PROBE + "|END"
        child2 = "{% extends 'scope_lay' %}{% block bk %}[{{ super() }}](" + SV_PROBE + "){% endblock %}"
        out.append(("scope:superblock:%s" % wl, {"main": child2, "scope_lay": lay2}, "<[" + wout + "(" + inside + ")](P)>|P|END"))
    return out


def extends_family():
    """imports / includes of EXTENDING templates from every kind of output context -> (label, templates, expected)"""
    RE = "IB(ix)"
    actions = [("include_ext", "{% include 'mt_inc_ext' %}", RE),
               ("import_ext", "{% import 'mt_macros_ext' as mx %}{{ mx.m() }}", "<M>"),
               ("from_ext", "{% from 'mt_macros_ext' import m %}{{ m() }}", "<M>"),
               ("include_from_ext", "{% include 'mt_inc2' %}", "x<M>y"),
               ("include_include_ext", "{% include 'mt_inc3' %}", "u" + RE + "v")]
    out = []
    for al, asrc, aout in actions:
        body = "a" + asrc + "b"
        bout = "a" + aout + "b"
        ctxs = [("top", body + "|END", bout + "|END"),
                ("setblock", "{% set cap %}" + body + "{% endset %}<{{ cap }}>|END", "<" + bout + ">|END"),
                ("filterblock", "{% filter upper %}" + body + "{% endfilter %}|END", bout.upper() + "|END"),
                ("block", "{% block k %}" + body + "{% endblock %}|END", bout + "|END"),
                ("for", "{% for i in [1, 2] %}" + body + "{% endfor %}|END", bout + bout + "|END"),
                ("macro", "{% macro mm() %}" + body + "{% endmacro %}{{ mm() }}|END", bout + "|END"),
                ("with", "{% with w = 1 %}" + body + "{% endwith %}|END", bout + "|END"),
                ("autoescape", "{% autoescape true %}" + body + "{% endautoescape %}|END", bout + "|END"),
                ("child_top", "{% extends 'mt_lay' %}" + body + "{% block body %}B{% endblock %}", "[B]|END"),
                ("child_top_setblock", "{% extends 'mt_lay' %}{% set cap %}" + body + "{% endset %}{% block body %}{{ cap }}{% endblock %}", "[" + bout + "]|END"),
                ("child_block", "{% extends 'mt_lay' %}{% block body %}" + body + "{% endblock %}", "[" + bout + "]|END"),
                ("child_block_setblock", "{% extends 'mt_lay' %}{% block body %}{% set cap %}" + body + "{% endset %}<{{ cap }}>{% endblock %}", "[<" + bout + ">]|END"),
                ("from_imported", "p{% from 'mt_host_" + al + "' import hm %}q{{ hm() }}|END", "pqh|END")]
        for cl, src, exp in ctxs:
            t = {"main": src}
            if cl == "from_imported":
                t["mt_host_" + al] = body + "{% macro hm() %}h{% endmacro %}"
            out.append(("ext:%s:%s" % (cl, al), t, exp))
    # the imported name used in a block of an extending child (the import happens while the output is silenced)
    out.append(("ext:child_import_used_in_block", {"main": "{% extends 'mt_lay' %}{% from 'mt_macros_ext' import m %}SILENCED{% block body %}{{ m() }}{% endblock %}"}, "[<M>]|END"))
    out.append(("ext:child_import_as_used_in_block", {"main": "{% extends 'mt_lay' %}{% import 'mt_macros_ext' as mx %}SILENCED{% block body %}{{ mx.m() }}{% endblock %}"}, "[<M>]|END"))
    return out



def self_family():
    """blocks that render themselves again through self.name() (direct and mutual), the recursive call wrapped in every
    scoped construct, bounded by a chain in the context; after every level the level's own variables are shown
    -> (label, templates, context, expected)   [PYTHON TEST ORACLE]"""
    def chain(d):
        n = None
        for i in range(d, -1, -1):
            n = {"v": "abcdef"[i], "child": n}
        return n
    calls = [("emit", "{{ self.%s() }}"), ("concat", "{{ self.%s() ~ '' }}"), ("set", "{%% set q = self.%s() %%}{{ q }}")]
    def wrappers(selfcall):
        rb = "{% with node = node.child %}(" + selfcall + "){% endwith %}"
        return [("with", rb),
                ("for", "{% for node in [node.child] %}(" + selfcall + "){% endfor %}"),
                ("forelse", "{% for x in [] %}{% else %}" + rb + "{% endfor %}"),
                ("setblock", "{% set z %}" + rb + "{% endset %}{{ z }}"),
                ("filter", "{% filter replace('#', '#') %}" + rb + "{% endfilter %}"),
                ("autoescape", "{% autoescape true %}" + rb + "{% endautoescape %}"),
                ("macro", "{% macro mc(n) %}{% with node = n %}(" + selfcall + "){% endwith %}{% endmacro %}{{ mc(node.child) }}"),
                ("callblock", "{% macro wr() %}{{ caller() }}{% endmacro %}{% call wr() %}" + rb + "{% endcall %}"),
                ("if_with_for", "{% for i in [1] %}{% if true %}" + rb + "{% endif %}{% endfor %}")]
    def body(tag, wsrc):
        return (tag + "{{ node.v }}{% set mark = node.v %}{% if node.child %}" + wsrc + "{% endif %}~{{ node.v }}{{ mark }}")
    def expect(tags, n, k=0):
        t = tags[k % len(tags)]
        inner = "(" + expect(tags, n["child"], k + 1) + ")" if n["child"] else ""
        return t + n["v"] + inner + "~" + n["v"] + n["v"]
    out = []
    tail = "|{{ node.v }}{{ mark is defined }}|END"
    for cl, cs in calls:
        for wl, wsrc in wrappers(cs % "tree"):
            for d in (0, 1, 3):
                n = chain(d)
                src = "{% block tree %}" + body("", wsrc) + "{% endblock %}" + tail
                out.append(("self:direct:%s:%s:%d" % (cl, wl, d), {"main": src}, {"node": n}, expect([""], n) + "|aFalse|END"))
        for wl, wsrc in wrappers(cs % "tree")[:4]:
            n = chain(2)
            child = "{% extends 'self_lay' %}{% block tree %}" + body("", wsrc) + "{% endblock %}"
            out.append(("self:child:%s:%s" % (cl, wl), {"main": child, "self_lay": "<{% block tree %}{% endblock %}>" + tail}, {"node": n},
                        "<" + expect([""], n) + ">|aFalse|END"))
        # mutual recursion: a -> self.b() -> self.a()
        wa, wb = wrappers(cs % "b"), wrappers(cs % "a")
        for k in range(len(wa)):
            for d in (1, 2, 3):
                n = chain(d)
                src = ("{% block a %}" + body("A", wa[k][1]) + "{% endblock %}{% if false %}{% block b %}" + body("B", wb[(k + 1) % len(wb)][1])
                       + "{% endblock %}{% endif %}" + tail)
                out.append(("self:mutual:%s:%s:%d" % (cl, wa[k][0], d), {"main": src}, {"node": n}, expect(["A", "B"], n) + "|aFalse|END"))
    return out



# ---------------------------------------------------------------------------------------------
# closure-sentinel family: what MACROS see of the variables around them, before / inside / after
# every scoped construct.  Oracle: the extracted reference interpreter (Lang/Interp, runner c03 of
# C03) on the program WITHOUT the no-op statements (include / import of templates that write and
# define nothing the program uses) - inserting those must not change what is rendered.
# ---------------------------------------------------------------------------------------------
CLOS_AUX = {"cl_empty": "", "cl_quiet": "{% set unrelated_q = 1 %}{% macro unrelated_m() %}u{% endmacro %}",
            "cl_lib": "silent{% macro helper() %}h{% endmacro %}"}
CLOS_NOOPS = ["{% include 'cl_empty' %}", "{% include 'cl_quiet' %}", "{% import 'cl_lib' as unused_i %}", "{% from 'cl_lib' import helper as unused_h %}",
              "{% include ['cl_missing', 'cl_empty'] %}", "{% include 'cl_missing' ignore missing %}"]


def _S(s): return ("str", s)
def _call(name): return ("emit", ("call", name, [], []))
def _show(name, var): return ("macro", name, [], [], [("raw", "["), ("emit", ("var", var)), ("raw", "]")])


def clos_constructs():
    """label -> f(body, uid) = (oracle statements, source statements or None when equal)"""
    def simple(mk):
        return lambda body, u: (mk(body[0], u), mk(body[1], u))
    C = {
        "with": simple(lambda b, u: [("with", [("w%d" % u, ("int", 1))], b)]),
        "for": simple(lambda b, u: [("for", "i%d" % u, ("list", [("int", 1)]), None, b, None, False)]),
        "forelse": simple(lambda b, u: [("for", "i%d" % u, ("list", []), None, [("raw", "n")], b, False)]),
        "if": simple(lambda b, u: [("if", [(("bool", True), b)], None)]),
        "setblock": simple(lambda b, u: [("setblock", "z%d" % u, b, None), ("emit", ("var", "z%d" % u))]),
        "filterblock": simple(lambda b, u: [("filterblock", "trim", b)]),
        "autoescape": simple(lambda b, u: [("autoescape", ("bool", True), b)]),
        "macro": simple(lambda b, u: [("macro", "k%d" % u, [], [], b), _call("k%d" % u)]),
        "callblock": simple(lambda b, u: [("macro", "wr%d" % u, [], [], [("raw", "<"), _call("caller"), ("raw", ">")]), ("callblock", "wr%d" % u, [], b)]),
        # a block behaves like a with block without bindings; only the source differs
        "block": lambda body, u: ([("with", [("w%d" % u, ("int", 1))], body[0])],
                                  [("raw", "{%% block bk%d %%}" % u)] + body[1] + [("raw", "{% endblock %}")]),
    }
    return C


def closure_family(rng):
    """-> (label, oracle AST, source AST)"""
    C = clos_constructs()
    out = []
    uid = [0]
    def noop(k):
        return ("raw", CLOS_NOOPS[k % len(CLOS_NOOPS)])
    def core(cl, inner_kind, nk):
        """set v; macro show reads v; construct cl around {noop; inner}; re-assignment; calls of show everywhere"""
        uid[0] += 1
        u = uid[0]
        o = [("set", "v", _S("old")), _show("show", "v"), _call("show")]
        s = list(o)
        if inner_kind == "call":
            io = [_call("show")]
            isrc = [noop(nk), _call("show"), noop(nk + 1)]
        elif inner_kind == "set":
            io = [("set", "v", _S("inner")), _call("show"), ("emit", ("var", "v"))]
            isrc = [noop(nk), ("set", "v", _S("inner")), noop(nk + 2), _call("show"), ("emit", ("var", "v"))]
        elif inner_kind == "setafter":       # the A5 shape: the include first, then a local assignment the macro must not see
            io = [_call("show"), ("set", "v", _S("inner")), _call("show")]
            isrc = [noop(nk), _call("show"), ("set", "v", _S("inner")), _call("show")]
        else:                                 # a macro declared inside the construct, reading v and a local y
            m2 = ("macro", "show2", [], [], [("raw", "("), ("emit", ("var", "v")), ("emit", ("var", "y")), ("raw", ")")])
            io = [("set", "y", _S("y1")), m2, _call("show2"), ("set", "y", _S("y2")), ("set", "v", _S("in2")), _call("show2"), _call("show")]
            isrc = [("set", "y", _S("y1")), m2, noop(nk), _call("show2"), ("set", "y", _S("y2")), noop(nk + 3), ("set", "v", _S("in2")), _call("show2"), _call("show")]
        co, cs = C[cl]((io, isrc), u)
        tail = [("raw", "|"), _call("show"), ("set", "v", _S("new")), _call("show"), ("emit", ("var", "v"))]
        return o + co + tail, s + cs + tail
    kinds = ["call", "set", "setafter", "macro2"]
    levels = ["top", "with", "for", "macro", "callblock", "if", "block"]
    k = 0
    for cl in C:
        for ik in kinds:
            for lv in levels:
                k += 1
                if lv == "block" and cl in ("block",) and False:
                    continue
                o, s = core(cl, ik, k)
                if lv != "top":
                    if lv in ("macro", "callblock") and cl == "block":
                        continue          # no blocks inside macros
                    uid[0] += 1
                    o, s = C[lv]((o, s), uid[0])
                out.append(("clos:%s:%s:%s" % (lv, cl, ik), o + [("raw", "|END")], s + [("raw", "|END")]))
    # for-else inside macro / call bodies: names the loop binds are, in the else branch, those of the surroundings
    uid[0] += 1
    for where in ("macro", "callblock", "macro_in_macro", "macro_in_for"):
        for bound in ("target", "bodyset", "loop", "target_unpack"):
            for itr in ("empty", "nonempty"):
                it = ("list", [] if itr == "empty" else [("list", [("int", 7), ("int", 8)])] if bound == "target_unpack" else [("int", 7)])
                if bound == "target":
                    pre = [("set", "item", _S("outer"))]
                    loop = ("for", "item", it, None, [("raw", "<"), ("emit", ("var", "item")), ("raw", ">")], [("raw", "none:"), ("emit", ("var", "item"))], False)
                elif bound == "target_unpack":
                    pre = [("set", "p", _S("outer-p")), ("set", "q", _S("outer-q"))]
                    loop = ("for", ["p", "q"], it, None, [("raw", "<"), ("emit", ("var", "p")), ("emit", ("var", "q")), ("raw", ">")],
                            [("raw", "none:"), ("emit", ("var", "p")), ("emit", ("var", "q"))], False)
                elif bound == "bodyset":
                    pre = [("set", "w", _S("outer"))]
                    loop = ("for", "i", it, None, [("set", "w", _S("body")), ("raw", "<"), ("emit", ("var", "w")), ("raw", ">")], [("raw", "none:"), ("emit", ("var", "w"))], False)
                else:
                    pre = []
                    loop = ("for", "i", it, None, [("raw", "<"), ("emit", ("attr", ("var", "loop"), "index")), ("raw", ">")],
                            [("raw", "none:"), ("emit", ("attr", ("var", "loop"), "index"))], False)
                body = [("raw", "("), loop, ("raw", ")")]
                if where == "macro":
                    prog = pre + [("macro", "m", [], [], body), _call("m")]
                elif where == "callblock":
                    prog = pre + [("macro", "wr", [], [], [("raw", "<"), _call("caller"), ("raw", ">")]), ("callblock", "wr", [], body)]
                elif where == "macro_in_macro":
                    prog = pre + [("macro", "outer_m", [], [], [("macro", "m", [], [], body), _call("m")]), _call("outer_m")]
                else:
                    prog = pre + [("for", "o", ("list", [("int", 1), ("int", 2)]), None, [("macro", "m", [], [], body), _call("m")], None, False)]
                if bound == "loop" and where != "macro_in_for":
                    # `loop` of an enclosing loop: put the whole program into one
                    prog = [("for", "o", ("list", [("int", 1), ("int", 2)]), None, prog, None, False)]
                prog = prog + [("raw", "|END")]
                out.append(("clos:forelse:%s:%s:%s" % (where, bound, itr), prog, prog))
    return out



# ---------------------------------------------------------------------------------------------
# error-recovery families [PYTHON TEST ORACLES]: a host callable calls back into the engine (macro value,
# caller, block through State::render_block), the call FAILS, the host recovers and the template goes on:
# scope, capture and escape state must be what they were before the call
# ---------------------------------------------------------------------------------------------
ERR_PRELUDE = ("{% macro good(x) %}[{{ x }}]{% endmacro %}{% macro wrapc() %}<{{ caller() }}>{% endmacro %}{% set top = 'top' %}")


def err_positions(F):
    """the failing statement F at every kind of position inside a body"""
    return [("plain", F), ("with", "{% with q = 1 %}" + F + "{% endwith %}"), ("for", "{% for i in [1, 2] %}" + F + "{% endfor %}"),
            ("setblock", "{% set zq %}" + F + "{% endset %}{{ zq }}"), ("filter", "{% filter upper %}" + F + "{% endfilter %}"),
            ("autoescape", "{% autoescape true %}" + F + "{% endautoescape %}"),
            ("innermacro", "{% macro inner() %}" + F + "{% endmacro %}{{ inner() }}"),
            ("callblock", "{% call wrapc() %}" + F + "{% endcall %}"),
            ("deep", "{% for i in [1] %}{% with q = 1 %}{% set zq %}{% filter upper %}" + F + "{% endfilter %}{% endset %}{% endwith %}{% endfor %}")]


def err_sites(site):
    """the call site wrapped in every scoped construct; v = 'kept' is the construct's own variable -> (label, source, text around)"""
    return [("with", "{% with v = 'kept' %}" + site + "{% endwith %}", ("", "")),
            ("for", "{% for v in ['kept'] %}" + site + "{% endfor %}", ("", "")),
            ("forpair", "{% for v in ['kept', 'kept'] %}" + site + "{% endfor %}", None),
            ("setblock", "{% set v = 'kept' %}{% set zs %}" + site + "{% endset %}{{ zs }}", ("", "")),
            ("filter", "{% set v = 'kept' %}{% filter replace('#', '#') %}" + site + "{% endfilter %}", ("", "")),
            ("autoescape", "{% set v = 'kept' %}{% autoescape true %}" + site + "{% endautoescape %}", ("", "")),
            ("macro", "{% macro site(v) %}" + site + "{% endmacro %}{{ site('kept') }}", ("", "")),
            ("callblock", "{% set v = 'kept' %}{% call wrapc() %}" + site + "{% endcall %}", ("<", ">")),
            ("block", "{% set v = 'kept' %}{% block b1 %}" + site + "{% endblock %}", ("", "")),
            ("plain", "{% set v = 'kept' %}" + site, ("", ""))]


def error_family():
    """-> (label, templates, context, expected)"""
    fails = [("fail", "{{ fail() }}"), ("div0", "{{ 1 // 0 }}"), ("nofilter", "{{ 1|nosuchfilter }}"), ("noinclude", "{% include 'nosuch_template' %}"),
             ("nofn", "{{ nosuchfn() }}")]
    out = []
    tail = "~{{ top }}{{ attempt(good, 'g') }}|END"
    k = 0
    for fl, F in fails:
        for pl, body in err_positions(F):
            bad = "{% macro bad(x) %}pre{{ x }}" + body + "post{% endmacro %}"
            site = "{{ attempt(bad, 'a') }}|{{ v }}|{{ top }}|{{ outer }}{{ attempt(good, 'h') }}"
            for sl, src, around in err_sites(site):
                k += 1
                if fl != "fail" and (k % 3):
                    continue            # every kind of failure at every position, a third of the sites each
                one = "failed|kept|top|ctx[h]"
                exp = (one + one) if around is None else around[0] + one + around[1]
                out.append(("err:macro:%s:%s:%s" % (fl, pl, sl), {"main": ERR_PRELUDE + bad + src + tail}, {"outer": "ctx"}, exp + "~top[g]|END"))
    # a failing caller(), recovered inside the macro it was passed to
    for pl, body in err_positions("{{ fail() }}"):
        src = ("{% macro tryc(v) %}{{ attempt(caller) }}|{{ v }}|{{ top }}{% endmacro %}{% call tryc('kept') %}x" + body + "y{% endcall %}")
        out.append(("err:caller:%s" % pl, {"main": ERR_PRELUDE + src + tail}, {"outer": "ctx"}, "failed|kept|top~top[g]|END"))
    # a block rendered through State::render_block from a callback, failing only then (it also renders in place)
    for pl, body in err_positions("{{ fail_if_armed() }}"):
        blk = "{% block risky %}a" + body + "b{% endblock %}"
        inplace = {"callblock": "a<>b", "filter": "ab"}.get(pl, "ab")
        site = "{{ attempt_block('risky') }}|{{ v }}|{{ top }}|{{ outer }}{{ attempt(good, 'h') }}"
        for sl, src, around in err_sites(site):
            if sl == "block":
                continue
            one = "failed|kept|top|ctx[h]"
            exp = (one + one) if around is None else around[0] + one + around[1]
            out.append(("err:block:%s:%s" % (pl, sl), {"main": ERR_PRELUDE + blk + src + tail}, {"outer": "ctx"}, inplace + exp + "~top[g]|END"))
        # the same body as an armed macro
        m = "{% macro risky_m() %}a" + body + "b{% endmacro %}"
        site = "{{ attempt_armed(risky_m) }}|{{ risky_m() }}|{{ v }}|{{ top }}"
        for sl, src, around in err_sites(site)[:4]:
            one = "failed|" + inplace + "|kept|top"
            exp = (one + one) if around is None else around[0] + one + around[1]
            out.append(("err:armedmacro:%s:%s" % (pl, sl), {"main": ERR_PRELUDE + m + src + tail}, {"outer": "ctx"}, exp + "~top[g]|END"))
    return out


def state_histories():
    """State-level histories: -> (label, request for harness bin c05_state, indices of the steps that must fail).
    Oracle: every healthy step answers the same before and after every failing step."""
    out = []
    for pl, body in err_positions("{{ fail_if_armed() }}"):
        src = ("{% set top = 'top' %}{% set other = 'other' %}{% macro wrapc() %}<{{ caller() }}>{% endmacro %}"
               "{% macro bad(x) %}pre{{ x }}" + err_positions("{{ fail() }}")[[p for p, _ in err_positions("")].index(pl)][1] + "post{% endmacro %}"
               "{% macro good(x) %}[{{ x }}{{ top }}]{% endmacro %}"
               "{% block risky %}a" + body + "b{% endblock %}{% block fine %}f{{ top }}{{ other }}{% endblock %}")
        healthy = [["lookup", "top"], ["lookup", "other"], ["exports"], ["call_macro", "good", ["g"]], ["render_block", "fine"], ["render_block", "risky"]]
        failing = [["call_macro", "bad", ["a"]], ["render_block_armed", "risky"], ["call_macro", "nosuch_macro", []], ["render_block", "nosuch_block"],
                   ["call_macro", "good", []] if False else ["call_macro", "bad", []]]
        steps, must_fail = list(healthy), []
        for f in failing:
            must_fail.append(len(steps))
            steps.append(f)
            steps += healthy
        out.append(("state:%s" % pl, {"templates": {"main": src}, "main": "main", "ctx": {"outer": "ctx"}, "steps": steps}, must_fail, len(healthy)))
    return out


def fixture_cases():
    """-> (name, source, context or None, aux templates): the repository's fixtures with their own context (first part of
    the file) and the templates under inputs/refs they include / extend"""
    base = os.path.join(REPO, "minijinja/tests/inputs")
    refs = {}
    for f in sorted(glob.glob(os.path.join(base, "refs/*"))):
        try:
            refs[os.path.basename(f)] = open(f, encoding="utf8").read()
        except Exception:
            pass
    out = []
    for f in sorted(glob.glob(os.path.join(base, "*.txt")) + glob.glob(os.path.join(base, "*.html"))):
        try:
            txt = open(f, encoding="utf8").read()
        except Exception:
            continue
        parts = txt.split("\n---\n", 1)
        ctx = None
        if len(parts) == 2:
            try:
                ctx = json.loads(parts[0])
            except Exception:
                ctx = None
        if isinstance(ctx, dict) and "$settings" in ctx:
            ctx = None          # needs a differently configured environment: static check only
        out.append((os.path.basename(f), parts[1] if len(parts) == 2 else txt, ctx, refs))
    return out


def pmap(fn, items, nchunks=NPROC):
    """fn(list) -> list, applied to chunks in parallel (the work is in child processes)"""
    if not items:
        return []
    size = max(1, (len(items) + nchunks - 1) // nchunks)
    chunks = [items[i:i + size] for i in range(0, len(items), size)]
    with ThreadPoolExecutor(max_workers=nchunks) as ex:
        res = list(ex.map(fn, chunks))
    return [x for r in res for x in r]


def run_model_big(runner, cases):
    """run_model with an unlimited native stack: the extracted list functions are not tail recursive and a traced
    render can be tens of thousands of observations long"""
    return run_lines(["bash", "-c", "ulimit -s unlimited 2>/dev/null || ulimit -s 1000000; exec \"$0\" \"$1\"", os.path.join(EXTRACT, "C05", "mjmodel"), runner], cases)


def rec_cost(items):
    """recursion calls one execution of the body performs (the render grows like cost ^ depth of the tree)"""
    n = 0
    for it in items:
        if it[0] == "call":
            n += 2 if it[1] == "via" else 1
        elif it[0] == "block":
            n += rec_cost(it[2])
        elif it[0] == "forn":
            n += it[1] * (rec_cost(it[3]) + rec_cost(it[4]))
    return n


def has_loop_call(body):
    """a generated AST calls loop(): the reference interpreter has no recursion calls"""
    return "loop(" in proggen.body_src(body)


def main():
    chk = Check("C05", "proof")
    chk.cov["trusted_base"] = TRUSTED_COMMON + [
        "Print Assumptions: check_ann_sound, verdict_sound, check_rec_sound, verdict_rec_sound closed under the global context",
        "tools/absinstr.py: translation of the real Instruction JSON dump into the abstract instructions (operand-stack arities, successor targets, which calls may start a recursion) "
        "and its reader of the PopLoopFrame arm of vm/mod.rs (what the VM pops when a recursion call returns; fails loudly on unknown syntax) - unverified glue",
        "the abstract shape machine of C05/Model.v (edges + call_edges) is the semantics the theorems speak about; its agreement with eval_impl is CHECKED step by step on every traced render "
        "(shape observer hook + extracted replayer C05/Trace.v), not proved; the hook (feature verif_hooks) reports depths only",
        "macro, block, self.name(), include and super() calls are summarised as balanced calls in the abstract machine (each callee stream / entry point is checked separately); that summary is CHECKED on every traced nested activation: entry state vs. the calling instruction, and on return frames / captures / auto-escape entries as before the call and operands = before - arguments + result (Python comparison of the hook's observations)",
        "C05/RecLoop.v is an executable oracle (a fold over the tree), not a theorem about the engine"]
    chk.assumptions = ["the annotation inferencer is unverified; only its result is trusted through check_rec",
                       "typing a LoadConst(0) as an empty counted bundle is sound; the translator chooses where (filtered-loop accumulator)",
                       "a recursion call re-enters only loops of the same instruction stream (vm/mod.rs compares the stream address since 1442a27; the error families of the recursive-loop generator exercise it)"]
    okm, blog = build_models("C05")
    proofs_ok = chk.run_proofs()
    okc, clog = cargo_build(["prog", "c05_trace", "c05_state"], release=False)
    okr, clog2 = cargo_build(["prog", "c05_state"], release=True)
    if not (okc and okr):
        chk.violation("harness does not build against the current tree", {"theorem_or_correspondence": "build harness/src/bin/prog.rs, c05_trace.rs", "log": (clog + clog2)[-1500:]}, True)
        chk.finish()
    if not okm:
        chk.violation("model build failed", {"theorem_or_correspondence": "coq/theories/C05 build", "log": blog[-1500:]}, True)
        chk.finish()
    hist = collections.Counter()
    tlog = lambda w: log("[C05 %6.1fs] %s" % (time.time() - chk.t0, w))
    base_ctxs = [{"l": [1, 2, 3], "c": True, "t": True, "n": 3, "m": 2, "s": "a<b", "k": [1, 2], "v": "<"},
                 {"l": [1, 2, 3], "c": False, "t": True, "n": 0, "m": -2, "s": "", "k": [], "v": "<"},
                 {"l": [], "c": True, "t": False, "n": 7, "m": 10, "s": "Q'", "k": [1], "v": "<"}]
    base_aux = {"inc0.txt": "i0", "inc1.txt": "{{ n }}"}
    # ---- templates: records {name, src, main, aux, ctxs, expect (per ctx: None | ("ok", s) | ("err", kind)), sentinel, ast} ----
    T = []
    histories = []     # State-level histories for harness bin c05_state
    def add(name, src, ctxs=None, expect=None, aux=None, sentinel=SENT, ast=None, main="main", dynamic=True, callables=False):
        ctxs = base_ctxs if ctxs is None else ctxs
        T.append({"name": name, "src": src, "main": main, "aux": dict(base_aux if aux is None else aux), "ctxs": ctxs,
                  "expect": expect or [None] * len(ctxs), "sentinel": sentinel, "ast": ast, "dynamic": dynamic, "callables": callables})
    if chk.replay:
        rp = json.load(open(chk.replay))["replay"]
        ctxs = ([rp["context"]] if isinstance(rp.get("context"), dict) else []) + base_ctxs
        aux = dict(base_aux); aux.update(REC_AUX); aux.update(MT_AUX); aux.update(rp.get("aux") or {})
        exp = [tuple(rp["expected"])] if isinstance(rp.get("expected"), list) and isinstance(rp.get("context"), dict) else [None]
        if "template" in rp:
            add("replay", rp["template"], ctxs=ctxs, aux=aux, sentinel=None, main=rp.get("main", "main"), expect=(exp + [None] * len(ctxs))[:len(ctxs)],
                callables=bool(rp.get("callables")))
        if "state_request" in rp:
            histories.append(("replay", rp["state_request"], rp.get("must_fail") or [], rp.get("healthy_steps") or 0))
    else:
        depth = 3 if chk.thorough else 2
        for i, t in enumerate(nestings(depth)):
            add("nest%d" % i, t)
        for i, t in enumerate(else_controls()):
            add("elsectl%d" % i, t)
        if not chk.thorough:
            all3 = list(nestings(3))
            for j in range(400):
                add("nest3s%d" % j, all3[chk.rng.below(len(all3))])
        nrand = 6000 if chk.thorough else 600
        for j in range(nrand):
            g = proggen.Gen(chk.rng, {"autoescape": True, "recursive": j % 3 == 0, "strings_with_meta": True}, max_depth=3 + chk.rng.below(2))
            ctx, kinds = proggen.default_context(chk.rng)
            body = g.template(kinds) + [("raw", SENT)]
            add("gen%d" % j, proggen.body_src(body), ast=body)
        for k, (src, exp) in enumerate(escape_state_family()):
            add("escstate%d" % k, src + SENT, expect=[("ok", e + SENT) for e in exp] if isinstance(exp, list) else [None if exp is None else ("ok", exp + SENT)] * 3)
        # the recursive-loop family: expected output from the extracted Gallina oracle
        fam = rec_family(chk.rng, 3000 if chk.thorough else 300)
        trees = rec_trees()
        rec_cases, rec_slots = [], []
        for label, body, has_else, after in fam:
            ctxs, slots = [], []
            cost = rec_cost(body)
            for ti, t in enumerate(trees):
                if after and not t:
                    continue
                if (cost > 2 and ti >= 4) or (cost > 4 and ti >= 3):
                    continue        # deep trees only for bodies whose render stays small
                t2 = trees[(ti + 1) % len(trees)] if after else None
                ctxs.append({"tree": t, "tree2": t2 or [], "lt": "<"})
                rec_cases.append(rec_case(body, has_else, t, t2))
            rec_slots.append((len(T), len(ctxs)))
            rsrc, raux = rec_templates(body, has_else, after)
            raux.update(REC_AUX)
            add("rec:" + label, rsrc, ctxs=ctxs, aux=raux, sentinel="|<after")
            for it in json.dumps(body).split('"call", "')[1:]:
                hist["rec_call_position_" + it.split('"')[0]] += 1
            hist["rec_family_else" if has_else else "rec_family_noelse"] += 1
        exp = pmap(lambda c: run_model("C05", "c05-rec", c), rec_cases)
        k = 0
        for ti, n in rec_slots:
            es = []
            for e in exp[k:k + n]:
                if e[:1] == [0]:
                    es.append(("ok", "".join(chr(c) for c in e[1:])))
                elif e[:1] == [1] and len(e) > 1 and e[1] > 0:
                    es.append(("err", e[1]))
                else:
                    chk.violation("the recursive-loop oracle did not evaluate a generated case", {"theorem_or_correspondence": "C05/RecLoop.v runner c05-rec", "template": T[ti]["src"], "answer": e[:6]}, True)
                    es.append(None)
            T[ti]["expect"] = es
            k += n
        # multi-template families (Python test oracles): variables after every scoped construct, extends under capture / discard
        for label, tm, exp in scope_family() + extends_family():
            aux = dict(MT_AUX); aux.update({k: v for k, v in tm.items() if k != "main"})
            add("mt:" + label, tm["main"], ctxs=[{}], expect=[("ok", exp)], aux=aux, sentinel="|END")
            hist["mt_family_" + label.split(":")[0]] += 1
        # closure-sentinel family: expected output from the extracted reference interpreter on the program without the no-op statements
        cfam = closure_family(chk.rng)
        if build_models("C03")[0]:
            encs = []
            for label, o, src in cfam:
                try:
                    encs.append(langenc.request(o, {})[0])
                except Exception:
                    encs.append([0])
            refs = pmap(lambda c: run_model("C03", "c03", c), encs)
            for (label, o, src), e in zip(cfam, refs):
                parts = label.split(":")
                if parts[1] == "forelse" and parts[3] == "loop" and parts[4] == "empty":
                    # `loop` of the enclosing loop read inside a macro: the engine encloses the live loop object; the reference
                    # interpreter snapshots it (known difference of Lang/Interp, not of the engine): expectation stated here
                    w = ("<%s>" if parts[2] == "callblock" else "%s")
                    exp = "".join(w % ("(none:%d)" % k) for k in (1, 2)) + "|END"
                elif e[:1] == [0]:
                    exp = "".join(chr(x) for x in e[2:])
                else:
                    hist["closure_family_not_in_fragment"] += 1
                    continue
                add("mt:" + label, proggen.body_src(src), ctxs=[{}], expect=[("ok", exp)], aux=CLOS_AUX, sentinel="|END")
                hist["mt_family_closure_" + parts[1]] += 1
        else:
            chk.notes["closure_family"] = "the reference interpreter (C03 models) did not build: the closure-sentinel family was NOT run"
        # error-recovery families (Python test oracles): a host callable calls back into the engine, the call fails, the host recovers
        for label, tm, ctx, exp in error_family():
            add("mt:" + label, tm["main"], ctxs=[ctx], expect=[("ok", exp)], aux={}, sentinel="|END", callables=True)
            hist["mt_family_error_" + label.split(":")[1]] += 1
        histories += state_histories()
        # blocks that render themselves again through self.name() (Python test oracle)
        for label, tm, ctx, exp in self_family():
            aux = {k: v for k, v in tm.items() if k != "main"}
            add("mt:" + label, tm["main"], ctxs=[ctx], expect=[("ok", exp)], aux=aux, sentinel="|END")
            hist["mt_family_self_" + label.split(":")[1]] += 1
        for name, src, ctx, refs in fixture_cases():
            add("fixture:" + name, src, ctxs=[ctx] if ctx is not None else [], aux=refs, sentinel=None, main=name, dynamic=False)
    tlog("templates: %d" % len(T))
    # ---- static: verified checker on the real instruction streams ----
    reqs, owners = [], []
    aux_seen = {}
    for ti, t in enumerate(T):
        tm = dict(t["aux"]); tm[t["main"]] = t["src"]
        reqs.append({"templates": tm, "main": t["main"], "ctx": {}, "ops": ["instructions"]})
        owners.append((ti, t["main"]))
        if t["name"].startswith("rec:") or t["name"].startswith("mt:") or t["name"] == "replay":
            for an, asrc in t["aux"].items():
                if (an, asrc) not in aux_seen:
                    aux_seen[(an, asrc)] = ti
                    reqs.append({"templates": {an: asrc}, "main": an, "ctx": {}, "ops": ["instructions"]})
                    owners.append((ti, an))
    dumps = pmap(lambda r: run_prog(r), reqs)
    streams = []   # (template index, stream name, instrs)
    for (ti, tn), d in zip(owners, dumps):
        ins = d.get("instructions")
        if not ins:
            hist["not_compiled"] += 1
            continue
        streams.append((ti, tn, ins["main"]))
        for bn, b in sorted(ins["blocks"].items()):
            streams.append((ti, tn + ":block:" + bn, b))
    # what the VM pops when a recursion call returns is read from vm/mod.rs of the tree under test
    try:
        vmrule = absinstr.vm_return_rule(REPO)
    except (absinstr.TranslatorError, OSError) as ex:
        chk.violation("the return path of a recursion call in vm/mod.rs is not recognised by the translator",
                      {"theorem_or_correspondence": "tools/absinstr.py::vm_return_rule (Instruction::PopLoopFrame arm)", "error": str(ex)}, True)
        chk.finish()
    absinstr.set_rule(vmrule)
    chk.cov["vm_return_rule"] = [list(o) for o in vmrule["ops"]]
    cases = []
    for ti, sn, instrs in streams:
        try:
            cases.append(absinstr.encode(instrs))
        except ValueError as ex:
            chk.violation("instruction not known to the translator", {"theorem_or_correspondence": "tools/absinstr.py", "error": str(ex), "template": T[ti]["src"]}, True)
            cases.append([0, 0])
    verdicts = pmap(lambda c: run_model("C05", "c05", c), cases)
    stats = pmap(lambda c: run_model("C05", "c05-stats", c), cases)
    rejected = []
    for k, v in enumerate(verdicts):
        if v[:1] == [1]:
            continue
        # try alternative typings of zero constants before believing a rejection
        ti, sn, instrs = streams[k]
        alts = list(absinstr.typings(instrs))[1:]
        ok = False
        if alts:
            rs = run_model("C05", "c05", [absinstr.encode(instrs, t) for t in alts])
            ok = any(r[:1] == [1] for r in rs)
        if not ok:
            rejected.append((k, v))
    for op in ("PushWith", "PushLoop", "BeginCapture", "PushAutoEscape", "BuildMacro", "Jump", "FastRecurse", "CallBlock"):
        hist["streams_with_" + op] = sum(1 for _, _, ins in streams if any(i["op"] == op for i in ins))
    hist["streams"] = len(streams)
    hist["instructions"] = sum(len(ins) for _, _, ins in streams)
    hist["recursive_loops"] = sum(s[0] for s in stats if len(s) == 3)
    hist["recursion_call_sites"] = sum(s[1] for s in stats if len(s) == 3 and s[0] > 0)
    hist["region_analyses"] = sum(s[2] for s in stats if len(s) == 3)
    hist["streams_with_recursive_loop_and_else"] = sum(
        1 for _, _, ins in streams if any(i["op"] == "PushDidNotIterate" for i in ins) and any(i["op"] == "PushLoop" and i["arg"] & 2 for i in ins))
    tlog("static done: %d streams, %d rejected" % (len(streams), len(rejected)))
    # ---- dynamic: render, sentinel must arrive, expected output, no crash ----
    # what the reference interpreter (Lang/Interp.v, extracted for C03) renders for the generated programs without
    # recursion calls: scope, capture and auto-escape state after every construct show in the rest of the output
    ref = {}
    gen_idx = [ti for ti, t in enumerate(T) if t["ast"] is not None and not has_loop_call(t["ast"])]
    if gen_idx and build_models("C03")[0]:
        keys = [(ti, ci) for ti in gen_idx for ci in range(len(T[ti]["ctxs"]))]
        outs = pmap(lambda c: run_model("C03", "c03", c), [langenc.request(T[ti]["ast"], T[ti]["ctxs"][ci])[0] for ti, ci in keys])
        for k, o in zip(keys, outs):
            ref[k] = o
    dyn_reqs, dyn_idx = [], []
    for ti, t in enumerate(T):
        if not t["dynamic"]:
            continue
        tm = dict(t["aux"]); tm[t["main"]] = t["src"]
        for ci, ctx in enumerate(t["ctxs"]):
            dyn_reqs.append({"templates": tm, "main": t["main"], "ctx": ctx, "ops": ["render"], "c05_callables": t["callables"]})
            dyn_idx.append((ti, ci))
    dyn_bad = []
    for rel in (False, True):
        res = pmap(lambda r: run_prog(r, release=rel, watchdog_ms=8000), dyn_reqs)
        for (ti, ci), r in zip(dyn_idx, res):
            rr = r.get("render", r)
            t = T[ti]
            want = t["expect"][ci]
            if "ok" in rr:
                hist["render_ok"] += 1
                if t["sentinel"] and not rr["ok"].endswith(t["sentinel"]):
                    dyn_bad.append((ti, ci, rel, "text after the construct did not reach the output", rr["ok"][-60:]))
                elif want is not None and want != ("ok", rr["ok"]):
                    what = ("a recursive loop did not render the fold over the tree (operand, capture or escape state not restored around a recursion call)" if t["name"].startswith("rec:")
                            else "variable scope not as before a scoped construct (sentinel variable after the construct)" if t["name"].startswith("mt:scope")
                            else "a macro does not see the variables of its surroundings as they are (closure link / enclosed names not as before a scoped construct, an include or in a for-else branch)" if t["name"].startswith("mt:clos")
                            else "after a failing macro / caller / block call that the host recovered from, the template does not go on in the scope / capture / escape state it had before the call" if t["name"].startswith("mt:err")
                            else "a block that renders itself again through self.name() does not leave the variables / scopes of the outer rendering as they were" if t["name"].startswith("mt:self")
                            else "output of a template that extends / imports / includes an extending template went to the wrong target (capture state across the hand-over to the parent)" if t["name"].startswith("mt:ext")
                            else "auto-escape state not restored after a construct")
                    dyn_bad.append((ti, ci, rel, what, "got %r expected %r" % (rr["ok"][-200:], want)))
                elif want is not None:
                    hist["expected_output_agree"] += 1
                elif (ti, ci) in ref and ref[(ti, ci)][:1] == [0] and "".join(chr(c) for c in ref[(ti, ci)][2:]) != rr["ok"]:
                    dyn_bad.append((ti, ci, rel, "output differs from the reference semantics (scope / capture / escape state after a construct)",
                                    "got %r expected %r" % (rr["ok"][-120:], "".join(chr(c) for c in ref[(ti, ci)][2:])[-120:])))
                    hist["ref_mismatch"] += 1
                elif (ti, ci) in ref:
                    hist["ref_agree"] += 1
            elif "err" in rr:
                hist["render_err_%s" % ERR_NAMES.get(rr["err"], rr["err"])] += 1
                if want is not None and want != ("err", rr["err"]):
                    dyn_bad.append((ti, ci, rel, "a render that must succeed failed / fails with another error kind (state not restored around a construct)" if not t["name"].startswith("rec:") else
                                    "a recursive loop did not render the fold over the tree (operand, capture or escape state not restored around a recursion call)",
                                    "got error kind %r expected %r" % (rr["err"], want)))
                elif want is not None:
                    hist["expected_error_agree"] += 1
            else:
                dyn_bad.append((ti, ci, rel, "crash", json.dumps(r)[:200]))
    # ---- State-level histories: healthy steps answer the same before and after every failing step ----
    hist_bad = []
    for rel in (False, True):
        hres = run_json([bin_path("c05_state", rel)], [h[1] for h in histories]) if histories else []
        for (label, req, must_fail, nh), r in zip(histories, hres):
            st = r.get("steps")
            why = None
            if not isinstance(st, list) or "ok" not in (r.get("render") or {}):
                why = "the captured render / the history crashed: " + json.dumps(r)[:200]
            else:
                base = st[:nh]
                hist["state_history_steps"] += len(st)
                for i in must_fail:
                    if i >= len(st) or not (isinstance(st[i], dict) and "err" in st[i]):
                        why = "step %d (%r) must fail and did not: %r" % (i, req["steps"][i], st[i] if i < len(st) else None)
                    elif st[i + 1:i + 1 + nh] != base:
                        why = "after the failing step %d (%r) the healthy steps answer %r, before it %r" % (i, req["steps"][i], st[i + 1:i + 1 + nh], base)
                    if why:
                        break
            if why:
                hist_bad.append((label, req, must_fail, nh, rel, why))
            else:
                hist["state_histories_ok"] += 1
    tlog("dynamic done: %d renders x2, %d failures" % (len(dyn_reqs), len(dyn_bad)))
    # ---- trace: every activation of eval_impl replayed through the abstract machine ----
    tr_reqs, tr_idx = [], []
    for ti, t in enumerate(T):
        tm = dict(t["aux"]); tm[t["main"]] = t["src"]
        for ci, ctx in enumerate(t["ctxs"]):
            tr_reqs.append({"templates": tm, "main": t["main"], "ctx": ctx, "c05_callables": t["callables"]})
            tr_idx.append((ti, ci))
    env = dict(ENV); env["MJVERIF_WATCHDOG_MS"] = "8000"
    probe = run_json([bin_path("c05_trace")], tr_reqs[:1], env=env) if tr_reqs else []
    trace_bad, proto_bad, exit_bad = [], [], []
    if probe and probe[0].get("hook") is False:
        chk.notes["trace"] = "the tree under test has no shape observer (hook commit `hook: verif_hooks shape observer` not applied): the step-by-step tie of the abstract machine to eval_impl was NOT run"
        hist["trace_hook_missing"] = 1
    else:
        tres = pmap(lambda r: run_json([bin_path("c05_trace")], r, env=env), tr_reqs)
        tlog("traced renders done: %d" % len(tres))
        tcases, tmeta = [], []
        for (ti, ci), r in zip(tr_idx, tres):
            if not r.get("hook"):
                if "panic" in r or "hang" in r or "crash" in r:
                    hist["trace_render_crash"] += 1   # reported by the dynamic part with the plain harness
                continue
            if r.get("truncated"):
                hist["trace_truncated"] += 1
            # how an activation starts, relative to the instruction of its parent that started it (vm/mod.rs: call_block and
            # perform_super push one frame, a capturing super() begins a capture, perform_include runs on the current frame)
            for ai, b in enumerate(r.get("born") or []):
                if not b or ai >= len(r["acts"]) or not r["acts"][ai]:
                    continue
                pins = r["streams"][b[1]][b[2]]
                first = r["acts"][ai][0][1][0]
                want = None
                if pins["op"] in ("CallBlock", "FastSuper"):
                    want = (b[4] + 1, b[5])
                elif pins["op"] == "CallFunction" and pins["arg"][0] == "super":
                    want = (b[4] + 1, b[5] + 1)
                elif pins["op"] == "Include":
                    want = (b[4], b[5])
                if want is not None:
                    hist["trace_entry_protocol_" + pins["op"]] += 1
                    if (first[2], first[3]) != want:
                        proto_bad.append((ti, ci, ai, pins, b, first, want))
            # exit side, for EVERY nested evaluation (macro, block, self.name(), super(), include, callbacks): when the parent runs
            # again it is at the instruction after the call with the frame, capture and auto-escape depths it had before the
            # call instruction, and its operand stack is the one before minus the arguments plus the result - the "balanced
            # call" summary the abstract machine uses for these instructions, checked on the observed run
            for ai, (b, a) in enumerate(zip(r.get("born") or [], r.get("after") or [])):
                if not b or not a:
                    continue
                pins = r["streams"][b[1]][b[2]]
                hist["trace_exit_protocol"] += 1
                want_stk = None
                try:
                    tag, x, y = absinstr.one(pins, False)
                    if tag == 0:
                        want_stk = b[3] - x + y
                    elif tag == 20 and x == 0:
                        want_stk = b[3]
                except Exception:
                    pass
                ok = a[2:] == b[4:7] and (a[0] != b[2] + 1 or want_stk is None or a[1] == want_stk)
                if not ok:
                    exit_bad.append((ti, ci, ai, pins, b, a, want_stk))
            # an `extends` hands over to the parent's instructions in the same activation: it must start from the entry state
            for ai, act in enumerate(r["acts"]):
                for k in range(1, len(act)):
                    hist["trace_handovers"] += 1
                    f0, fk = act[0][1][0], act[k][1][0]
                    if fk[0] != 0 or fk[1:] != f0[1:]:
                        proto_bad.append((ti, ci, ai, {"op": "(hand-over to the parent template)"}, f0, fk, tuple(f0[1:])))
            per_stream = collections.defaultdict(list)      # stream index -> [(activation, observations)]
            for ai, act in enumerate(r["acts"]):
                for si, obs in act:
                    per_stream[si].append((ai, obs))
            for si, acts in sorted(per_stream.items()):
                code = r["streams"][si]
                try:
                    enc = absinstr.encode(code)
                except ValueError:
                    continue
                tail = [len(acts)]
                for ai, obs in acts:
                    tail.append(len(obs))
                    for o in obs:
                        tail += o
                    hist["trace_observations"] += len(obs)
                    hist["trace_activations"] += 1
                    for x, y in zip(obs, obs[1:]):
                        if y[0] != x[0] + 1 and code[y[0]]["op"] == "PushLoop" and code[x[0]]["op"] in ("FastRecurse", "CallFunction"):
                            hist["trace_recursion_entries_" + code[x[0]]["op"]] += 1
                        if code[x[0]]["op"] == "PopLoopFrame" and y[0] != x[0] + 1:
                            hist["trace_recursion_returns"] += 1
                tcases.append(enc + tail)
                tmeta.append((ti, ci, si, code, tail, [ai for ai, _ in acts]))
        tlog("trace cases built: %d" % len(tcases))
        tver = pmap(lambda c: run_model_big("c05-trace", c), tcases)
        tlog("trace replay done")
        for meta, v in zip(tmeta, tver):
            if v[:1] == [1]:
                hist["trace_streams_replayed_ok"] += 1
                continue
            ti, ci, si, code, tail, ais = meta
            # a stream whose zero constants need another typing: try the alternatives before believing it
            alts = list(absinstr.typings(code))[1:]
            ok = False
            if alts:
                ok = any(r[:1] == [1] for r in run_model_big("c05-trace", [absinstr.encode(code, t) + tail for t in alts]))
            if ok:
                hist["trace_streams_replayed_ok"] += 1
            else:
                trace_bad.append((meta, v))
    tlog("trace done: %d failures" % len(trace_bad))
    # ---- evidence ----
    nontriv = set()
    for ti, sn, ins in streams:
        ops = {i["op"] for i in ins}
        if ops & {"PushWith", "BeginCapture", "PushAutoEscape", "PushLoop"}:
            nontriv.add(json.dumps(ins, sort_keys=True))
    chk.cov["programs"] = len(streams)
    chk.cov["evaluations"] = len(streams) + 2 * len(dyn_reqs) + hist["trace_activations"]
    chk.cov["distinct_nontrivial"] = len(nontriv)
    chk.cov["rule"] = ("templates: every nesting of the 9 scoped constructs up to depth %s with break/continue (guarded and bare) at the innermost point, loop controls in else blocks, "
                       "seeded typed random templates (a third with recursive loops), the escape-state family, the recursive-loop family (every call position x else/no else x wrapper construct, "
                       "calls through stored loop objects from nested loops / after the loop / macros of the same and of another template / includes, random bodies, trees of depth 0..4) "
                       "and the repository's test fixtures with their own contexts; each compiled by the CURRENT compiler, every stream (template body, macro bodies, blocks) "
                       "checked on all paths by the extracted verified checker (entry-point analysis + one analysis per recursive loop and call site), rendered under its contexts x {debug, release} "
                       "against sentinel / expected output / reference interpreter, and every activation of eval_impl replayed step by step through the abstract machine. "
                       "non-trivial = distinct instruction stream containing at least one frame/capture/auto-escape/loop push" % ("3" if chk.thorough else "2 (+400 sampled depth-3)"))
    chk.cov["samples"] = [T[i]["src"] for i in (0, len(T) // 2, max(0, len(T) - 200))] if T else []
    chk.cov["distribution"] = dict(hist)
    chk.cov["streams_rejected"] = len(rejected)
    chk.cov["dynamic_failures"] = len(dyn_bad)
    chk.cov["trace_failures"] = len(trace_bad)
    chk.cov["entry_protocol_failures"] = len(proto_bad)
    chk.cov["exit_protocol_failures"] = len(exit_bad)
    chk.cov["state_history_failures"] = len(hist_bad)
    # ---- verdicts ----
    seen = set()
    def replay_of(ti, ci=None):
        t = T[ti]
        r = {"template": t["src"], "main": t["main"]}
        if t["callables"]:
            r["callables"] = True
        aux = {k: v for k, v in t["aux"].items() if k not in base_aux}
        if aux and not t["name"].startswith("fixture:"):
            r["aux"] = aux
        if ci is not None and ci < len(t["ctxs"]):
            r["context"] = t["ctxs"][ci]
        return r
    for ti, ci, rel, what, detail in dyn_bad:
        if ti in seen or len(seen) >= 5:
            continue
        seen.add(ti)
        r = replay_of(ti, ci); r.update({"profile": "release" if rel else "debug", "observed": detail, "family": T[ti]["name"]})
        if ci < len(T[ti]["expect"]) and T[ti]["expect"][ci] is not None:
            r["expected"] = list(T[ti]["expect"][ci])
        chk.violation(what, r)
    nrej = 0
    for k, v in rejected:
        ti, sn, instrs = streams[k]
        if ti in seen or nrej >= 5:
            continue
        seen.add(ti); nrej += 1
        pcb = v[2] if len(v) > 2 else None
        info = replay_of(ti)
        info.update({"stream": sn, "rejected_at_pc": pcb, "instruction": instrs[pcb] if pcb is not None and pcb < len(instrs) else None, "family": T[ti]["name"],
                     "note": "the template is the failing input: some path through its compiled code discards a frame/capture/auto-escape/operand it did not create or ends unbalanced"})
        if len(v) > 5 and v[1] > 0:
            info["analysis"] = "activation of the recursive loop at pc %d entered by the call before pc %d (%s)" % (v[3], v[4], "capturing" if v[5] else "not capturing")
        chk.violation("a control-flow path of the compiled code is not balanced (verified checker rejects the stream)", info)
    ntr = 0
    for (ti, ci, si, code, tail, ais), v in trace_bad:
        if ntr >= 5:
            break
        ntr += 1
        reasons = {1: "pc outside the stream", 2: "the abstract machine is stuck where the VM went on", 3: "no abstract successor has the observed pc and depths",
                   4: "recursion entry: depths at the PushLoop differ", 5: "recursion entry: first body instruction differs", 6: "entry: fewer operands than the entry point's arguments",
                   7: "activation does not start at an entry point"}
        info = replay_of(ti, ci)
        info.update({"activation": ais[v[1]] if len(v) > 1 and v[1] < len(ais) else None, "observation": v[2] if len(v) > 2 else None,
                     "reason": reasons.get(v[3] if len(v) > 3 else 0, str(v)),
                     "pc_before": v[4] if len(v) > 4 else None, "observed_pc": v[5] if len(v) > 5 else None,
                     "instruction_before": code[v[4]] if len(v) > 4 and v[4] < len(code) else None, "family": T[ti]["name"],
                     "note": "the observed run of eval_impl is not a run of the abstract machine: the VM holds other frames / captures / auto-escape entries / operands than the model says (the VM is unbalanced here, or Model.v misdescribes it)"})
        chk.violation("an observed run of eval_impl leaves the abstract shape machine (step-by-step replay of the traced render)", info)
    for ti, ci, ai, pins, b, first, want in proto_bad[:5]:
        info = replay_of(ti, ci)
        info.update({"activation": ai, "started_by": pins, "parent_observation": b, "first_observation": first, "expected_frames_captures": list(want), "family": T[ti]["name"],
                     "note": "observations are [pc, operand stack, context frames, open captures, auto-escape entries]; a block / super() body must run one frame above its caller, an include on the caller's frame, "
                             "the parent template of an `extends` from the state the activation started in"})
        chk.violation("a nested evaluation does not start in the state the construct promises (scope / capture depth at the entry of a block, super(), include or at the hand-over of extends)", info)
    for label, req, must_fail, nh, rel, why in hist_bad[:3]:
        chk.violation("a State does not answer as before after a failing call_macro / render_block the host recovered from (variables, exports, later calls)",
                      {"state_request": req, "must_fail": must_fail, "healthy_steps": nh, "profile": "release" if rel else "debug", "observed": why, "family": label,
                       "note": "harness bin c05_state: render_captured, then the steps through Captured::with_state_mut / state()"})
    for ti, ci, ai, pins, b, a, want_stk in exit_bad[:5]:
        info = replay_of(ti, ci)
        info.update({"activation": ai, "called_by": pins, "observation_before_the_call": b[2:], "observation_after_the_return": a, "expected_operand_stack": want_stk,
                     "family": T[ti]["name"],
                     "note": "observations are [pc, operand stack, context frames, open captures, auto-escape entries]; a nested evaluation (block, self.name(), super(), macro, include) must give "
                             "back the caller's frames, captures and auto-escape entries exactly, and its operands minus the arguments plus the result"})
        chk.violation("a nested evaluation does not give back the state it was called in (scope / capture / auto-escape depth after a block, self.name(), super(), macro or include returned)", info)
    if not chk.violations and not proofs_ok:
        chk.violation("proof obligations of C05 do not check", {"theorem_or_correspondence": chk.proof["problems"]}, True)
    chk.finish()


if __name__ == "__main__":
    main()
